module verif/harness

go 1.23

require github.com/mfcochauxlaberge/jsonapi v0.0.0

replace github.com/mfcochauxlaberge/jsonapi => /repo
