package main

// Ordered concretisation: abstract ordered values (sequences of naturals,
// compared lexicographically by the spec) mapped to concrete values of every
// kind through order-preserving maps.

import (
	"math"
	"reflect"
	"strings"
	"time"

	"github.com/mfcochauxlaberge/jsonapi"
)

// fVal is a value of the Filter/Range models.
type fVal struct {
	Nil bool     `json:"nil"`
	S   []int    `json:"s"`
	IDs []string `json:"ids"`
}

func (v fVal) norm() fVal {
	if v.S == nil {
		v.S = []int{}
	}
	if v.IDs == nil {
		v.IDs = []string{}
	}
	return v
}

// numeric ranks 0..4 per kind, increasing, boundary-heavy
var numTables = []map[int][]any{
	{
		jsonapi.AttrTypeInt:    {int(math.MinInt64), int(-1), int(0), int(1), int(math.MaxInt64)},
		jsonapi.AttrTypeInt8:   {int8(math.MinInt8), int8(-1), int8(0), int8(1), int8(math.MaxInt8)},
		jsonapi.AttrTypeInt16:  {int16(math.MinInt16), int16(-1), int16(0), int16(1), int16(math.MaxInt16)},
		jsonapi.AttrTypeInt32:  {int32(math.MinInt32), int32(-1), int32(0), int32(1), int32(math.MaxInt32)},
		jsonapi.AttrTypeInt64:  {int64(math.MinInt64), int64(-1), int64(0), int64(1), int64(math.MaxInt64)},
		jsonapi.AttrTypeUint:   {uint(0), uint(1), uint(math.MaxInt64), uint(1 << 63), uint(math.MaxUint64)},
		jsonapi.AttrTypeUint8:  {uint8(0), uint8(1), uint8(127), uint8(128), uint8(255)},
		jsonapi.AttrTypeUint16: {uint16(0), uint16(1), uint16(1<<15 - 1), uint16(1 << 15), uint16(math.MaxUint16)},
		jsonapi.AttrTypeUint32: {uint32(0), uint32(1), uint32(1<<31 - 1), uint32(1 << 31), uint32(math.MaxUint32)},
		jsonapi.AttrTypeUint64: {uint64(0), uint64(1), uint64(math.MaxInt64), uint64(1 << 63), uint64(math.MaxUint64)},
		jsonapi.AttrTypeTime: {
			mustTime("0001-01-01T00:00:00Z"), mustTime("1969-12-31T23:59:59.999999999Z"),
			// the same wall clock in two zones: ordered as instants, not as text
			mustTime("2001-02-03T04:05:06+02:00"), mustTime("2001-02-03T04:05:06Z"),
			mustTime("9999-12-31T23:59:59.999999999Z"),
		},
	},
	{
		jsonapi.AttrTypeInt:    {int(-1 << 40), int(-2), int(-1), int(7), int(1 << 40)},
		jsonapi.AttrTypeInt8:   {int8(-127), int8(-2), int8(5), int8(6), int8(126)},
		jsonapi.AttrTypeInt16:  {int16(-300), int16(-129), int16(127), int16(128), int16(256)},
		jsonapi.AttrTypeInt32:  {int32(-1 << 20), int32(-32769), int32(32767), int32(32768), int32(1 << 30)},
		jsonapi.AttrTypeInt64:  {int64(-1 << 62), int64(-1<<31 - 1), int64(1 << 31), int64(1 << 32), int64(1 << 62)},
		jsonapi.AttrTypeUint:   {uint(2), uint(255), uint(256), uint(1 << 32), uint(1<<63 - 1)},
		jsonapi.AttrTypeUint8:  {uint8(2), uint8(3), uint8(126), uint8(129), uint8(254)},
		jsonapi.AttrTypeUint16: {uint16(255), uint16(256), uint16(257), uint16(1 << 14), uint16(math.MaxUint16 - 1)},
		jsonapi.AttrTypeUint32: {uint32(65535), uint32(65536), uint32(1 << 30), uint32(1<<31 + 1), uint32(math.MaxUint32 - 1)},
		jsonapi.AttrTypeUint64: {uint64(1<<63 - 1), uint64(1 << 63), uint64(1<<63 + 1), uint64(math.MaxUint64 - 1), uint64(math.MaxUint64)},
		jsonapi.AttrTypeTime: {
			mustTime("1000-06-15T12:00:00.5-11:00"), mustTime("1999-12-31T23:59:59Z"),
			mustTime("2000-01-01T00:00:00+14:00").Add(15 * time.Hour), mustTime("2000-01-01T01:00:00.000000001Z"),
			mustTime("2262-04-11T23:47:16.854775807Z"),
		},
	},
}

// symbol maps for sequences: order-preserving
var strSymbols = [][]string{
	{"a", "b", "c"},
	{"\x00", "\x7f", "é"},
	{"é", "漢", "\U0001F600"},
	{" ", "<", "~"},
}
var byteSymbols = [][]byte{
	{0, 1, 2},
	{0, 0x7f, 0xff},
	{1, 128, 255},
}

func classOf(kind int) string {
	switch kind {
	case jsonapi.AttrTypeString, jsonapi.AttrTypeBytes:
		return "seq"
	case jsonapi.AttrTypeBool:
		return "bool"
	}
	return "num"
}

// ordConcrete maps an abstract ordered value to a base (non-pointer) Go value.
func ordConcrete(kind int, s []int, table int) any {
	switch kind {
	case jsonapi.AttrTypeString:
		m := strSymbols[table%len(strSymbols)]
		var b strings.Builder
		for _, x := range s {
			b.WriteString(m[x])
		}
		return b.String()
	case jsonapi.AttrTypeBytes:
		m := byteSymbols[table%len(byteSymbols)]
		out := make([]byte, 0, len(s))
		for _, x := range s {
			out = append(out, m[x])
		}
		return out
	case jsonapi.AttrTypeBool:
		return s[0] == 1
	}
	return numTables[table%len(numTables)][kind][s[0]]
}

// ordValue: the Go value of (kind, nullable) for an abstract value; a typed nil
// pointer for nil.
func ordValue(kind int, nullable bool, v fVal, table int) any {
	if v.Nil {
		return jsonapi.GetZeroValue(kind, true)
	}
	base := ordConcrete(kind, v.S, table)
	if !nullable {
		return base
	}
	p := reflect.New(reflect.TypeOf(base))
	p.Elem().Set(reflect.ValueOf(base))
	return p.Interface()
}

// kindsOfClass lists the real base kinds of a model class.
func kindsOfClass(cls string) []int {
	var out []int
	for _, k := range baseKinds {
		if classOf(k) == cls {
			out = append(out, k)
		}
	}
	return out
}
