package main

// Growth family G05 (MetaHolders.tla): meta values of a document, a soft resource and a wrapped
// struct.  Every history TLC emitted and seeded longer walks over its alphabet are run on real
// objects; after every call the driver writes down what EVERY holder shows (nil or not, the keys,
// the five accessors of meta.go for every key of the universe), and the stateful monitor
// Trace_MetaHolders compares all of it with the model state.

import (
	"bufio"
	"encoding/json"
	"flag"
	"fmt"
	"os"
	"path/filepath"
	"sort"
	"time"

	"github.com/mfcochauxlaberge/jsonapi"
)

type mOp struct {
	Op string `json:"op"`
	H  string `json:"h"`
	G  string `json:"g"`
	K  string `json:"k"`
	V  string `json:"v"`
}

type mAcc struct {
	Has  bool   `json:"has"`
	Str  string `json:"str"`
	Int  int    `json:"int"`
	Bool bool   `json:"bool"`
	Time string `json:"time"`
}

type mHolder struct {
	IsNil bool            `json:"isnil"`
	Keys  []string        `json:"keys"`
	Acc   map[string]mAcc `json:"acc"`
}

type mEvent struct {
	Ev  string             `json:"ev"`
	Op  mOp                `json:"op"`
	Ret string             `json:"ret"`
	Obs map[string]mHolder `json:"obs"`
	H   int                `json:"h"`
}

type metaWrapped struct {
	ID string `json:"id" api:"mw"`
	A  string `json:"a" api:"attr"`
}

var metaKeys = []string{"j", "k"}

func metaVal(tok string) any {
	switch tok {
	case "s_abc":
		return "abc"
	case "s_time":
		return "2001-02-03T04:05:06Z"
	case "i_7":
		return 7
	case "f_7":
		return float64(7)
	case "f_2p5":
		return 2.5
	case "b_t":
		return true
	case "b_f":
		return false
	case "nil":
		return nil
	case "T_1":
		return time.Date(2001, 2, 3, 4, 5, 6, 0, time.UTC)
	}
	infra("unknown meta value token %q", tok)
	return nil
}

type metaWorld struct {
	schema *jsonapi.Schema
	doc    *jsonapi.Document
	res    map[string]jsonapi.Resource // "soft", "wrap"
}

func newMetaWorld() *metaWorld {
	s := &jsonapi.Schema{}
	must(s.AddType(jsonapi.MustBuildType(metaWrapped{})))
	must(s.AddType(jsonapi.Type{Name: "ms"}))
	must(s.AddAttr("ms", jsonapi.Attr{Name: "a", Type: jsonapi.AttrTypeString}))
	soft := &jsonapi.SoftResource{}
	soft.SetType(ptrType(s.GetType("ms")))
	soft.SetID("s1")
	return &metaWorld{schema: s, doc: &jsonapi.Document{}, res: map[string]jsonapi.Resource{
		"soft": soft, "wrap": jsonapi.Wrap(&metaWrapped{ID: "w1", A: "x"})}}
}

func ptrType(t jsonapi.Type) *jsonapi.Type { return &t }

func (w *metaWorld) get(h string) jsonapi.Meta {
	if h == "doc" {
		return w.doc.Meta
	}
	return w.res[h].(jsonapi.MetaHolder).Meta()
}

func (w *metaWorld) set(h string, m jsonapi.Meta) {
	if h == "doc" {
		w.doc.Meta = m
		return
	}
	w.res[h].(jsonapi.MetaHolder).SetMeta(m)
}

func (w *metaWorld) wire(h string) {
	if h == "doc" {
		u, err := jsonapi.NewURLFromRaw(w.schema, "/ms")
		must(err)
		b, err := jsonapi.MarshalDocument(w.doc, u)
		must(err)
		d, err := jsonapi.UnmarshalDocument(b, w.schema)
		must(err)
		w.doc = d
		return
	}
	r := w.res[h]
	b := jsonapi.MarshalResource(r, "https://h", []string{"a"}, nil)
	if len(b) == 0 {
		infra("MarshalResource gave nothing for holder %s", h)
	}
	r2, err := jsonapi.UnmarshalResource(b, w.schema)
	must(err)
	if r2.Get("id") != r.Get("id") || r2.GetType().Name != r.GetType().Name {
		infra("wire of %s changed the identity of the resource", h)
	}
	w.res[h] = r2
}

func (w *metaWorld) show(h string) mHolder {
	m := w.get(h)
	o := mHolder{IsNil: m == nil, Keys: sortedKeys(map[string]any(m)), Acc: map[string]mAcc{}}
	for _, k := range metaKeys {
		t := m.GetTime(k)
		ts := "zero"
		if !t.IsZero() {
			ts = t.UTC().Format(time.RFC3339Nano)
		}
		o.Acc[k] = mAcc{Has: m.Has(k), Str: m.GetString(k), Int: m.GetInt(k), Bool: m.GetBool(k), Time: ts}
	}
	return o
}

func runMetaHistory(hist []mOp, h int) []mEvent {
	evs := []mEvent{{Ev: "reset", Op: mOp{Op: "reset"}, Ret: "ok", Obs: map[string]mHolder{}, H: h}}
	w := newMetaWorld()
	for _, op := range hist {
		ev := mEvent{Ev: "op", Op: op, Ret: "ok", H: h, Obs: map[string]mHolder{}}
		p, _ := catch(func() {
			switch op.Op {
			case "Put":
				m := w.get(op.H)
				if m == nil {
					m = jsonapi.Meta{}
					w.set(op.H, m)
				}
				m[op.K] = metaVal(op.V)
			case "Del":
				delete(w.get(op.H), op.K)
			case "Share":
				w.set(op.G, w.get(op.H))
			case "Copy":
				w.res[op.H] = w.res[op.H].(jsonapi.Copier).Copy()
			case "Wire":
				w.wire(op.H)
			case "Look":
			default:
				infra("unknown op %q", op.Op)
			}
			for _, hn := range []string{"doc", "soft", "wrap"} {
				ev.Obs[hn] = w.show(hn)
			}
		})
		if p {
			ev.Ret = "panic"
			ev.Obs = map[string]mHolder{"doc": {}, "soft": {}, "wrap": {}}
		}
		evs = append(evs, ev)
		if p {
			break
		}
	}
	return evs
}

func metaMain(args []string) {
	fs := flag.NewFlagSet("meta", flag.ExitOnError)
	gen := fs.String("gen", "", "TLC generation output (ALPHA + S lines)")
	out := fs.String("out", "", "output directory")
	seed := fs.Int64("seed", 1, "seed")
	walks := fs.Int("walks", 0, "seeded random walks over the alphabet")
	depth := fs.Int("depth", 30, "length of a walk")
	must(fs.Parse(args))
	var alpha []mOp
	var hists [][]mOp
	tlcLines(*gen, func(tag string, js []byte) {
		switch tag {
		case "ALPHA":
			if alpha == nil {
				must(json.Unmarshal(js, &alpha))
			}
		case "S":
			var s struct {
				Hist []mOp `json:"hist"`
			}
			must(json.Unmarshal(js, &s))
			hists = append(hists, s.Hist)
		}
	})
	if len(alpha) == 0 || len(hists) == 0 {
		infra("incomplete generation output %s", *gen)
	}
	rng := newRand(*seed, "meta")
	sort.Slice(alpha, func(i, j int) bool { return fmt.Sprint(alpha[i]) < fmt.Sprint(alpha[j]) })
	// a walk draws the kind of call first (Put outnumbers the others nine to one in the alphabet)
	kinds := []string{}
	byKind := map[string][]mOp{}
	for _, op := range alpha {
		if byKind[op.Op] == nil {
			kinds = append(kinds, op.Op)
		}
		byKind[op.Op] = append(byKind[op.Op], op)
	}
	for w := 0; w < *walks; w++ {
		var h []mOp
		for d := 0; d < *depth; d++ {
			ops := byKind[kinds[rng.Intn(len(kinds))]]
			h = append(h, ops[rng.Intn(len(ops))])
		}
		hists = append(hists, h)
	}
	classes := map[string]int{}
	total, chunk, inChunk := 0, 0, 0
	var fh *os.File
	var bw *bufio.Writer
	roll := func() {
		if bw != nil {
			must(bw.Flush())
			must(fh.Close())
		}
		var err error
		fh, err = os.Create(filepath.Join(*out, fmt.Sprintf("ev-%03d.ndjson", chunk)))
		must(err)
		bw = bufio.NewWriterSize(fh, 1<<20)
		chunk++
		inChunk = 0
	}
	roll()
	for h, hist := range hists {
		evs := runMetaHistory(hist, h+1)
		if inChunk > 0 && inChunk+len(evs) > 20000 {
			roll() // a history is never cut in two: the monitor starts every chunk from a reset
		}
		for _, ev := range evs {
			_, err := bw.Write(jsonLine(ev))
			must(err)
			c := ev.Op.Op + ":" + ev.Ret
			if ev.Op.Op == "Wire" || ev.Op.Op == "Copy" {
				c = ev.Op.Op + ":" + ev.Op.H + ":" + ev.Ret
			}
			classes[c]++
			total++
			inChunk++
		}
	}
	must(bw.Flush())
	must(fh.Close())
	b, err := json.MarshalIndent(map[string]any{"events": total, "histories": len(hists), "chunks": chunk, "classes": classes,
		"exhaustive": true, "walks": *walks}, "", " ")
	must(err)
	must(os.WriteFile(filepath.Join(*out, "stats.json"), b, 0o644))
}
