package main

import (
	"fmt"
	"os"
)

func main() {
	if len(os.Args) < 2 {
		fmt.Fprintln(os.Stderr, "usage: driver <family> [flags]")
		os.Exit(2)
	}
	switch os.Args[1] {
	case "check":
		checkMain(os.Args[2:])
	case "rel":
		relMain(os.Args[2:])
	case "softcol":
		softColMain(os.Args[2:])
	case "resource":
		resourceMain(os.Args[2:])
	case "filter":
		filterMain(os.Args[2:])
	case "range":
		rangeMain(os.Args[2:])
	case "codec":
		codecMain(os.Args[2:])
	case "doc":
		docMain(os.Args[2:])
	case "url":
		urlMain(os.Args[2:])
	case "struct":
		structMain(os.Args[2:])
	case "shared":
		sharedMain(os.Args[2:])
	case "schema":
		schemaMain(os.Args[2:])
	case "live":
		liveMain(os.Args[2:])
	case "cols":
		colsMain(os.Args[2:])
	case "req":
		reqMain(os.Args[2:])
	case "err":
		errMain(os.Args[2:])
	case "meta":
		metaMain(os.Args[2:])
	default:
		fmt.Fprintf(os.Stderr, "unknown family %q\n", os.Args[1])
		os.Exit(2)
	}
}
