package main

// Struct family (C20): every shape TLC emitted is declared as a Go struct type
// at run time (reflect.StructOf with the shape's tags), then Check, BuildType,
// Wrap (pointer and value), New, Copy, Get / Set of every declared field, Set
// of the id and MarshalResource are run under recover.

import (
	"encoding/json"
	"flag"
	"fmt"
	"os"
	"reflect"
	"runtime"
	"runtime/debug"
	"strings"
	"time"

	"github.com/mfcochauxlaberge/jsonapi"
)

type sField struct {
	GoType string `json:"gotype"`
	JSON   string `json:"json"`
	API    string `json:"api"`
}

type sShape struct {
	ID     string   `json:"id"`
	Fields []sField `json:"fields"`
}

type sAttr struct {
	K    string `json:"k"`
	Null bool   `json:"null"`
}

type sRel struct {
	To1 bool   `json:"to1"`
	TT  string `json:"tt"`
	TN  string `json:"tn"`
}

type sType struct {
	Name  string           `json:"name"`
	Attrs map[string]sAttr `json:"attrs"`
	Rels  map[string]sRel  `json:"rels"`
}

type sObsT struct {
	Check   string   `json:"check"`
	Build   string   `json:"build"`
	Wrap    string   `json:"wrap"`
	Panics  []string `json:"panics"`
	Built   sType    `json:"built"`
	Wrapped sType    `json:"wrapped"`
	// Next: right after this declaration was checked, a sound declaration with the same names
	// (probeStruct) is checked: what one call refuses or accepts is nothing to the next
	Next string `json:"next"`
}

// probeStruct: a sound declaration that uses every json name the shapes use
type probeStruct struct {
	ID string `json:"id" api:"probe"`
	A  string `json:"a" api:"attr"`
	B  *int   `json:"b" api:"attr"`
	C  string `json:"A" api:"rel,tt"`
}

type sEventT struct {
	Ev    string `json:"ev"`
	Shape sShape `json:"shape"`
	Obs   sObsT  `json:"obs"`
}

type sCaseT struct {
	Fam   string   `json:"fam"`
	Shape sShape   `json:"shape"`
	Prev  []sShape `json:"prev"` // the struct types declared and used just before in the same process
}

// user-defined types with a supported underlying type (reflect.StructOf cannot declare new
// named types, but a field may have any existing one)
type (
	Level  int
	Label  string
	Labels []string
)

var shapeGoTypes = map[string]reflect.Type{
	"named-int": reflect.TypeOf(Level(0)), "*named-string": reflect.TypeOf((*Label)(nil)), "named-strings": reflect.TypeOf(Labels{}),
	"string": reflect.TypeOf(""), "*int": reflect.TypeOf((*int)(nil)), "[]uint8": reflect.TypeOf([]byte{}),
	"bool": reflect.TypeOf(false), "float64": reflect.TypeOf(float64(0)), "[]string": reflect.TypeOf([]string{}),
	"*[]string": reflect.TypeOf((*[]string)(nil)), "time.Time": reflect.TypeOf(time.Time{}), "*uint64": reflect.TypeOf((*uint64)(nil)),
	"*[]uint8": reflect.TypeOf((*[]byte)(nil)), "*time.Time": reflect.TypeOf((*time.Time)(nil)), "*bool": reflect.TypeOf((*bool)(nil)),
	"*string": reflect.TypeOf((*string)(nil)),
	"**int":   reflect.TypeOf((**int)(nil)), "**string": reflect.TypeOf((**string)(nil)), // pointers to pointers: no attribute kind
}

// jname: the json name a field token stands for ("~" = the key with an empty value)
func jname(tok string) string {
	if tok == "~" {
		return ""
	}
	return tok
}

func tagOf(jsonTag, api string) reflect.StructTag {
	var parts []string
	if jsonTag != "" {
		parts = append(parts, fmt.Sprintf(`json:"%s"`, jname(jsonTag)))
	}
	if api != "" {
		parts = append(parts, fmt.Sprintf(`api:"%s"`, api))
	}
	return reflect.StructTag(strings.Join(parts, " "))
}

// EmbedBase carries the ID of the "embedded" shapes
type EmbedBase struct {
	ID string `json:"id" api:"st"`
}

func declare(sh sShape) reflect.Type {
	var sf []reflect.StructField
	switch sh.ID {
	case "ok":
		sf = append(sf, reflect.StructField{Name: "ID", Type: reflect.TypeOf(""), Tag: tagOf("id", "st")})
	case "noapi":
		sf = append(sf, reflect.StructField{Name: "ID", Type: reflect.TypeOf(""), Tag: tagOf("id", "")})
	case "int":
		sf = append(sf, reflect.StructField{Name: "ID", Type: reflect.TypeOf(0), Tag: tagOf("id", "st")})
	case "jsonother":
		sf = append(sf, reflect.StructField{Name: "ID", Type: reflect.TypeOf(""), Tag: tagOf("identifier", "st")})
	case "nojson":
		sf = append(sf, reflect.StructField{Name: "ID", Type: reflect.TypeOf(""), Tag: tagOf("", "st")})
	case "named":
		sf = append(sf, reflect.StructField{Name: "ID", Type: reflect.TypeOf(Label("")), Tag: tagOf("id", "st")})
	case "tname-attr": // types whose names spell what a field's api tag could say
		sf = append(sf, reflect.StructField{Name: "ID", Type: reflect.TypeOf(""), Tag: tagOf("id", "attr")})
	case "tname-rel":
		sf = append(sf, reflect.StructField{Name: "ID", Type: reflect.TypeOf(""), Tag: tagOf("id", "rel")})
	case "tname-rel2":
		sf = append(sf, reflect.StructField{Name: "ID", Type: reflect.TypeOf(""), Tag: tagOf("id", "rel,tx")})
	case "tname-rel4":
		sf = append(sf, reflect.StructField{Name: "ID", Type: reflect.TypeOf(""), Tag: tagOf("id", "rel,a,b,c")})
	case "named-attr":
		sf = append(sf, reflect.StructField{Name: "ID", Type: reflect.TypeOf(Label("")), Tag: tagOf("id", "attr")})
	case "embedded": // the ID is a promoted field: it is declared in a struct that this one embeds
		sf = append(sf, reflect.StructField{Name: "EmbedBase", Type: reflect.TypeOf(EmbedBase{}), Anonymous: true})
	case "absent", "last":
	}
	for i, f := range sh.Fields {
		sf = append(sf, reflect.StructField{Name: fmt.Sprintf("F%d", i+1), Type: shapeGoTypes[f.GoType], Tag: tagOf(f.JSON, f.API)})
	}
	if sh.ID == "last" {
		sf = append(sf, reflect.StructField{Name: "ID", Type: reflect.TypeOf(""), Tag: tagOf("id", "st")})
	}
	return reflect.StructOf(sf)
}

func projSType(t jsonapi.Type) sType {
	out := sType{Name: t.Name, Attrs: map[string]sAttr{}, Rels: map[string]sRel{}}
	for k, a := range t.Attrs {
		kn := kindName(a.Type)
		if kn == "invalid" {
			kn = "unsupported"
		}
		if a.Name != k {
			kn = "key-differs-from-name"
		}
		out.Attrs[k] = sAttr{K: kn, Null: a.Nullable}
	}
	for k, r := range t.Rels {
		tt := r.ToType
		if r.FromName != k || r.FromType != t.Name {
			tt = "inconsistent-rel"
		}
		out.Rels[k] = sRel{To1: r.ToOne, TT: tt, TN: r.ToName}
	}
	return out
}

func emptySType() sType { return sType{Attrs: map[string]sAttr{}, Rels: map[string]sRel{}} }

func isTagged(f sField) bool { return f.API == "attr" || strings.Split(f.API, ",")[0] == "rel" }

func runStructCase(c sCaseT) sEventT {
	for _, p := range c.Prev { // a replay re-creates the process history: other structs of the same type name came first
		pc := c
		pc.Shape, pc.Prev = p, nil
		_ = runStructCase(pc)
	}
	ev := sEventT{Ev: "struct", Shape: c.Shape, Obs: sObsT{Panics: []string{}, Built: emptySType(), Wrapped: emptySType()}}
	if ev.Shape.Fields == nil {
		ev.Shape.Fields = []sField{}
	}
	t := declare(c.Shape)
	try := func(name string, f func()) bool {
		p, _ := catch(f)
		if p {
			ev.Obs.Panics = append(ev.Obs.Panics, name)
		}
		return !p
	}
	// Check (on a value of the struct type)
	var cerr error
	if p, _ := catch(func() { cerr = jsonapi.Check(reflect.New(t).Elem().Interface()) }); p {
		ev.Obs.Check = "panic"
	} else if cerr != nil {
		ev.Obs.Check = "err"
	} else {
		ev.Obs.Check = "ok"
	}
	var nerr error
	if p, _ := catch(func() { nerr = jsonapi.Check(probeStruct{}) }); p {
		ev.Obs.Next = "panic"
	} else if nerr != nil {
		ev.Obs.Next = "err"
	} else {
		ev.Obs.Next = "ok"
	}
	// BuildType
	var typ jsonapi.Type
	var berr error
	if p, _ := catch(func() { typ, berr = jsonapi.BuildType(reflect.New(t).Interface()) }); p {
		ev.Obs.Build = "panic"
	} else if berr != nil {
		ev.Obs.Build = "err"
	} else {
		ev.Obs.Build = "ok"
		ev.Obs.Built = projSType(typ)
		// the type is the caller's to tailor: a second one is built, emptied, and a third one is what
		// the event reports (it has exactly the declared fields, whatever was done to its predecessors)
		catch(func() {
			if t2, err := jsonapi.BuildType(reflect.New(t).Interface()); err == nil {
				for k := range t2.Attrs {
					delete(t2.Attrs, k)
				}
				for k := range t2.Rels {
					delete(t2.Rels, k)
				}
				t2.Name = "tailored"
				if t3, err := jsonapi.BuildType(reflect.New(t).Interface()); err == nil {
					ev.Obs.Built = projSType(t3)
					typ = t3
				}
			}
		})
	}
	// Wrap (pointer)
	var w *jsonapi.Wrapper
	if p, _ := catch(func() { w = jsonapi.Wrap(reflect.New(t).Interface()) }); p {
		ev.Obs.Wrap = "panic"
	} else {
		ev.Obs.Wrap = "ok"
		try("gettype", func() { ev.Obs.Wrapped = projSType(w.GetType()) })
	}
	if ev.Obs.Check != "ok" {
		// rejected declarations only have to be refused: what panics there is not recorded
		ev.Obs.Panics = []string{}
		return ev
	}
	if ev.Obs.Build == "panic" {
		ev.Obs.Panics = append(ev.Obs.Panics, "buildtype")
	}
	if ev.Obs.Wrap == "panic" {
		ev.Obs.Panics = append(ev.Obs.Panics, "wrap")
		return ev
	}
	try("wrap-value", func() { jsonapi.Wrap(reflect.New(t).Elem().Interface()) })
	try("buildtype-value", func() { _, _ = jsonapi.BuildType(reflect.New(t).Elem().Interface()) })
	if ev.Obs.Build == "ok" {
		try("type-new", func() { _ = typ.New() })
	}
	try("new", func() { _ = w.New() })
	try("copy-zero", func() { _ = w.Copy() }) // every pointer field still nil
	if ev.Obs.Build == "ok" {
		try("unmarshal", func() { // what a request does with the type: a new instance, its id set from a JSON string
			sc := &jsonapi.Schema{}
			if err := sc.AddType(typ); err != nil {
				panic(fmt.Sprint("the built type cannot be added to a schema: ", err))
			}
			r, err := jsonapi.UnmarshalResource([]byte(`{"type":"`+typ.Name+`","id":"u1"}`), sc)
			if err != nil || r.Get("id") != "u1" {
				panic(fmt.Sprint("not read: ", err))
			}
		})
	}
	if c.Shape.ID == "named" || c.Shape.ID == "named-attr" {
		try("setid-own-type", func() { // a value of the ID field's own type
			w.Set("id", Label("i0"))
			if w.Get("id") != "i0" {
				panic("id not read back")
			}
		})
	}
	try("setid", func() { w.Set("id", "i1") })
	try("getid", func() {
		if w.Get("id").(string) != "i1" {
			panic("id not read back")
		}
	})
	written := map[string]any{} // what each name was given: a write to one field is no write to another
	for i, f := range c.Shape.Fields {
		if !isTagged(f) {
			continue
		}
		name := fmt.Sprintf("%d:%s", i+1, f.JSON)
		try("get:"+name, func() { _ = w.Get(jname(f.JSON)) })
		try("set:"+name, func() {
			v := reflect.New(shapeGoTypes[f.GoType]).Elem()
			switch f.GoType {
			case "string":
				v.SetString(fmt.Sprintf("v%d", i))
			case "[]string":
				v.Set(reflect.ValueOf([]string{"b", fmt.Sprintf("a%d", i)}))
			case "*int":
				n := 5
				v.Set(reflect.ValueOf(&n))
			case "*uint64":
				n := uint64(1<<63 + 5)
				v.Set(reflect.ValueOf(&n))
			case "bool":
				v.SetBool(true)
			case "[]uint8":
				v.SetBytes([]byte{1, 2})
			case "*[]uint8":
				b := []byte{3, 4}
				v.Set(reflect.ValueOf(&b))
			case "*string":
				x := "p"
				v.Set(reflect.ValueOf(&x))
			case "*bool":
				x := true
				v.Set(reflect.ValueOf(&x))
			case "*time.Time":
				x := time.Unix(5, 6).UTC()
				v.Set(reflect.ValueOf(&x))
			}
			w.Set(jname(f.JSON), v.Interface())
			if !reflect.DeepEqual(w.Get(jname(f.JSON)), v.Interface()) {
				panic("value not read back")
			}
			written[jname(f.JSON)] = v.Interface()
			for k, want := range written {
				if !reflect.DeepEqual(w.Get(k), want) {
					panic("the write changed what another name reads")
				}
			}
		})
	}
	for i, f := range c.Shape.Fields {
		if !isTagged(f) || !strings.HasPrefix(f.GoType, "*") || !strings.HasPrefix(f.API, "attr") || f.API != "attr" {
			continue
		}
		// a nil pointer of the field's own type is a value of the field's type
		try(fmt.Sprintf("setnil:%d:%s", i+1, f.JSON), func() {
			w.Set(jname(f.JSON), reflect.Zero(shapeGoTypes[f.GoType]).Interface())
			if got := w.Get(jname(f.JSON)); got != nil && !reflect.ValueOf(got).IsNil() {
				panic("nil not read back")
			}
		})
	}
	try("copy", func() { _ = w.Copy() })
	try("marshal", func() {
		fields, rd := allFieldsOf(w)
		out := jsonapi.MarshalResource(w, "/p", fields, rd)
		if !json.Valid(out) {
			panic("invalid JSON")
		}
	})
	return ev
}

func structMain(args []string) {
	fs := flag.NewFlagSet("struct", flag.ExitOnError)
	gen := fs.String("gen", "", "TLC generation output (S lines with shapes)")
	out := fs.String("out", "", "output directory")
	seed := fs.Int64("seed", 1, "seed")
	sample := fs.Int("sample", 0, "use at most this many shapes")
	replay := fs.String("replay", "", "replay file")
	must(fs.Parse(args))
	if *replay != "" {
		var rf struct {
			Case sCaseT `json:"case"`
		}
		b, err := os.ReadFile(*replay)
		must(err)
		must(json.Unmarshal(b, &rf))
		os.Stdout.Write(jsonLine(runStructCase(rf.Case)))
		return
	}
	var shapes []sShape
	tlcLines(*gen, func(tag string, js []byte) {
		if tag == "S" {
			var s struct {
				Shape sShape `json:"shape"`
			}
			must(json.Unmarshal(js, &s))
			shapes = append(shapes, s.Shape)
		}
	})
	if len(shapes) == 0 {
		infra("no shapes in %s", *gen)
	}
	rng := newRand(*seed, "struct")
	stt := newStats()
	stt.Exhaustive = true
	if *sample > 0 && *sample < len(shapes) {
		// keep all shapes with at most one field, sample the rest
		var small, big []sShape
		for _, s := range shapes {
			if len(s.Fields) <= 1 {
				small = append(small, s)
			} else {
				big = append(big, s)
			}
		}
		rng.Shuffle(len(big), func(i, j int) { big[i], big[j] = big[j], big[i] })
		n := *sample - len(small)
		if n < 0 {
			n = 0
		}
		if n < len(big) {
			big = big[:n]
			stt.Exhaustive = false
		}
		shapes = append(small, big...)
	}
	w := newEvWriter(*out, 100000)
	var recent, firstOK []sShape
	// The collector empties the library's pools whenever it runs, which makes whatever a call leaves
	// there for the next one a matter of timing.  It runs between blocks of cases only.
	defer debug.SetGCPercent(debug.SetGCPercent(-1))
	for i, sh := range shapes {
		if i%4000 == 3999 {
			runtime.GC()
		}
		c := sCaseT{Fam: "struct", Shape: sh}
		w.Inflight(c)
		ev := runStructCase(c)
		// what this process had seen before: the first declarations that were accepted (whatever
		// is cached per type name was cached then) and the most recent ones
		c.Prev = append(append([]sShape{}, firstOK...), recent...)
		if ev.Obs.Check == "ok" && len(firstOK) < 2 {
			firstOK = append(firstOK, sh)
		}
		recent = append(recent, sh)
		if len(recent) > 3 {
			recent = recent[1:]
		}
		stt.Calls += 4 + len(ev.Obs.Panics)
		stt.class("check:" + ev.Obs.Check)
		if ev.Obs.Check == "ok" && len(ev.Obs.Built.Attrs)+len(ev.Obs.Built.Rels) > 0 {
			stt.class("accepted-with-fields")
		}
		if ev.Obs.Check == "ok" {
			b, _ := json.Marshal(sh)
			stt.distinct(string(b))
		}
		w.Emit(ev, c)
	}
	stt.Rule = "distinct struct shapes that Check accepted (every operation of Safe was run on them)"
	w.Close()
	stt.write(*out+"/stats.json", w)
}
