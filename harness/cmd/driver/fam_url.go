package main

// URL family (C07, C08): requests are assembled from the component
// vocabularies TLC emitted, rendered as raw URLs (several encodings and
// parameter orders), parsed with the real library and projected.

import (
	"encoding/json"
	"flag"
	"fmt"
	"math/rand"
	neturl "net/url"
	"os"
	"reflect"
	"sort"
	"strings"
	"sync"

	"github.com/mfcochauxlaberge/jsonapi"
)

type uRule struct {
	Name string `json:"name"`
	Desc bool   `json:"desc"`
}

type strListMap map[string][]string

func (m *strListMap) UnmarshalJSON(b []byte) error {
	if string(b) == "[]" {
		*m = strListMap{}
		return nil
	}
	var x map[string][]string
	if err := json.Unmarshal(b, &x); err != nil {
		return err
	}
	*m = x
	return nil
}

type uReq struct {
	Frags   []string   `json:"frags"`
	Fields  strListMap `json:"fields"`
	Sort    []uRule    `json:"sort"`
	Include [][]string `json:"include"`
	Filter  string     `json:"filter"`
	Page    string     `json:"page"`
	Unknown bool       `json:"unknown"`
}

type uRel struct {
	FT string `json:"ft"`
	FN string `json:"fn"`
	TT string `json:"tt"`
}

type uOut struct {
	Ret     string     `json:"ret"`
	ResType string     `json:"restype"`
	IsCol   bool       `json:"iscol"`
	Fields  strListMap `json:"fields"`
	Include [][]uRel   `json:"include"`
	Sort    []uRule    `json:"sort"`
}

type uChain struct {
	S1Parses bool `json:"s1parses"`
	Frags    bool `json:"frags"`
	ResType  bool `json:"restype"`
	ResID    bool `json:"resid"`
	Rel      bool `json:"rel"`
	Fields   bool `json:"fields"`
	Sort     bool `json:"sort"`
	Page     bool `json:"page"`
	Filter   bool `json:"filter"`
	S2Eq     bool `json:"s2eq"`
	Variants bool `json:"variants"`
}

type uEvent struct {
	Ev       string `json:"ev"`
	Req      uReq   `json:"req"`
	Out      uOut   `json:"out"`
	R        uChain `json:"r"`
	Special  bool   `json:"special"`  // the request carries a value with URL-reserved characters
	JSONLbl  bool   `json:"jsonlbl"`  // the filter label needs a JSON escape once parsed (backslash, quote, control character, leading brace)
	HasEmpty bool   `json:"hasempty"` // the parsed URL has an empty field-selection entry for a type that has no field
	Ret      string `json:"ret"`
}

type uStyle struct {
	Impl     string `json:"impl"`     // schema flavour
	Encode   bool   `json:"encode"`   // percent-encode brackets and commas
	Split    bool   `json:"split"`    // sort / include given as repeated parameters
	Order    int64  `json:"order"`    // seed of the parameter order
	Empties  bool   `json:"empties"`  // empty list items inserted
	ListPerm int64  `json:"listperm"` // seed permuting names inside fields / include lists (0 = as given)
	ID       string `json:"id"`       // concrete id for the second fragment
	Label    string `json:"label"`    // concrete filter label
	PageVal  string `json:"pageval"`  // concrete page size text
	PageName string `json:"pagename"` // concrete name of a page argument other than number and size
	FilterJS string `json:"filterjs"` // concrete filter JSON
	// Busy: while the chain is followed, other goroutines print URLs of their own (own schema value,
	// own labels): printing a URL concerns nobody else
	Busy bool `json:"busy"`
}

type uCase struct {
	Fam   string `json:"fam"`
	Mode  string `json:"mode"` // url | chain
	Req   uReq   `json:"req"`
	Style uStyle `json:"style"`
	Raw   string `json:"raw,omitempty"` // mutated raw URL (random mode): the request is derived from it
}

var urlFields = map[string]defMap{
	"ta": {"x": {Kind: "attr", K: "string"}, "y": {Kind: "attr", K: "int", Null: true}, "X": {Kind: "attr", K: "bool"},
		"r": {Kind: "rel", To1: true, TT: "tb"}, "rs": {Kind: "rel", To1: false, TT: "tb"}, "t": {Kind: "rel", To1: true, TT: "td"}},
	"tb": {"z": {Kind: "attr", K: "string"}, "q": {Kind: "rel", To1: true, TT: "ta"}, "s": {Kind: "rel", To1: false, TT: "ta"}},
	"tc": {},
	"e":  {"v": {Kind: "attr", K: "string"}},
	"td": {"w": {Kind: "attr", K: "string"}, "q": {Kind: "rel", To1: true, TT: "tb"}},
}

var urlSchemas = map[string]*jsonapi.Schema{}

// urlSchemaWithHistory: the same schema as urlSchema, on an object of its own that has been through
// edits and requests before: every type had one more attribute for a while, collection URLs were
// parsed meanwhile, and the attribute was removed again.  What a parse returns depends on what the
// schema holds now, not on what it held or was asked before.
func urlSchemaWithHistory(impl string) *jsonapi.Schema {
	s := &jsonapi.Schema{}
	must(s.AddType(jsonapi.Type{Name: "aa0"})) // a type that goes away again: the others move up
	for _, t := range buildURLSchema(impl).Types {
		must(s.AddType(t))
	}
	for _, t := range []string{"ta", "tb", "td"} {
		must(s.AddAttr(t, jsonapi.Attr{Name: "zx", Type: jsonapi.AttrTypeString}))
	}
	for _, raw := range []string{"/ta", "/tb", "/td", "/ta/1/rs", "/ta?fields[ta]=zx,x&include=rs,t.q", "/tb/2/s?sort=-z"} {
		catch(func() { // (a panic here is for the judged cases to show, not for the set-up)
			if u, err := jsonapi.NewURLFromRaw(s, raw); err == nil {
				_ = u.String()
			}
		})
	}
	for _, t := range []string{"ta", "tb", "td"} {
		s.RemoveAttr(t, "zx")
	}
	s.RemoveType("aa0")
	return s
}

func urlSchema(impl string) *jsonapi.Schema {
	if s, ok := urlSchemas[impl]; ok {
		return s
	}
	s := buildURLSchema(impl)
	urlSchemas[impl] = s
	return s
}

// nbFields: a type whose attribute names begin or end with white space that is not ASCII (a member
// name may: U+00A0, U+3000) - impl "softnb" / "wrapnb" add it to the schema as type "tn"
var nbFields = defMap{"montant\u00a0": {Kind: "attr", K: "int"}, "\u3000nom": {Kind: "attr", K: "string"}, "zeta": {Kind: "attr", K: "string"},
	"\u00a0lien": {Kind: "rel", To1: true, TT: "tb"}}

func buildURLSchema(impl string) *jsonapi.Schema {
	s := &jsonapi.Schema{}
	if strings.HasSuffix(impl, "nb") {
		impl = strings.TrimSuffix(impl, "nb")
		if impl == "wrap" {
			typ, err := jsonapi.BuildType(reflect.New(structType("tn", nbFields, kindMap{})).Interface())
			must(err)
			must(s.AddType(typ))
		} else {
			must(s.AddType(*softType("tn", nbFields, kindMap{})))
		}
	}
	for _, name := range []string{"ta", "tb", "tc", "td", "e"} {
		if impl == "wrap" {
			typ, err := jsonapi.BuildType(reflect.New(structType(name, urlFields[name], kindMap{})).Interface())
			must(err)
			must(s.AddType(typ))
		} else {
			must(s.AddType(*softType(name, urlFields[name], kindMap{})))
		}
	}
	return s
}

func esc(s string) string { return strings.ReplaceAll(neturl.QueryEscape(s), "+", "%20") }

// render builds the raw URL of a request in the given style.
func render(req uReq, st uStyle) string {
	rng := rand.New(rand.NewSource(st.Order))
	frags := append([]string{}, req.Frags...)
	if len(frags) >= 2 && st.ID != "" && frags[1] != "relationships" && frags[1] != "meta" {
		frags[1] = st.ID
	}
	path := ""
	for _, f := range frags {
		if st.Encode {
			path += "/" + esc(f) // every reserved character percent-encoded, the plus sign too (%2B)
		} else {
			path += "/" + neturl.PathEscape(f)
		}
	}
	lb, rb, comma := "[", "]", ","
	if st.Encode {
		lb, rb, comma = "%5B", "%5D", "%2C"
	}
	perm := func(items []string) []string {
		out := append([]string{}, items...)
		if st.ListPerm != 0 {
			r := rand.New(rand.NewSource(st.ListPerm + int64(len(items))))
			r.Shuffle(len(out), func(i, j int) { out[i], out[j] = out[j], out[i] })
		}
		if st.Empties && len(out) > 0 {
			out = append([]string{""}, out...)
			out = append(out, "")
		}
		return out
	}
	var params []string
	for _, t := range sortedKeys(req.Fields) {
		params = append(params, "fields"+lb+t+rb+"="+strings.Join(perm(req.Fields[t]), comma))
	}
	var rules []string
	for _, r := range req.Sort {
		s := r.Name
		if r.Desc {
			s = "-" + s
		}
		rules = append(rules, s)
	}
	var paths []string
	for _, p := range req.Include {
		paths = append(paths, strings.Join(p, "."))
	}
	paths = perm(paths)
	if st.Empties && len(rules) > 0 {
		rules = append(rules, "")
	}
	if st.Split {
		for _, r := range rules {
			params = append(params, "sort="+r)
		}
		for _, p := range paths {
			params = append(params, "include="+p)
		}
	} else {
		if len(rules) > 0 {
			params = append(params, "sort="+strings.Join(rules, comma))
		}
		if len(paths) > 0 {
			params = append(params, "include="+strings.Join(paths, comma))
		}
	}
	switch req.Filter {
	case "label":
		params = append(params, "filter="+esc(st.Label))
	case "json":
		params = append(params, "filter="+esc(st.FilterJS))
	case "empty":
		params = append(params, "filter=")
	case "bad":
		params = append(params, "filter="+esc(`{"f":`))
	}
	switch req.Page {
	case "size":
		params = append(params, "page"+lb+"size"+rb+"="+esc(st.PageVal))
	case "sizebad":
		params = append(params, "page"+lb+"size"+rb+"=x")
	case "both":
		params = append(params, "page"+lb+"number"+rb+"=1", "page"+lb+"size"+rb+"="+esc(st.PageVal))
	case "other":
		name := st.PageName
		if name == "" {
			name = "cursor"
		}
		params = append(params, "page"+lb+esc(name)+rb+"="+esc(st.PageVal), "page"+lb+"size"+rb+"=3")
	}
	if req.Unknown {
		params = append(params, "foo=bar")
	}
	// the order of differently named parameters is free; sort / include keep their relative order
	idx := rng.Perm(len(params))
	sort.SliceStable(idx, func(a, b int) bool {
		pa, pb := params[idx[a]], params[idx[b]]
		na, nb := pa[:strings.Index(pa, "=")], pb[:strings.Index(pb, "=")]
		if na == nb {
			return idx[a] < idx[b]
		}
		return false
	})
	// keep equal-named parameters in their original relative order
	byName := map[string][]int{}
	for i, p := range params {
		n := p[:strings.Index(p, "=")]
		byName[n] = append(byName[n], i)
	}
	used := map[string]int{}
	out := make([]string, 0, len(params))
	for _, i := range idx {
		n := params[i][:strings.Index(params[i], "=")]
		out = append(out, params[byName[n][used[n]]])
		used[n]++
	}
	if len(out) == 0 {
		return path
	}
	return path + "?" + strings.Join(out, "&")
}

func projURL(u *jsonapi.URL) uOut {
	o := uOut{Ret: "ok", ResType: u.ResType, IsCol: u.IsCol, Fields: strListMap{}, Include: [][]uRel{}, Sort: []uRule{}}
	for t, names := range u.Params.Fields {
		o.Fields[t] = append([]string{}, names...)
	}
	for _, chain := range u.Params.Include {
		c := []uRel{}
		for _, r := range chain {
			c = append(c, uRel{FT: r.FromType, FN: r.FromName, TT: r.ToType})
		}
		o.Include = append(o.Include, c)
	}
	for _, r := range u.Params.SortingRules {
		if strings.HasPrefix(r, "-") {
			o.Sort = append(o.Sort, uRule{Name: r[1:], Desc: true})
		} else {
			o.Sort = append(o.Sort, uRule{Name: r})
		}
	}
	return o
}

func emptyOut(ret string) uOut {
	return uOut{Ret: ret, Fields: strListMap{}, Include: [][]uRel{}, Sort: []uRule{}}
}

func normReq(r *uReq) {
	if r.Frags == nil {
		r.Frags = []string{}
	}
	if r.Fields == nil {
		r.Fields = strListMap{}
	}
	for t, v := range r.Fields {
		if v == nil {
			r.Fields[t] = []string{}
		}
	}
	if r.Sort == nil {
		r.Sort = []uRule{}
	}
	if r.Include == nil {
		r.Include = [][]string{}
	}
	for i, p := range r.Include {
		if p == nil {
			r.Include[i] = []string{}
		}
	}
}

// reqFromRaw derives the abstract request from a raw URL with net/url only.
func reqFromRaw(raw string) (uReq, bool) {
	req := uReq{Filter: "none", Page: "none"}
	normReq(&req)
	u, err := neturl.Parse(raw)
	if err != nil {
		return req, false
	}
	for _, f := range strings.Split(u.Path, "/") {
		if f != "" {
			req.Frags = append(req.Frags, f)
		}
	}
	split := func(v string) []string {
		out := []string{}
		for _, x := range strings.Split(v, ",") {
			if x != "" {
				out = append(out, x)
			}
		}
		return out
	}
	q := u.Query()
	for name, vals := range q {
		switch {
		case strings.HasPrefix(name, "fields[") && strings.HasSuffix(name, "]") && len(name) > 8:
			if len(vals[0]) > 0 {
				req.Fields[name[7:len(name)-1]] = split(vals[0])
			}
		case strings.HasPrefix(name, "page[") && strings.HasSuffix(name, "]") && len(name) > 6:
			req.Page = "size"
		case name == "filter":
			switch {
			case vals[0] == "":
				req.Filter = "empty"
			case vals[0][0] != '{':
				var s string
				if json.Unmarshal([]byte("\""+vals[0]+"\""), &s) == nil {
					req.Filter = "label"
				} else {
					req.Filter = "bad"
				}
			default:
				// (classified without the library: its own unmarshaler is what is under test)
				if json.Valid([]byte(vals[0])) {
					req.Filter = "json"
				} else {
					req.Filter = "bad"
				}
			}
		case name == "sort":
			for _, v := range vals {
				for _, r := range split(v) {
					if strings.HasPrefix(r, "-") {
						req.Sort = append(req.Sort, uRule{Name: r[1:], Desc: true})
					} else {
						req.Sort = append(req.Sort, uRule{Name: r})
					}
				}
			}
		case name == "include":
			for _, v := range vals {
				for _, p := range split(v) {
					req.Include = append(req.Include, strings.Split(p, "."))
				}
			}
		default:
			req.Unknown = true
		}
	}
	for _, t := range sortedKeys(req.Fields) {
		if !isASCIIToken(t) {
			return req, false
		}
	}
	return req, true
}

func isASCIIToken(s string) bool {
	for _, c := range s {
		if c < 0x21 || c > 0x7e || c == '"' || c == '\\' {
			return false
		}
	}
	return true
}

func asciiReq(r uReq) bool {
	for _, f := range r.Frags {
		if !isASCIIToken(f) {
			return false
		}
	}
	for t, ns := range r.Fields {
		if !isASCIIToken(t) {
			return false
		}
		for _, n := range ns {
			if !isASCIIToken(n) {
				return false
			}
		}
	}
	for _, s := range r.Sort {
		if s.Name != "" && !isASCIIToken(s.Name) {
			return false
		}
	}
	for _, p := range r.Include {
		for _, n := range p {
			if n != "" && !isASCIIToken(n) {
				return false
			}
		}
	}
	return true
}

func runURLCase(c uCase) uEvent {
	raw := c.Raw
	if raw == "" {
		raw = render(c.Req, c.Style)
	}
	schema := urlSchema(c.Style.Impl)
	if c.Style.Order%2 == 1 {
		schema = urlSchemaWithHistory(c.Style.Impl)
	}
	req := c.Req
	normReq(&req)
	// what the parser sees in the id position is the style's id: keep the model's token
	if c.Mode == "chain" {
		return runChain(c, raw, schema, req)
	}
	ev := uEvent{Ev: "url", Req: req, Ret: "ok"}
	var u *jsonapi.URL
	var err error
	p, _ := catch(func() { u, err = jsonapi.NewURLFromRaw(schema, raw) })
	switch {
	case p:
		ev.Out = emptyOut("panic")
	case err != nil || u == nil:
		ev.Out = emptyOut("err")
		if err != nil && u != nil {
			ev.Out = emptyOut("both")
		}
	default:
		ev.Out = projURL(u)
	}
	return ev
}

// sameFilter compares the filter trees themselves (not their JSON text, which the library produces)
func sameFilter(a, b *jsonapi.URL) bool {
	if a.Params.FilterLabel != b.Params.FilterLabel {
		return false
	}
	return sameTree(a.Params.Filter, b.Params.Filter)
}

func sameTree(x, y *jsonapi.Filter) bool {
	if x == nil || y == nil {
		return x == nil && y == nil
	}
	if x.Field != y.Field || x.Op != y.Op || x.Col != y.Col {
		return false
	}
	xs, xok := x.Val.([]*jsonapi.Filter)
	ys, yok := y.Val.([]*jsonapi.Filter)
	if xok || yok {
		if !xok || !yok || len(xs) != len(ys) {
			return false
		}
		for i := range xs {
			if !sameTree(xs[i], ys[i]) {
				return false
			}
		}
		return true
	}
	return reflect.DeepEqual(x.Val, y.Val)
}

func sameFieldSets(a, b map[string][]string) bool {
	if len(a) != len(b) {
		return false
	}
	for t, x := range a {
		y, ok := b[t]
		if !ok || !reflect.DeepEqual(sortedIDs(x), sortedIDs(y)) {
			return false
		}
	}
	return true
}

func runChain(c uCase, raw string, schema *jsonapi.Schema, req uReq) uEvent {
	ev := uEvent{Ev: "chain", Req: req, Out: emptyOut("ok"), Ret: "ok"}
	special := func(s string) bool { return strings.ContainsAny(s, " &?#%+=\"\\") || !isASCIIToken(s) }
	ev.JSONLbl = req.Filter == "label" && strings.Contains(c.Style.Label, "\\")
	ev.Special = special(c.Style.ID) || (req.Filter == "label" && special(c.Style.Label)) ||
		(req.Filter == "json") || (req.Page != "none" && special(c.Style.PageVal)) ||
		(req.Page == "other" && special(c.Style.PageName))
	p, _ := catch(func() {
		if c.Style.Busy {
			stop := make(chan struct{})
			var wg sync.WaitGroup
			for g := 0; g < 4; g++ {
				own := buildURLSchema("soft")
				ou, err := jsonapi.NewURLFromRaw(own, fmt.Sprintf("/ta/%d?filter=busy%%20label%%20%d%%20%s&fields[ta]=y,x", g, g, strings.Repeat("z", 3+g)))
				if err != nil {
					continue
				}
				wg.Add(1)
				go func() {
					defer wg.Done()
					defer func() { _ = recover() }()
					for {
						select {
						case <-stop:
							return
						default:
							_ = ou.String()
						}
					}
				}()
			}
			defer func() { close(stop); wg.Wait() }()
		}
		u1, err := jsonapi.NewURLFromRaw(schema, raw)
		if err != nil {
			ev.Ret = "skip" // not an accepted URL: nothing to say
			return
		}
		for t, names := range u1.Params.Fields {
			// (only a type that has no field at all can come without one: any other type gets all of
			// its fields when nothing valid was asked for - an empty list there is no known deviation)
			if typ := schema.GetType(t); len(names) == 0 && len(typ.Attrs)+len(typ.Rels) == 0 {
				ev.HasEmpty = true
			}
		}
		s1 := u1.String()
		// String() sorts the field lists of u1 in place: compare against a fresh parse
		u1b, _ := jsonapi.NewURLFromRaw(schema, raw)
		u2, err := jsonapi.NewURLFromRaw(schema, s1)
		if err != nil || u2 == nil {
			return
		}
		ev.R.S1Parses = true
		// ... and the text is the same when asked for again, the fragments being what they were
		ev.R.Frags = reflect.DeepEqual(u1b.Fragments, u2.Fragments) && u1.String() == s1 &&
			reflect.DeepEqual(u1.Fragments, u1b.Fragments)
		if c.Style.Busy {
			for i := 0; i < 300 && ev.R.Frags; i++ {
				ev.R.Frags = u1.String() == s1 // (the same text, however often it is asked for meanwhile)
			}
		}
		ev.R.ResType = u1b.ResType == u2.ResType
		ev.R.ResID = u1b.ResID == u2.ResID
		ev.R.Rel = u1b.Rel == u2.Rel && u1b.RelKind == u2.RelKind
		ev.R.Fields = sameFieldSets(u1b.Params.Fields, u2.Params.Fields)
		ev.R.Sort = reflect.DeepEqual(u1b.Params.SortingRules, u2.Params.SortingRules)
		ev.R.Page = !u1b.IsCol || reflect.DeepEqual(u1b.Params.Page, u2.Params.Page) ||
			(len(u1b.Params.Page) == 0 && len(u2.Params.Page) == 0)
		ev.R.Filter = sameFilter(u1b, u2)
		ev.R.S2Eq = u2.String() == s1
		ev.R.Variants = true
		for k := int64(1); k <= 4 && c.Raw == ""; k++ { // (a case given as a raw text has no request to respell)
			st := c.Style
			st.Order = c.Style.Order + k*7919
			st.ListPerm = k
			st.Empties = k%2 == 0
			st.Encode = k%3 == 0
			uv, err := jsonapi.NewURLFromRaw(schema, render(c.Req, st))
			if err != nil || uv.String() != s1 {
				ev.R.Variants = false
			}
		}
	})
	if p {
		ev.Ret = "panic"
	}
	return ev
}

var (
	idVocab = []string{"1", "1", "a b", "a&b", "a?b", "a#b", "50%", "a+b", "a=b", "é漢", "x\"y", ".", "..", "a.b", "~x", "a%41b", "x%2Fy", "%25"}
	// a label is read as the content of a JSON string: the last five are the
	// raw texts of labels that contain a backslash, a quote, a line feed, a
	// tab and a leading brace once parsed
	labelVocab = []string{"lbl", "lbl", "a b", "a&b=c", "50%", "a+b", "tag#1", "é",
		`a\\b`, `q\"r`, `l\nf`, `t\tb`, `\u007bz`,
		`b\u0007l`, `u\u001fs`, `d\u007fl`, `p\udb40\udc01e`,
		`\u0020lead`, `trail\u0020`, `\u00a0nb`, `\u0020`, // bell, unit separator, DEL, a non-printable rune above the BMP
		`say \"hi\"`, `5\"`, `\"`, `end\\`, `a%41b`, `%20x`, `x%26y&z`} // a quote or a backslash at the very end; text that looks percent-encoded
	pageVocab = []string{"2", "2", "10", "x y", "a&b", "1+1", "%20x", "a%41b"}
	// names of page arguments other than number and size (a cursor, a name with reserved characters)
	pageNames   = []string{"cursor", "cursor", "after", "after&before", "a+b", "100%", "a=b", "a#b", "a]b", "a b", "numbe", "sizes"}
	filterVocab = []string{
		`{"f":"x","o":"=","v":"a"}`,
		`{"f":"y","o":"<","v":3}`,
		`{"f":"x","o":"=","v":"a b&c=d#e%f+g"}`,
		`{"o":"and","v":[{"f":"x","o":"=","v":"a"},{"o":"or","v":[{"f":"y","o":">","v":1},{"f":"x","o":"!=","v":null}]}]}`,
		`{"o":"or","v":[]}`,
		`{"f":"x","o":"=","v":true,"c":"coll"}`,
		`{"o":"and","c":"things","v":[{"f":"x","o":"=","v":"a","c":"leaf"},{"o":"or","c":"inner","v":[{"f":"y","o":"<","v":2}]}]}`,
		`{"f":"x","o":"in","v":["a","b c","d&e"]}`,
		// groups of one member, nested
		`{"o":"and","v":[{"o":"or","v":[{"f":"x","o":"=","v":"a"}]}]}`,
		`{"o":"or","v":[{"f":"y","o":">","v":1}]}`,
		`{"o":"or","v":[{"o":"and","v":[{"o":"or","v":[]}]}]}`,
		// well-formed JSON that is an odd filter: refused or kept, never a panic
		`{"o":"and","v":[null]}`,
		`{"o":"or","v":[{"o":"and","v":[null,{}]}]}`,
		`{"f":"x","o":"=","v":null}`,
		`{}`,
		`{"o":"and","v":null}`,
		`{"o":"and","v":[1,"a"]}`,
		`{"f":1}`,
		`{"o":"and","v":[{}]}`,
		// a collation named on the outer group only, three levels deep
		`{"o":"and","c":"fr","v":[{"o":"or","v":[{"f":"x","o":"=","v":"a"},{"f":"y","o":"<","v":2}]}]}`,
		`{"o":"or","c":"de","v":[{"o":"and","v":[{"o":"or","v":[{"f":"x","o":"!=","v":"b"}]}]},{"f":"x","o":"=","v":"a","c":"en"}]}`,
		// groups without any list of members at all
		`{"o":"and"}`,
		`{"o":"or","f":"x"}`,
		`{"o":"and","v":[{"o":"or"}]}`,
	}
)

func urlMain(args []string) {
	fs := flag.NewFlagSet("url", flag.ExitOnError)
	gen := fs.String("gen", "", "TLC output with the VOCAB line")
	out := fs.String("out", "", "output directory")
	seed := fs.Int64("seed", 1, "seed")
	n := fs.Int("n", 2000, "random combinations of components")
	mut := fs.Int("mut", 500, "mutated raw URLs")
	replay := fs.String("replay", "", "replay file")
	must(fs.Parse(args))
	if *replay != "" {
		var rf struct {
			Case uCase `json:"case"`
		}
		b, err := os.ReadFile(*replay)
		must(err)
		must(json.Unmarshal(b, &rf))
		ev := runURLCase(rf.Case)
		if rf.Case.Style.Busy {
			// with goroutines of its own a case goes wrong with some probability per run: a replay insists
			for i := 0; i < 300 && ev.Ret == "ok" && ev.R.Frags && ev.R.S2Eq && ev.R.Filter && ev.R.S1Parses; i++ {
				ev = runURLCase(rf.Case)
			}
		}
		os.Stdout.Write(jsonLine(ev))
		return
	}
	var vocab struct {
		Frags   [][]string   `json:"frags"`
		Fields  []strListMap `json:"fields"`
		Sort    [][]uRule    `json:"sort"`
		Include [][][]string `json:"include"`
		Filter  []string     `json:"filter"`
		Page    []string     `json:"page"`
	}
	tlcLines(*gen, func(tag string, js []byte) {
		if tag == "VOCAB" && vocab.Frags == nil {
			must(json.Unmarshal(js, &vocab))
		}
	})
	if len(vocab.Frags) == 0 {
		infra("no VOCAB line in %s", *gen)
	}
	rng := newRand(*seed, "url")
	stt := newStats()
	w := newEvWriter(*out, 100000)
	style := func() uStyle {
		return uStyle{Impl: []string{"soft", "wrap"}[rng.Intn(2)], Encode: rng.Intn(2) == 0, Split: rng.Intn(3) == 0,
			Order: rng.Int63n(1 << 30), Empties: rng.Intn(4) == 0,
			ID: idVocab[rng.Intn(len(idVocab))], Label: labelVocab[rng.Intn(len(labelVocab))],
			PageVal: pageVocab[rng.Intn(len(pageVocab))], PageName: pageNames[rng.Intn(len(pageNames))], FilterJS: filterVocab[rng.Intn(len(filterVocab))]}
	}
	emit := func(c uCase) uEvent {
		w.Inflight(c)
		ev := runURLCase(c)
		if ev.Ret == "skip" {
			return ev
		}
		stt.Calls++
		if ev.Ev == "url" {
			stt.class("url:" + ev.Out.Ret)
			if len(ev.Out.Include) > 0 {
				stt.class("url:include-kept")
			}
			if ev.Out.IsCol {
				stt.class("url:collection")
			}
			b, _ := json.Marshal(ev.Req)
			stt.distinct(string(b))
		} else {
			stt.class("chain")
			if ev.Special {
				stt.class("chain:special")
			}
		}
		w.Emit(ev, c)
		return ev
	}
	both := func(req uReq, st uStyle) {
		ev := emit(uCase{Fam: "url", Mode: "url", Req: req, Style: st})
		if ev.Out.Ret == "ok" {
			if st.Busy = req.Filter == "label" && rng.Intn(3) == 0; st.Busy {
				stt.class("chain:while-others-print")
			}
			emit(uCase{Fam: "url", Mode: "chain", Req: req, Style: st})
		}
	}
	base := func(f []string) uReq {
		r := uReq{Frags: f, Filter: "none", Page: "none"}
		normReq(&r)
		return r
	}
	// names that begin or end with white space beyond ASCII: the chain over a type of its own (the
	// requests themselves are plain; what String() writes holds the names)
	for _, impl := range []string{"softnb", "wrapnb"} {
		for _, raw := range []string{"/tn", "/tn/1", "/tn?sort=-zeta", "/tn?fields[tn]=zeta", "/tn?fields%5Btn%5D=zeta&sort=zeta&page[size]=2", "/tn/1/%C2%A0lien"} {
			st := style()
			st.Impl, st.Busy = impl, false
			stt.class("chain:names-with-wide-space")
			emit(uCase{Fam: "url", Mode: "chain", Req: base([]string{"tn"}), Style: st, Raw: raw})
		}
	}
	// every component against every path (the universe TLC model-checked) ...
	for _, f := range vocab.Frags {
		for _, x := range vocab.Fields {
			r := base(f)
			r.Fields = x
			both(r, style())
		}
		for _, x := range vocab.Sort {
			r := base(f)
			r.Sort = x
			both(r, style())
		}
		for _, x := range vocab.Include {
			r := base(f)
			r.Include = x
			both(r, style())
		}
		for _, ft := range vocab.Filter {
			for _, pg := range vocab.Page {
				for _, u := range []bool{false, true} {
					r := base(f)
					r.Filter, r.Page, r.Unknown = ft, pg, u
					both(r, style())
				}
			}
		}
	}
	// ... and seeded random combinations of all components
	for i := 0; i < *n; i++ {
		r := base(vocab.Frags[rng.Intn(len(vocab.Frags))])
		if rng.Intn(3) > 0 {
			r.Frags = [][]string{{"ta"}, {"ta"}, {"tb"}, {"ta", "1", "rs"}, {"ta", "1"}}[rng.Intn(5)]
		}
		r.Fields = vocab.Fields[rng.Intn(len(vocab.Fields))]
		r.Sort = vocab.Sort[rng.Intn(len(vocab.Sort))]
		r.Include = vocab.Include[rng.Intn(len(vocab.Include))]
		if rng.Intn(2) == 0 {
			r.Filter = vocab.Filter[rng.Intn(len(vocab.Filter))]
		}
		if rng.Intn(2) == 0 {
			r.Page = vocab.Page[rng.Intn(len(vocab.Page))]
		}
		r.Unknown = rng.Intn(12) == 0
		normReq(&r)
		both(r, style())
	}
	// one inclusion path with an empty word (a stray dot), alone and next to a sound one: the
	// request is whatever the text splits into, and a word that names nothing makes no chain
	for _, path := range []string{"/ta", "/tb", "/ta/1", "/ta/1/rs", "/td"} {
		for _, inc := range []string{"r.", ".", ".r", "r..q", "rs.", "rs.s.", "..", "r.,rs", "rs,.r", "t.q.", "q."} {
			raw := path + "?include=" + inc
			req, ok := reqFromRaw(raw)
			if !ok || !asciiReq(req) {
				continue
			}
			st := style()
			st.ID = "1"
			stt.class("stray-dot")
			emit(uCase{Fam: "url", Mode: "url", Req: req, Style: st, Raw: raw})
		}
	}
	// mutated raw URLs: the request is whatever net/url makes of the text
	muts := []func(string) string{
		func(s string) string { i := rng.Intn(len(s) + 1); return s[:i] + "%" + s[i:] },
		func(s string) string { i := rng.Intn(len(s) + 1); return s[:i] + "%zz" + s[i:] },
		func(s string) string { i := rng.Intn(len(s)); return s[:i] + s[i+1:] },
		func(s string) string { return s + "&sort=x,x,y,y,id,-id" },
		func(s string) string { return s + "&filter=" },
		func(s string) string { return s + "&include=,,.,r..q,.r" },
		func(s string) string { return s + "&fields[]=x&fields[ta=x&page[]=1" },
		func(s string) string { return strings.Replace(s, "?", "??", 1) },
		func(s string) string { return s + "&sort=-&sort=--x&sort=-id" },
		func(s string) string { return s + ";a=b" },
	}
	for i := 0; i < *mut; i++ {
		r := base([][]string{{"ta"}, {"tb"}, {"ta", "1", "rs"}}[rng.Intn(3)])
		r.Sort = vocab.Sort[rng.Intn(len(vocab.Sort))]
		r.Include = vocab.Include[rng.Intn(len(vocab.Include))]
		r.Fields = vocab.Fields[rng.Intn(len(vocab.Fields))]
		st := style()
		st.ID = "1"
		raw := render(r, st)
		if !strings.Contains(raw, "?") {
			raw += "?sort=x"
		}
		for k := 1 + rng.Intn(2); k > 0; k-- {
			raw = muts[rng.Intn(len(muts))](raw)
		}
		req, ok := reqFromRaw(raw)
		if !ok || !asciiReq(req) {
			// unparsable by net/url: the library must answer with an error, nothing else to judge
			req = base([]string{})
			req.Unknown = true
			if ok {
				continue
			}
		}
		stt.class("mutated")
		emit(uCase{Fam: "url", Mode: "url", Req: req, Style: st, Raw: raw})
	}
	stt.Rule = "distinct abstract requests (path, fields, sort, include, filter class, page class, unknown parameter)"
	w.Close()
	stt.write(*out+"/stats.json", w)
}
