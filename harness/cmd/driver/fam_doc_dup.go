package main

// A soft type in which an attribute and a relationship carry the same name (Type.AddAttr and
// Type.AddRel each look at their own kind only, so such a type can be built): for every selection of
// its names and every request of relationship data, what one marshaled resource exposes.  The names
// are data of the event; Document.tla (DupOK) says which must be there.

import (
	"bytes"
	"encoding/json"
	"reflect"
	"sort"

	"github.com/mfcochauxlaberge/jsonapi"
)

type dupCase struct {
	Fam     string   `json:"fam"`
	Mode    string   `json:"mode"` // dupname
	Sel     []string `json:"sel"`
	RelData []string `json:"reldata"`
}

type dupOut struct {
	Attrs []string `json:"attrs"`
	Rels  []string `json:"rels"`
	Data  []string `json:"data"`
}

type dupEvent struct {
	Ev      string   `json:"ev"`
	Sel     []string `json:"sel"`
	RelData []string `json:"reldata"`
	Out     dupOut   `json:"out"`
	Same    bool     `json:"same"`
	Ret     string   `json:"ret"`
}

func dupCases() []dupCase {
	var out []dupCase
	names, rels := []string{"dup", "e", "r2"}, []string{"dup", "r2"}
	for m := 0; m < 8; m++ {
		for k := 0; k < 4; k++ {
			c := dupCase{Fam: "doc", Mode: "dupname", Sel: []string{}, RelData: []string{}}
			for i, n := range names {
				if m&(1<<i) != 0 {
					c.Sel = append(c.Sel, n)
				}
			}
			for i, n := range rels {
				if k&(1<<i) != 0 {
					c.RelData = append(c.RelData, n)
				}
			}
			out = append(out, c)
		}
	}
	return out
}

func runDupCase(c dupCase) dupEvent {
	ev := dupEvent{Ev: "dupname", Sel: c.Sel, RelData: c.RelData, Out: dupOut{Attrs: []string{}, Rels: []string{}, Data: []string{}}, Same: true, Ret: "ok"}
	p, _ := catch(func() {
		typ := &jsonapi.Type{Name: "td"}
		must(typ.AddAttr(jsonapi.Attr{Name: "dup", Type: jsonapi.AttrTypeString}))
		must(typ.AddAttr(jsonapi.Attr{Name: "e", Type: jsonapi.AttrTypeString}))
		must(typ.AddRel(jsonapi.Rel{FromType: "td", FromName: "dup", ToOne: true, ToType: "t2"}))
		must(typ.AddRel(jsonapi.Rel{FromType: "td", FromName: "r2", ToOne: false, ToType: "t2"}))
		project := func(b []byte) dupOut {
			o := dupOut{Attrs: []string{}, Rels: []string{}, Data: []string{}}
			var ske struct {
				Attributes    map[string]json.RawMessage            `json:"attributes"`
				Relationships map[string]map[string]json.RawMessage `json:"relationships"`
			}
			if json.Unmarshal(b, &ske) != nil {
				o.Attrs = append(o.Attrs, "invalid-json")
				return o
			}
			o.Attrs = sortedKeys(ske.Attributes)
			o.Rels = sortedKeys(ske.Relationships)
			for _, n := range o.Rels {
				if _, has := ske.Relationships[n]["data"]; has {
					o.Data = append(o.Data, n)
				}
			}
			return o
		}
		var first []byte
		for i := 0; i < 24; i++ { // (the walk over the type's maps takes another order every time)
			r := &jsonapi.SoftResource{Type: typ}
			r.SetID("d1")
			r.Set("e", "v")
			r.Set("dup", "x")
			r.Set("r2", []string{"b", "a"})
			b := jsonapi.MarshalResource(r, "/p", append([]string{}, c.Sel...), map[string][]string{"td": append([]string{}, c.RelData...)})
			if i == 0 {
				first = b
				ev.Out = project(b)
			} else if !bytes.Equal(b, first) {
				if ev.Same {
					ev.Out = project(b) // what is looked at is a result that differs, if any does
				}
				ev.Same = false
			}
		}
	})
	if p {
		ev.Ret = "panic"
	}
	return ev
}

// Field names that a query string must escape ("full name", "a+b", "50%"): one URL object serves
// several documents in a row.  What each payload exposes, whether the URL still says what it was
// given, and what comes back from the payload are data of the event (Document.tla: OddOK).

type oddCase struct {
	Fam    string   `json:"fam"`
	Mode   string   `json:"mode"` // oddname
	Impl   string   `json:"impl"`
	Sel    []string `json:"sel"`
	Before bool     `json:"before"` // the URL is printed once before the first document is marshaled
}

type oddEvent struct {
	Ev     string     `json:"ev"`
	Impl   string     `json:"impl"`
	Sel    []string   `json:"sel"`
	Outs   [][]string `json:"outs"`    // the attribute names of the three payloads
	Frame  bool       `json:"frameok"` // the URL's selection is what it was given, name by name
	Back   bool       `json:"back_same"`
	Stable bool       `json:"stable"` // the same document and URL: the same bytes
	Ret    string     `json:"ret"`
}

var oddFields = defMap{"full name": {Kind: "attr", K: "string"}, "a+b": {Kind: "attr", K: "string"}, "50%": {Kind: "attr", K: "int"}, "k": {Kind: "attr", K: "string"}}

func oddCases() []oddCase {
	var out []oddCase
	names := []string{"50%", "a+b", "full name", "k"}
	for m := 0; m < 16; m++ {
		for _, impl := range []string{"soft", "wrap"} {
			c := oddCase{Fam: "doc", Mode: "oddname", Impl: impl, Sel: []string{}, Before: m%3 == 0}
			for i, n := range names {
				if m&(1<<i) != 0 {
					c.Sel = append(c.Sel, n)
				}
			}
			out = append(out, c)
		}
	}
	return out
}

func runOddCase(c oddCase) oddEvent {
	ev := oddEvent{Ev: "oddname", Impl: c.Impl, Sel: c.Sel, Outs: [][]string{}, Frame: true, Back: true, Stable: true, Ret: "ok"}
	p, _ := catch(func() {
		schema := &jsonapi.Schema{}
		if c.Impl == "wrap" {
			typ, err := jsonapi.BuildType(reflect.New(structType("tn", oddFields, kindMap{})).Interface())
			must(err)
			must(schema.AddType(typ))
		} else {
			must(schema.AddType(*softType("tn", oddFields, kindMap{})))
		}
		url, err := jsonapi.NewURLFromRaw(schema, "/tn/x")
		must(err)
		url.Params.Fields = map[string][]string{"tn": append([]string{}, c.Sel...)}
		if c.Before {
			_ = url.String()
		}
		var prev []byte
		for i := 0; i < 3; i++ {
			res := newRes(c.Impl, "tn", oddFields, kindMap{})
			res.Set("id", "x")
			res.Set("full name", "Ann Lee")
			res.Set("a+b", "sum")
			res.Set("50%", 50)
			res.Set("k", "v")
			payload, err := jsonapi.MarshalDocument(&jsonapi.Document{Data: res}, url)
			must(err)
			if prev != nil && !bytes.Equal(prev, payload) {
				ev.Stable = false
			}
			prev = payload
			var top struct {
				Data struct {
					Attributes map[string]json.RawMessage `json:"attributes"`
				} `json:"data"`
			}
			must(json.Unmarshal(payload, &top))
			ev.Outs = append(ev.Outs, sortedKeys(top.Data.Attributes))
			if !reflect.DeepEqual(url.Params.Fields, map[string][]string{"tn": c.Sel}) && !(len(c.Sel) == 0 && len(url.Params.Fields["tn"]) == 0) {
				got := append([]string{}, url.Params.Fields["tn"]...)
				want := append([]string{}, c.Sel...)
				sort.Strings(got)
				sort.Strings(want)
				if !reflect.DeepEqual(got, want) { // (the order of names may change, nothing else)
					ev.Frame = false
				}
			}
			doc, err := jsonapi.UnmarshalDocument(payload, schema)
			if err != nil {
				ev.Back = false
				continue
			}
			back, _ := doc.Data.(jsonapi.Resource)
			want := map[string]any{"full name": "Ann Lee", "a+b": "sum", "50%": 50, "k": "v"}
			for _, n := range c.Sel {
				if back == nil || back.Get(n) != want[n] {
					ev.Back = false
				}
			}
		}
	})
	if p {
		ev.Ret = "panic"
	}
	return ev
}

// Included resources whose ids are distinct but whose type and id, written one after the other, read
// alike ("7" of type "blog posts" and "7 blog" of type "posts"; "ab" of type "c" and "a" of type
// "bc"): the payload does not depend on the order in which they were included (all ids of a case are
// distinct: equal ids are what the property exempts).

type tieCase struct {
	Fam   string      `json:"fam"`
	Mode  string      `json:"mode"` // tie
	Pairs [][2]string `json:"pairs"`
	Sep   string      `json:"sep"` // how the two texts are put together to read alike (documentation only)
}

type tieEvent struct {
	Ev   string `json:"ev"`
	Sep  string `json:"sep"`
	N    int    `json:"n"`
	Same bool   `json:"same"`
	Both bool   `json:"both_there"` // every included resource is in every payload
	Ret  string `json:"ret"`
}

func tieCases() []tieCase {
	return []tieCase{
		{Fam: "doc", Mode: "tie", Sep: "space", Pairs: [][2]string{{"blog posts", "7"}, {"posts", "7 blog"}}},
		{Fam: "doc", Mode: "tie", Sep: "space", Pairs: [][2]string{{"posts", "7 blog"}, {"blog posts", "7"}, {"c", "7 "}}},
		{Fam: "doc", Mode: "tie", Sep: "none", Pairs: [][2]string{{"c", "ab"}, {"bc", "a"}}},
		{Fam: "doc", Mode: "tie", Sep: "none", Pairs: [][2]string{{"bc", "a"}, {"c", "ab"}, {"posts", "abc"}}},
		{Fam: "doc", Mode: "tie", Sep: "slash", Pairs: [][2]string{{"c", "x/bc"}, {"bc", "x/c"}, {"c/x", "bc"}}},
		{Fam: "doc", Mode: "tie", Sep: "reversed", Pairs: [][2]string{{"c", "bc"}, {"bc", "c"}}},
	}
}

func runTieCase(c tieCase) tieEvent {
	ev := tieEvent{Ev: "tie", Sep: c.Sep, N: len(c.Pairs), Same: true, Both: true, Ret: "ok"}
	p, _ := catch(func() {
		schema := &jsonapi.Schema{}
		for _, name := range []string{"main", "posts", "blog posts", "c", "bc", "c/x"} {
			must(schema.AddType(*softType(name, defMap{"a": {Kind: "attr", K: "string"}}, kindMap{})))
		}
		url, err := jsonapi.NewURLFromRaw(schema, "/main/x")
		must(err)
		var first []byte
		for _, perm := range permutations(len(c.Pairs)) {
			prim := newRes("soft", "main", defMap{"a": {Kind: "attr", K: "string"}}, kindMap{})
			prim.Set("id", "x")
			doc := &jsonapi.Document{Data: prim}
			for _, i := range perm {
				r := &jsonapi.SoftResource{Type: softType(c.Pairs[i][0], defMap{"a": {Kind: "attr", K: "string"}}, kindMap{})}
				r.SetID(c.Pairs[i][1])
				r.Set("a", c.Pairs[i][0]+"|"+c.Pairs[i][1])
				doc.Include(r)
			}
			payload, err := jsonapi.MarshalDocument(doc, url)
			must(err)
			var top struct {
				Included []json.RawMessage `json:"included"`
			}
			must(json.Unmarshal(payload, &top))
			if len(top.Included) != len(c.Pairs) {
				ev.Both = false
			}
			if first == nil {
				first = payload
			} else if !bytes.Equal(first, payload) {
				ev.Same = false
			}
		}
	})
	if p {
		ev.Ret = "panic"
	}
	return ev
}
