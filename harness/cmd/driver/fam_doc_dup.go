package main

// A soft type in which an attribute and a relationship carry the same name (Type.AddAttr and
// Type.AddRel each look at their own kind only, so such a type can be built): for every selection of
// its names and every request of relationship data, what one marshaled resource exposes.  The names
// are data of the event; Document.tla (DupOK) says which must be there.

import (
	"bytes"
	"encoding/json"

	"github.com/mfcochauxlaberge/jsonapi"
)

type dupCase struct {
	Fam     string   `json:"fam"`
	Mode    string   `json:"mode"` // dupname
	Sel     []string `json:"sel"`
	RelData []string `json:"reldata"`
}

type dupOut struct {
	Attrs []string `json:"attrs"`
	Rels  []string `json:"rels"`
	Data  []string `json:"data"`
}

type dupEvent struct {
	Ev      string   `json:"ev"`
	Sel     []string `json:"sel"`
	RelData []string `json:"reldata"`
	Out     dupOut   `json:"out"`
	Same    bool     `json:"same"`
	Ret     string   `json:"ret"`
}

func dupCases() []dupCase {
	var out []dupCase
	names, rels := []string{"dup", "e", "r2"}, []string{"dup", "r2"}
	for m := 0; m < 8; m++ {
		for k := 0; k < 4; k++ {
			c := dupCase{Fam: "doc", Mode: "dupname", Sel: []string{}, RelData: []string{}}
			for i, n := range names {
				if m&(1<<i) != 0 {
					c.Sel = append(c.Sel, n)
				}
			}
			for i, n := range rels {
				if k&(1<<i) != 0 {
					c.RelData = append(c.RelData, n)
				}
			}
			out = append(out, c)
		}
	}
	return out
}

func runDupCase(c dupCase) dupEvent {
	ev := dupEvent{Ev: "dupname", Sel: c.Sel, RelData: c.RelData, Out: dupOut{Attrs: []string{}, Rels: []string{}, Data: []string{}}, Same: true, Ret: "ok"}
	p, _ := catch(func() {
		typ := &jsonapi.Type{Name: "td"}
		must(typ.AddAttr(jsonapi.Attr{Name: "dup", Type: jsonapi.AttrTypeString}))
		must(typ.AddAttr(jsonapi.Attr{Name: "e", Type: jsonapi.AttrTypeString}))
		must(typ.AddRel(jsonapi.Rel{FromType: "td", FromName: "dup", ToOne: true, ToType: "t2"}))
		must(typ.AddRel(jsonapi.Rel{FromType: "td", FromName: "r2", ToOne: false, ToType: "t2"}))
		project := func(b []byte) dupOut {
			o := dupOut{Attrs: []string{}, Rels: []string{}, Data: []string{}}
			var ske struct {
				Attributes    map[string]json.RawMessage            `json:"attributes"`
				Relationships map[string]map[string]json.RawMessage `json:"relationships"`
			}
			if json.Unmarshal(b, &ske) != nil {
				o.Attrs = append(o.Attrs, "invalid-json")
				return o
			}
			o.Attrs = sortedKeys(ske.Attributes)
			o.Rels = sortedKeys(ske.Relationships)
			for _, n := range o.Rels {
				if _, has := ske.Relationships[n]["data"]; has {
					o.Data = append(o.Data, n)
				}
			}
			return o
		}
		var first []byte
		for i := 0; i < 24; i++ { // (the walk over the type's maps takes another order every time)
			r := &jsonapi.SoftResource{Type: typ}
			r.SetID("d1")
			r.Set("e", "v")
			r.Set("dup", "x")
			r.Set("r2", []string{"b", "a"})
			b := jsonapi.MarshalResource(r, "/p", append([]string{}, c.Sel...), map[string][]string{"td": append([]string{}, c.RelData...)})
			if i == 0 {
				first = b
				ev.Out = project(b)
			} else if !bytes.Equal(b, first) {
				if ev.Same {
					ev.Out = project(b) // what is looked at is a result that differs, if any does
				}
				ev.Same = false
			}
		}
	})
	if p {
		ev.Ret = "panic"
	}
	return ev
}
