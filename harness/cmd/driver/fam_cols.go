package main

// Growth family G02 (Collections.tla): Resources and WrapperCollection as ordered lists.  Every history
// TLC emitted (the Adds that lead to one reachable state of the documented model) is run on a real
// collection; then every operation of the alphabet is applied to that state, one self-contained event each.

import (
	"encoding/json"
	"flag"
	"reflect"

	"github.com/mfcochauxlaberge/jsonapi"
)

type gcItem struct {
	Kind  string `json:"kind"`
	TName string `json:"tname"`
	ID    string `json:"id"`
}

type gcOp struct {
	Op string `json:"op"`
	It gcItem `json:"it"`
	I  int    `json:"i"`
}

type gcCol struct {
	Impl  string   `json:"impl"`
	Items []gcItem `json:"items"`
}

type gcMember struct {
	TName string `json:"tname"`
	ID    string `json:"id"`
}

type gcObs struct {
	S       string     `json:"s"`
	N       int        `json:"n"`
	Members []gcMember `json:"members"`
}

type gcEvent struct {
	Ev   string `json:"ev"`
	Pre  gcCol  `json:"pre"`
	Op   gcOp   `json:"op"`
	Post gcCol  `json:"post"`
	Ret  string `json:"ret"`
	Obs  gcObs  `json:"obs"`
}

type gcCase struct {
	Fam  string `json:"fam"`
	Impl string `json:"impl"`
	Hist []gcOp `json:"hist"`
	Op   gcOp   `json:"op"`
}

var gcFields = map[string]defMap{
	"ta": {"x": {Kind: "attr", K: "string"}},
	"tb": {"x": {Kind: "attr", K: "string"}, "n": {Kind: "attr", K: "int"}},
}

func gcRes(it gcItem) jsonapi.Resource {
	r := newRes(it.Kind, it.TName, gcFields[it.TName], kindMap{})
	r.Set("id", it.ID)
	return r
}

func gcProject(impl string, c jsonapi.Collection) gcCol {
	out := gcCol{Impl: impl, Items: []gcItem{}}
	for i := 0; i < c.Len(); i++ {
		r := c.At(i)
		kind := "soft"
		if _, ok := r.(*jsonapi.Wrapper); ok {
			kind = "wrap"
		}
		id, _ := r.Get("id").(string)
		out.Items = append(out.Items, gcItem{Kind: kind, TName: r.GetType().Name, ID: id})
	}
	return out
}

func runColsCase(c gcCase) gcEvent {
	var col jsonapi.Collection
	if c.Impl == "resources" {
		col = &jsonapi.Resources{}
	} else {
		col = jsonapi.WrapCollection(gcRes(gcItem{Kind: "wrap", TName: "ta", ID: "sample"}))
	}
	for _, op := range c.Hist {
		col.Add(gcRes(op.It))
	}
	ev := gcEvent{Ev: "col", Pre: gcProject(c.Impl, col), Op: c.Op, Ret: "ok", Obs: gcObs{Members: []gcMember{}}}
	p, _ := catch(func() {
		switch c.Op.Op {
		case "Add":
			col.Add(gcRes(c.Op.It))
		case "At":
			r := col.At(c.Op.I)
			if r == nil || reflect.ValueOf(r).IsNil() {
				ev.Obs.S = "nil"
				if r != nil {
					ev.Obs.S = "typed-nil"
				}
			} else {
				ev.Obs.S, _ = r.Get("id").(string)
			}
		case "Len":
			ev.Obs.N = col.Len()
		case "GetType":
			ev.Obs.S = col.GetType().Name
		case "Wire":
			s := &jsonapi.Schema{}
			for _, tn := range []string{"ta", "tb"} {
				must(s.AddType(*softType(tn, gcFields[tn], kindMap{})))
			}
			pl := jsonapi.MarshalCollection(col, "/p", map[string][]string{"ta": {"x"}, "tb": {"x", "n"}}, nil)
			back, err := jsonapi.UnmarshalCollection(pl, s)
			if err != nil {
				ev.Obs.Members = append(ev.Obs.Members, gcMember{TName: "error", ID: err.Error()[:1]})
				return
			}
			for i := 0; i < back.Len(); i++ {
				id, _ := back.At(i).Get("id").(string)
				ev.Obs.Members = append(ev.Obs.Members, gcMember{TName: back.At(i).GetType().Name, ID: id})
			}
		default:
			infra("unknown op %q", c.Op.Op)
		}
	})
	if p {
		ev.Ret = "panic"
	}
	ev.Post = gcProject(c.Impl, col)
	return ev
}

func colsMain(args []string) {
	fs := flag.NewFlagSet("cols", flag.ExitOnError)
	gen := fs.String("gen", "", "TLC generation output (ALPHA + S lines)")
	out := fs.String("out", "", "output directory")
	must(fs.Parse(args))
	var alpha []gcOp
	type st struct {
		Impl string `json:"impl"`
		Hist []gcOp `json:"hist"`
	}
	var states []st
	tlcLines(*gen, func(tag string, js []byte) {
		switch tag {
		case "ALPHA":
			if alpha == nil {
				must(json.Unmarshal(js, &alpha))
			}
		case "S":
			var s st
			must(json.Unmarshal(js, &s))
			states = append(states, s)
		}
	})
	if len(alpha) == 0 || len(states) == 0 {
		infra("incomplete generation output %s", *gen)
	}
	stt := newStats()
	stt.Exhaustive = true
	w := newEvWriter(*out, 60000)
	for _, s := range states {
		stt.States++
		for _, op := range alpha {
			c := gcCase{Fam: "cols", Impl: s.Impl, Hist: s.Hist, Op: op}
			ev := runColsCase(c)
			stt.Calls++
			stt.class(s.Impl + ":" + op.Op + ":" + ev.Ret)
			w.Emit(ev, c)
		}
	}
	stt.Rule = "every operation of the alphabet on every reachable state of the documented model"
	w.Close()
	stt.write(*out+"/stats.json", w)
}
