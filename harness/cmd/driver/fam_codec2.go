package main

// Codec family, payload modes: round trip of resources (C01), robustness of
// every unmarshal entry point (C05), partial unmarshaling (C13), and the
// relationship / absent-field half of C06.

import (
	"bytes"
	"encoding/json"
	"fmt"
	"math/big"
	"math/rand"
	"net/http"
	"reflect"
	"sort"
	"strings"
	"time"

	"github.com/mfcochauxlaberge/jsonapi"
)

// ---- the all-kinds schema -------------------------------------------------

func allKindsFields() defMap {
	f := defMap{"o": {Kind: "rel", To1: true, TT: "ak2"}, "m": {Kind: "rel", To1: false, TT: "ak2"},
		// (o2 is one side of a two-way relationship: ak2.back is its inverse)
		"o2": {Kind: "rel", To1: true, TT: "ak2", TN: "back"}, "m2": {Kind: "rel", To1: false, TT: "ak2"}}
	for _, k := range baseKinds {
		n := kindName(k)
		f["k"+n] = jDef{Kind: "attr", K: n}
		f["p"+n] = jDef{Kind: "attr", K: n, Null: true}
	}
	// a field whose json tag carries an option: for this library the whole tag is the name
	f[optName] = jDef{Kind: "attr", K: "string"}
	// an attribute called "type" (only "id" is reserved for fields)
	f["type"] = jDef{Kind: "attr", K: "string"}
	return f
}

const optName = "j,omitempty"

// akNarrowFields: another Go struct for the same type name "ak", with fewer fields (an older
// version of the API in the same program): impl "wrapn"
func akNarrowFields() defMap {
	f := allKindsFields()
	for _, drop := range []string{"kint8", "pstring", "m2", "ktime", "puint64"} {
		delete(f, drop)
	}
	return f
}

func akFields(impl string) defMap {
	if impl == "wrapn" {
		return akNarrowFields()
	}
	return allKindsFields()
}

// ak2 also has a two-way relationship with itself (up <-> down)
var ak2Fields = defMap{"s": {Kind: "attr", K: "string"}, "back": {Kind: "rel", To1: true, TT: "ak", TN: "o2"},
	"up": {Kind: "rel", To1: true, TT: "ak2", TN: "down"}, "down": {Kind: "rel", To1: false, TT: "ak2", TN: "up"}}

// ak3 has attributes only (no relationship at all)
var ak3Fields = defMap{"t": {Kind: "attr", K: "string"}, "u": {Kind: "attr", K: "uint", Null: true}}

var akSchemas = map[string]*jsonapi.Schema{}

// akSchema: type "ak" (all 28 kinds, to-one, to-many) struct-backed or soft,
// plus "ak2" of the other flavour (every schema mixes both).
func akSchema(impl string) *jsonapi.Schema {
	if s, ok := akSchemas[impl]; ok {
		return s
	}
	s := buildAkSchema(impl, false)
	// the schema object has a history before it serves: a spare type and a spare attribute came and
	// went, with payloads read in between (whatever is remembered per schema or per type name must
	// follow the edits)
	must(s.AddType(jsonapi.Type{Name: "aa0"}))
	spare := "ak" // a soft type of this schema (a struct-backed type cannot be given a field it has no Go field for)
	if impl != "soft" {
		spare = "ak2"
	}
	must(s.AddAttr(spare, jsonapi.Attr{Name: "zx", Type: jsonapi.AttrTypeString}))
	for _, pl := range []string{`{"type":"` + spare + `","id":"h1","attributes":{"zx":"v"}}`, `{"type":"aa0","id":"h2"}`,
		`{"type":"ak","id":"h3","attributes":{"kint8":5}}`, `{"type":"ak3","id":"h4","attributes":{"t":"x"}}`} {
		// (whatever these do - refuse, panic - is for the judged cases to show, not for the set-up)
		catch(func() { _, _ = jsonapi.UnmarshalResource([]byte(pl), s) })
		catch(func() { _, _ = jsonapi.UnmarshalPartialResource([]byte(pl), s) })
		catch(func() { _, _ = jsonapi.UnmarshalDocument([]byte(`{"data":`+pl+`}`), s) })
	}
	s.RemoveAttr(spare, "zx")
	s.RemoveType("aa0")
	// ... and, after another look, a type leaves and comes back at the end: as many types as before,
	// every one in another place
	catch(func() { _, _ = s.HasType("ak"), s.GetType("ak3") })
	first := s.GetType("AK")
	s.RemoveType("AK")
	must(s.AddType(first))
	// (... followed by its namesake, so that the name spelled in capitals still comes first of the two)
	// (the type is looked up here, not through the library: what the library answers is for the judged cases)
	for _, t := range s.Types {
		if t.Name == "ak" {
			real := t
			s.RemoveType("ak")
			if err := s.AddType(real); err != nil {
				infra("akSchema: the type ak cannot be added again: %v", err)
			}
			break
		}
	}
	akSchemas[impl] = s
	return s
}

// buildAkSchema: a schema of its own; withSpare puts a type in front that the caller may remove later
func buildAkSchema(impl string, withSpare bool) *jsonapi.Schema {
	s := &jsonapi.Schema{}
	if withSpare {
		must(s.AddType(jsonapi.Type{Name: "aa0"}))
	}
	// names that differ from the real ones by case only, registered first: other types altogether
	must(s.AddType(*softType("AK", defMap{"upper": {Kind: "attr", K: "bool"}}, kindMap{})))
	must(s.AddType(*softType("Ak2", defMap{"upper": {Kind: "attr", K: "bool"}}, kindMap{})))
	if impl == "wrap" || impl == "wrap2" || impl == "wrapn" || impl == "wrapid" {
		// wrap2: the same type name over a struct whose fields are declared in the opposite order;
		// wrapn: over a struct with fewer fields; wrapid: over a struct whose ID is of a defined string type
		typ, err := jsonapi.BuildType(reflect.New(structType("ak", akFields(impl), kindMap{Rev: impl == "wrap2", NamedID: impl == "wrapid"})).Interface())
		must(err)
		must(s.AddType(typ))
		must(s.AddType(*softType("ak2", ak2Fields, kindMap{})))
		must(s.AddType(*softType("ak3", ak3Fields, kindMap{})))
	} else {
		must(s.AddType(*softType("ak", allKindsFields(), kindMap{})))
		typ, err := jsonapi.BuildType(reflect.New(structType("ak2", ak2Fields, kindMap{})).Interface())
		must(err)
		must(s.AddType(typ))
		typ3, err := jsonapi.BuildType(reflect.New(structType("ak3", ak3Fields, kindMap{})).Interface())
		must(err)
		must(s.AddType(typ3))
	}
	return s
}

// ---- C01 round trip -----------------------------------------------------------

type rtR struct {
	OK        bool `json:"ok"`
	TypeSame  bool `json:"type_same"`
	IDSame    bool `json:"id_same"`
	AttrsSame bool `json:"attrs_same"`
	NilSame   bool `json:"nil_same"`
	To1Same   bool `json:"to1_same"`
	ManySame  bool `json:"tomany_same"`
	LitOK     bool `json:"litclass_ok"`
}

type rtEvent struct {
	Ev    string `json:"ev"`
	Impl  string `json:"impl"`
	Via   string `json:"via"`
	Class string `json:"class"`
	R     rtR    `json:"r"`
	Ret   string `json:"ret"`
}

type rtCase struct {
	Fam   string `json:"fam"`
	Mode  string `json:"mode"`
	Impl  string `json:"impl"`
	Via   string `json:"via"`
	Class string `json:"class"` // zero | nil | table | random
	Table int    `json:"table"`
	Seed  int64  `json:"seed"`
	IDSel int    `json:"idsel"`
	Rank  int    `json:"rank"` // table class: the rank every kind takes (0 = a random non-zero one per kind)
}

var rtIDs = []string{"1", "a b", "\x00<&>\"\\é漢\U0001F600", "x/y?z#w%20", strings.Repeat("long", 50),
	"a\\u0026b\\u003e",              // a literal backslash before u0026, the text of a JSON escape
	" lead", "trail ", "\tx\n", " "} // white space at the edges is part of the id

// values of one round-trip case: field -> base value (nil = nil pointer)
func rtValues(c rtCase) (map[string]any, string, []string) {
	rng := rand.New(rand.NewSource(c.Seed))
	vals := map[string]any{}
	for _, k := range baseKinds {
		n := kindName(k)
		var v any
		switch c.Class {
		case "zero":
			v = tableFor(0, 0).vals[k][0]
		case "table":
			vs := tableFor(c.Table, c.Seed).vals[k]
			v = vs[(1+rng.Intn(len(vs)-1))%len(vs)]
			if c.Rank > 0 {
				v = vs[c.Rank%len(vs)]
			}
		default:
			v = randomBase(rng, k)
		}
		vals["k"+n] = v
		vals["p"+n] = v
		if c.Class == "nil" || (c.Class == "random" && rng.Intn(4) == 0) {
			vals["p"+n] = nil
		}
	}
	o := ""
	var m []string
	if c.Class != "zero" && c.Class != "nil" {
		o = rtIDs[rng.Intn(len(rtIDs))]
		for i := rng.Intn(5); i > 0; i-- {
			m = append(m, fmt.Sprintf("%s-%d", rtIDs[rng.Intn(len(rtIDs))], rng.Intn(3)))
		}
		if rng.Intn(5) == 0 {
			m = append(m, "") // the empty id is an id like any other inside a list
		}
	}
	return vals, o, m
}

func runRoundTrip(c rtCase) rtEvent {
	ev := rtEvent{Ev: "rt", Impl: c.Impl, Via: c.Via, Class: c.Class, Ret: "ok"}
	p, _ := catch(func() {
		schemaImpl := c.Impl
		if schemaImpl == "softnf" {
			schemaImpl = "soft"
		}
		schema := akSchema(schemaImpl)
		fields := akFields(c.Impl)
		implOfRes := c.Impl
		if implOfRes == "wrapn" {
			implOfRes = "wrap"
		}
		if implOfRes == "softnf" {
			implOfRes = "soft"
		}
		srcKM := kindMap{}
		if implOfRes == "wrapid" {
			implOfRes, srcKM = "wrap", kindMap{NamedID: true}
		}
		src := newRes(implOfRes, "ak", fields, srcKM)
		if sr, ok := src.(*jsonapi.SoftResource); ok && c.Impl == "softnf" {
			// a soft type declared by hand: its one-way relationships do not say where they start
			// (Type.AddRel, Schema.AddType and Check take them as they are)
			for k, r := range sr.Type.Rels {
				r.FromType = ""
				sr.Type.Rels[k] = r
			}
		}
		id := rtIDs[c.IDSel%len(rtIDs)]
		src.Set("id", id)
		vals, o, m := rtValues(c)
		for f, v := range vals {
			d, has := fields[f]
			if !has {
				continue
			}
			kind := kindOf(d.K)
			switch {
			case v == nil:
				src.Set(f, jsonapi.GetZeroValue(kind, true))
			case d.Null:
				if b, ok := v.([]byte); ok {
					v = append([]byte{}, b...)
				}
				src.Set(f, ptrTo(v))
			default:
				if b, ok := v.([]byte); ok {
					v = append([]byte{}, b...)
				}
				src.Set(f, v)
			}
		}
		src.Set("o", o)
		src.Set("m", append([]string{}, m...))
		src.Set(optName, "opt")
		src.Set("o2", "")
		wantO2, wantM2 := "", []string{}
		if len(m) > 0 {
			src.Set("o2", m[0])
			wantO2 = m[0]
			if _, has := fields["m2"]; has {
				src.Set("m2", []string{o})
				wantM2 = []string{o}
			}
		}
		all, rd := allFieldsOf(src)
		if c.Seed%3 != 0 {
			// "all of its fields": in whatever order the caller lists them
			rand.New(rand.NewSource(c.Seed)).Shuffle(len(all), func(i, j int) { all[i], all[j] = all[j], all[i] })
			for _, names := range rd {
				for i, j := 0, len(names)-1; i < j; i, j = i+1, j-1 {
					names[i], names[j] = names[j], names[i]
				}
			}
		}
		var payload []byte
		var back jsonapi.Resource
		var err error
		if c.Via == "document" {
			url, uerr := jsonapi.NewURLFromRaw(schema, "/ak/x")
			must(uerr)
			url.Params.Fields = map[string][]string{"ak": all}
			payload, err = jsonapi.MarshalDocument(&jsonapi.Document{Data: src, RelData: rd}, url)
			if err != nil {
				return
			}
			doc, derr := jsonapi.UnmarshalDocument(payload, schema)
			if derr != nil {
				return
			}
			back, _ = doc.Data.(jsonapi.Resource)
			var top map[string]json.RawMessage
			_ = json.Unmarshal(payload, &top)
			payload = top["data"]
		} else {
			payload = jsonapi.MarshalResource(src, "/p", all, rd)
			back, err = jsonapi.UnmarshalResource(payload, schema)
			if err != nil {
				return
			}
		}
		if back == nil {
			return
		}
		ev.R.OK = true
		ev.R.TypeSame = back.GetType().Name == "ak"
		bid, _ := back.Get("id").(string)
		ev.R.IDSame = bid == id
		ev.R.AttrsSame, ev.R.NilSame, ev.R.LitOK = true, true, true
		var ro map[string]json.RawMessage
		_ = json.Unmarshal(payload, &ro)
		var rawAttrs map[string]json.RawMessage
		_ = json.Unmarshal(ro["attributes"], &rawAttrs)
		// the resource that came back has exactly the fields of its own struct
		if len(back.Attrs())+len(back.Rels()) != len(fields) {
			ev.R.AttrsSame = false
		}
		for f, v := range vals {
			d, has := fields[f]
			if !has {
				continue
			}
			kind := kindOf(d.K)
			got := back.Get(f)
			isNil := got == nil || (reflect.ValueOf(got).Kind() == reflect.Ptr && reflect.ValueOf(got).IsNil())
			if (v == nil) != isNil {
				ev.R.NilSame = false
				continue
			}
			if v == nil {
				if strings.TrimSpace(string(rawAttrs[f])) != "null" {
					ev.R.LitOK = false
				}
				continue
			}
			want := reflect.TypeOf(jsonapi.GetZeroValue(kind, d.Null))
			if reflect.TypeOf(got) != want {
				ev.R.AttrsSame = false
				continue
			}
			if d.Null {
				got = reflect.ValueOf(got).Elem().Interface()
			}
			if !sameValue(v, got) {
				ev.R.AttrsSame = false
			}
			// integers are written as JSON numbers with all their digits
			if classOf(kind) == "num" && kind != jsonapi.AttrTypeTime {
				n, _ := new(big.Int).SetString(fmt.Sprint(v), 10)
				if strings.TrimSpace(string(rawAttrs[f])) != n.String() {
					ev.R.LitOK = false
				}
			}
		}
		// a resource of a type without any relationship, right after one that has them
		impl3 := "soft"
		if schemaImpl == "soft" {
			impl3 = "wrap"
		}
		r3 := newRes(impl3, "ak3", ak3Fields, kindMap{})
		r3.Set("id", "three")
		r3.Set("t", "tv")
		pl3 := jsonapi.MarshalResource(r3, "/p", []string{"t", "u"}, nil)
		b3, err3 := jsonapi.UnmarshalResource(pl3, schema)
		if err3 != nil || b3 == nil || b3.Get("t") != "tv" || b3.Get("id") != "three" || b3.GetType().Name != "ak3" {
			ev.R.AttrsSame = false
		}
		// two soft resources of one type (one *Type, as the members of a collection or the resources a
		// schema type creates have): a field is renamed through the first - removed, and added under a new
		// name with the same kind, so that the type has as many fields as before - and the second, which
		// nobody touched in between, is sent and read back against a schema that holds the type
		if c.Impl == "soft" {
			shared := softType("ak3", ak3Fields, kindMap{})
			first, second := &jsonapi.SoftResource{Type: shared}, &jsonapi.SoftResource{Type: shared}
			first.SetID("s1")
			second.SetID("s2")
			second.Set("t", "kept")
			_ = second.Get("u")
			first.RemoveField("u")
			first.AddAttr(jsonapi.Attr{Name: "u2", Type: jsonapi.AttrTypeUint, Nullable: true})
			s2 := &jsonapi.Schema{}
			if s2.AddType(shared.Copy()) == nil {
				pl := jsonapi.MarshalResource(second, "/p", []string{"t", "u2"}, nil)
				b2, err2 := jsonapi.UnmarshalResource(pl, s2)
				var nilUint *uint
				if err2 != nil || b2 == nil || b2.Get("t") != "kept" || b2.Get("u2") != nilUint || b2.Get("id") != "s2" ||
					len(b2.Attrs()) != 2 || second.Get("u2") != nilUint {
					ev.R.AttrsSame = false
				}
			}
			// the same with a kind that is not nullable: the new field reads as its zero value
			first.RemoveField("t")
			first.AddAttr(jsonapi.Attr{Name: "t2", Type: jsonapi.AttrTypeString})
			if second.Get("t2") != "" || len(second.Attrs()) != 2 {
				ev.R.AttrsSame = false
			}
		}
		if got, _ := back.Get(optName).(string); got != "opt" {
			ev.R.AttrsSame = false
		}
		bo, _ := back.Get("o").(string)
		bo2, _ := back.Get("o2").(string)
		ev.R.To1Same = bo == o && bo2 == wantO2 // (an empty relationship next to a set one stays empty)
		// what came back is the caller's: writing through its pointers and slices must not reach
		// anything the next read gets (a shared table of values, a pooled buffer)
		for f, d := range fields {
			if d.Kind != "attr" {
				continue
			}
			rv := reflect.ValueOf(back.Get(f))
			switch {
			case rv.Kind() == reflect.Ptr && !rv.IsNil() && rv.Elem().Kind() != reflect.Slice && rv.Elem().Kind() != reflect.Struct:
				rv.Elem().Set(reflect.Zero(rv.Elem().Type()))
				if rv.Elem().Kind() == reflect.Bool {
					rv.Elem().SetBool(true)
				}
			case rv.Kind() == reflect.Slice && rv.Len() > 0:
				rv.Index(0).Set(reflect.Zero(rv.Index(0).Type()))
			}
		}
		bm, _ := back.Get("m").([]string)
		ev.R.ManySame = reflect.DeepEqual(setOf(bm), setOf(m))
		if _, has := fields["m2"]; has {
			bm2, _ := back.Get("m2").([]string)
			ev.R.ManySame = ev.R.ManySame && reflect.DeepEqual(setOf(bm2), setOf(wantM2))
		}
	})
	if p {
		ev.Ret = "panic"
	}
	return ev
}

func setOf(ids []string) []string {
	seen := map[string]bool{}
	out := []string{}
	for _, x := range ids {
		if !seen[x] {
			seen[x] = true
			out = append(out, x)
		}
	}
	sort.Strings(out)
	return out
}

// ---- C05 robustness ------------------------------------------------------------

type feedEvent struct {
	Ev       string `json:"ev"`
	Entry    string `json:"entry"`
	Cls      string `json:"cls"` // json | notjson
	Out      string `json:"out"` // ok | err | panic | both | neither
	Conforms bool   `json:"conforms"`
	BytesBad bool   `json:"bytesbad"` // a bytes attribute holds a value that is not a base64 string
	Origin   string `json:"origin"`
}

type feedCase struct {
	Fam     string `json:"fam"`
	Mode    string `json:"mode"`
	Impl    string `json:"impl"`
	Entry   string `json:"entry"`
	Payload string `json:"payload"` // base64 of the bytes fed
	Origin  string `json:"origin"`
}

var feedEntries = []string{"UnmarshalDocument", "UnmarshalResource", "UnmarshalPartialResource", "UnmarshalCollection",
	"UnmarshalIdentifier", "UnmarshalIdentifiers", "NewRequestPOST", "NewRequestPATCH", "NewRequestGET"}

// conformsRes: the resource's type exists in the schema and every field holds a value of the declared Go type.
func conformsRes(r jsonapi.Resource, schema *jsonapi.Schema, partial bool) bool {
	if r == nil || reflect.ValueOf(r).IsNil() {
		return false
	}
	name := r.GetType().Name
	if !schema.HasType(name) {
		return false
	}
	st := schema.GetType(name)
	for k, a := range r.Attrs() {
		sa, ok := st.Attrs[k]
		if !ok || sa != a {
			return false
		}
		v := r.Get(k)
		if v == nil {
			if !a.Nullable {
				return false
			}
			continue
		}
		if reflect.TypeOf(v) != reflect.TypeOf(jsonapi.GetZeroValue(a.Type, a.Nullable)) {
			return false
		}
	}
	if !partial && len(r.Attrs()) != len(st.Attrs) {
		return false
	}
	for k, rel := range r.Rels() {
		sr, ok := st.Rels[k]
		if !ok || sr.ToOne != rel.ToOne {
			return false
		}
		v := r.Get(k)
		if rel.ToOne {
			if _, ok := v.(string); !ok {
				return false
			}
		} else if _, ok := v.([]string); !ok {
			return false
		}
	}
	return true
}

func conformsDoc(doc *jsonapi.Document, schema *jsonapi.Schema) bool {
	if doc == nil {
		return false
	}
	switch d := doc.Data.(type) {
	case nil:
	case jsonapi.Resource:
		if !conformsRes(d, schema, false) {
			return false
		}
	case jsonapi.Collection:
		for i := 0; i < d.Len(); i++ {
			if !conformsRes(d.At(i), schema, false) {
				return false
			}
		}
	default:
		return false
	}
	for _, r := range doc.Included {
		if !conformsRes(r, schema, false) {
			return false
		}
	}
	return true
}

// hasBadBytes scans a JSON text for a bytes attribute of an "ak" resource whose value is not a base64 string.
func hasBadBytes(payload []byte) bool {
	var v any
	if json.Unmarshal(payload, &v) != nil {
		return false
	}
	bad := false
	var walk func(x any)
	walk = func(x any) {
		switch t := x.(type) {
		case map[string]any:
			// (encoding/json matches the members of the resource object whatever their case)
			for key, member := range t {
				attrs, ok := member.(map[string]any)
				if !ok || !strings.EqualFold(key, "attributes") {
					continue
				}
				for _, name := range []string{"kbytes", "pbytes"} {
					if val, present := attrs[name]; present {
						s, isStr := val.(string)
						if val == nil {
							continue
						}
						if !isStr || classifyString(s) != "b64" {
							bad = true
						}
					}
				}
			}
			for _, y := range t {
				walk(y)
			}
		case []any:
			for _, y := range t {
				walk(y)
			}
		}
	}
	walk(v)
	return bad
}

func runFeed(c feedCase) feedEvent {
	payload := []byte(mustB64(c.Payload))
	ev := feedEvent{Ev: "feed", Entry: c.Entry, Cls: "notjson", Origin: c.Origin, BytesBad: hasBadBytes(payload)}
	if json.Valid(payload) {
		ev.Cls = "json"
	}
	schema := akSchema(c.Impl)
	if c.Origin == "after-removal" {
		// a schema of its own that held a spare type, served payloads of it, and lost it again: what
		// the schema holds when the call is made decides, whatever was looked up before
		schema = buildAkSchema(c.Impl, true)
		spare := `{"type":"aa0","id":"h1"}`
		for _, pl := range []string{spare, `[` + spare + `]`, `{"data":` + spare + `}`, `{"data":null,"included":[` + spare + `]}`} {
			catch(func() { _, _ = jsonapi.UnmarshalResource([]byte(pl), schema) })
			catch(func() { _, _ = jsonapi.UnmarshalPartialResource([]byte(pl), schema) })
			catch(func() { _, _ = jsonapi.UnmarshalCollection([]byte(pl), schema) })
			catch(func() { _, _ = jsonapi.UnmarshalDocument([]byte(pl), schema) })
			catch(func() { _, _ = jsonapi.UnmarshalIdentifier([]byte(pl), schema) })
		}
		schema.RemoveType("aa0")
	}
	var (
		err      error
		hasRes   bool
		conforms = true
	)
	p, _ := catch(func() {
		switch c.Entry {
		case "UnmarshalDocument":
			doc, e := jsonapi.UnmarshalDocument(payload, schema)
			err, hasRes = e, doc != nil
			if e == nil {
				conforms = conformsDoc(doc, schema)
			}
		case "UnmarshalResource":
			r, e := jsonapi.UnmarshalResource(payload, schema)
			err, hasRes = e, r != nil
			if e == nil {
				conforms = conformsRes(r, schema, false)
			}
		case "UnmarshalPartialResource":
			r, e := jsonapi.UnmarshalPartialResource(payload, schema)
			err, hasRes = e, r != nil
			if e == nil {
				conforms = conformsRes(r, schema, true)
			}
		case "UnmarshalCollection":
			col, e := jsonapi.UnmarshalCollection(payload, schema)
			err, hasRes = e, col != nil
			if e == nil {
				for i := 0; i < col.Len(); i++ {
					if !conformsRes(col.At(i), schema, false) {
						conforms = false
					}
				}
			}
		case "UnmarshalIdentifier":
			id, e := jsonapi.UnmarshalIdentifier(payload, schema)
			err, hasRes = e, id != jsonapi.Identifier{}
			if e == nil {
				conforms = schema.HasType(id.Type) && id.ID != ""
			}
		case "UnmarshalIdentifiers":
			ids, e := jsonapi.UnmarshalIdentifiers(payload, schema)
			err, hasRes = e, len(ids) > 0
			if e == nil {
				hasRes = true
				for _, id := range ids {
					if !schema.HasType(id.Type) || id.ID == "" {
						conforms = false
					}
				}
			}
		default:
			method := strings.TrimPrefix(c.Entry, "NewRequest")
			hr, herr := http.NewRequest(method, "http://x.org/ak/x", bytes.NewReader(payload))
			must(herr)
			// what a client declares about the length of its body is its own business: every other
			// request declares an absurd one (or none), the bytes that arrive are the same
			switch len(payload) % 4 {
			case 1:
				hr.ContentLength = 1 << 62
			case 3:
				hr.ContentLength = -1
			}
			req, e := jsonapi.NewRequest(hr, schema)
			err, hasRes = e, req != nil
			if e == nil && req.Doc != nil {
				conforms = conformsDoc(req.Doc, schema)
			}
		}
	})
	switch {
	case p:
		ev.Out = "panic"
	case err != nil && hasRes:
		ev.Out = "both"
	case err != nil:
		ev.Out = "err"
	case !hasRes && c.Entry != "UnmarshalIdentifier":
		ev.Out = "neither"
	default:
		ev.Out = "ok"
		ev.Conforms = conforms
	}
	if c.Entry == "NewRequestGET" && ev.Out == "ok" {
		ev.Cls = "json" // the body is not read for GET: nothing to reject
	}
	return ev
}

// base payloads as trees
func basePayloads(rng *rand.Rand) map[string]any {
	res := func(id string) map[string]any {
		return map[string]any{
			"type": "ak", "id": id,
			"attributes": map[string]any{"kstring": "s", "pstring": nil, "kint8": 5, "puint64": json.Number("18446744073709551615"),
				"kbool": true, "ktime": "2001-02-03T04:05:06Z", "kbytes": "YWI=", "pbytes": nil, "kuint16": 65535},
			"relationships": map[string]any{
				"o": map[string]any{"data": map[string]any{"type": "ak2", "id": "u"}, "links": map[string]any{"self": "/x"}, "meta": map[string]any{"k": 1}},
				"m": map[string]any{"data": []any{map[string]any{"type": "ak2", "id": "v"}, map[string]any{"type": "ak2", "id": "v"}}},
			},
			"meta":  map[string]any{"rm": "x"},
			"links": map[string]any{"self": "/ak/" + id},
		}
	}
	return map[string]any{
		"document": map[string]any{
			"data":     res("x"),
			"included": []any{map[string]any{"type": "ak2", "id": "u", "attributes": map[string]any{"s": "t"}}, res("y")},
			"meta":     map[string]any{"m": []any{1, "a"}},
			"jsonapi":  map[string]any{"version": "1.0"},
			"links":    map[string]any{"self": "/ak/x"},
		},
		"collection-document": map[string]any{"data": []any{res("x"), res("y")}},
		"errors-document":     map[string]any{"errors": []any{map[string]any{"id": "e", "status": "400", "links": map[string]any{"about": "u"}, "source": map[string]any{"pointer": "/"}, "meta": map[string]any{"a": 1}}}},
		"resource":            res("x"),
		"collection":          []any{res("x"), res("y")},
		"identifier":          map[string]any{"type": "ak", "id": "x"},
		"identifiers":         []any{map[string]any{"type": "ak", "id": "x"}, map[string]any{"type": "ak2", "id": "u"}},
	}
}

var sixKinds = []any{float64(7), "str", true, nil, []any{}, map[string]any{}}

// mutations: every slot of the tree replaced by each of the six JSON kinds, plus key removal
func slotMutations(tree any) []any {
	var out []any
	var clone func(x any) any
	clone = func(x any) any {
		switch t := x.(type) {
		case map[string]any:
			m := map[string]any{}
			for k, v := range t {
				m[k] = clone(v)
			}
			return m
		case []any:
			s := make([]any, len(t))
			for i, v := range t {
				s[i] = clone(v)
			}
			return s
		}
		return x
	}
	type path []any
	var paths []path
	var walk func(x any, p path)
	walk = func(x any, p path) {
		paths = append(paths, append(path{}, p...))
		switch t := x.(type) {
		case map[string]any:
			for _, k := range sortedKeys(t) {
				walk(t[k], append(p, k))
			}
		case []any:
			for i, v := range t {
				walk(v, append(p, i))
			}
		}
	}
	walk(tree, nil)
	get := func(root any, p path) any {
		cur := root
		for _, k := range p {
			switch kk := k.(type) {
			case string:
				cur = cur.(map[string]any)[kk]
			case int:
				cur = cur.([]any)[kk]
			}
		}
		return cur
	}
	set := func(root any, p path, v any, remove bool) any {
		if len(p) == 0 {
			return v
		}
		r := clone(root)
		cur := r
		for i := 0; i < len(p)-1; i++ {
			switch k := p[i].(type) {
			case string:
				cur = cur.(map[string]any)[k]
			case int:
				cur = cur.([]any)[k]
			}
		}
		switch k := p[len(p)-1].(type) {
		case string:
			if remove {
				delete(cur.(map[string]any), k)
			} else {
				cur.(map[string]any)[k] = v
			}
		case int:
			cur.([]any)[k] = v
		}
		return r
	}
	// long values in more bytes than characters (what an error message echoes or truncates)
	wide := []any{strings.Repeat("漢", 25), strings.Repeat("\U0001F600", 20), strings.Repeat("é", 40) + "x"}
	for pi, p := range paths {
		for _, v := range sixKinds {
			out = append(out, set(tree, p, v, false))
		}
		out = append(out, set(tree, p, wide[pi%len(wide)], false))
		// an object gets a member whose name is empty
		if cur, ok := get(tree, p).(map[string]any); ok && len(cur) > 0 {
			out = append(out, set(tree, append(append(path{}, p...), ""), float64(1), false))
		}
		if len(p) > 0 {
			if _, ok := p[len(p)-1].(string); ok {
				out = append(out, set(tree, p, nil, true))
			}
		}
	}
	return out
}

// ---- C13 partial + C06 payload half --------------------------------------------

type relShape struct {
	Name   string   `json:"name"`
	To1    bool     `json:"to1"`
	Shape  string   `json:"shape"` // absent | nodata | null | ident | list | badshape
	Listed []string `json:"listed"`
	Got    []string `json:"got"`
}

type payEvent struct {
	Ev        string     `json:"ev"`
	Impl      string     `json:"impl"`
	Out       string     `json:"out"`  // full unmarshal: accept | reject | panic
	Part      string     `json:"part"` // partial unmarshal: accept | reject | panic
	Rels      []relShape `json:"rels"`
	Present   []string   `json:"present"`  // attribute names present in the payload
	PAttrs    []string   `json:"pattrs"`   // Attrs() of the partial result
	PRels     []string   `json:"prels"`    // Rels() of the partial result
	WantRels  []string   `json:"wantrels"` // relationships whose object carries a data member
	AttrsSame bool       `json:"attrs_same"`
	AbsentZ   bool       `json:"absent_zero"`
	IDType    bool       `json:"idtype_same"`
	Remarshal bool       `json:"remarshal_same"`
	PName     bool       `json:"pname_ok"`
	PDefs     bool       `json:"pdefs_ok"`
	PVals     bool       `json:"pvals_same"`
	Unknown   bool       `json:"unknownrel"`  // the payload has a relationship member the schema does not have
	Trailing  bool       `json:"trailing"`    // something other than white space follows the resource object
	UnknownT  bool       `json:"unknowntype"` // the payload names a type the schema does not have
}

type payCase struct {
	Fam     string            `json:"fam"`
	Mode    string            `json:"mode"`
	Impl    string            `json:"impl"`
	Attrs   map[string]string `json:"attrs"` // name -> raw JSON literal
	Rels    []relShape        `json:"rels"`
	Payload string            `json:"payload"`
	NoID    bool              `json:"noid"` // the payload has no id member (a create request)
	// UnknownRel: shape of a relationship member "zr" the schema does not have ("" = none)
	UnknownRel string `json:"unknownrel"`
	// UnknownRelName: the name of that member ("" = "zr"); "kstring" is an attribute's name in the wrong place
	UnknownRelName string `json:"unknownrelname"`
	NoDataForm     int    `json:"nodataform"`  // which members an object without data carries
	Trailing       string `json:"trailing"`    // text after the resource object (white space is harmless, anything else is not JSON)
	UnknownType    bool   `json:"unknowntype"` // the payload's type is not in the schema
	// NumID: the id member is written as this JSON number ("" = the id is the string "x1"): an id is a string
	NumID string `json:"numid"`
}

var trailings = []string{" \n", ",", "]", " x", " null", "{}", "}", "\x00"}

var noDataForms = []string{`{"links":{"self":"/s"},"meta":{"a":1}}`, `{"links":{"self":"/s"}}`, `{"meta":{"a":1}}`, `{}`}

func renderPayload(c payCase) string {
	var b strings.Builder
	typ := "ak"
	if c.UnknownType {
		typ = "nope"
	}
	if c.NoID {
		b.WriteString(`{"type":"` + typ + `"`)
	} else if c.NumID != "" {
		b.WriteString(`{"type":"` + typ + `","id":` + c.NumID)
	} else {
		b.WriteString(`{"type":"` + typ + `","id":"x1"`)
	}
	if len(c.Attrs) > 0 {
		b.WriteString(`,"attributes":{`)
		for i, k := range sortedKeys(c.Attrs) {
			if i > 0 {
				b.WriteByte(',')
			}
			fmt.Fprintf(&b, "%q:%s", k, c.Attrs[k])
		}
		b.WriteByte('}')
	}
	var rels []string
	all := c.Rels
	if c.UnknownRel != "" {
		name := "zr"
		if c.UnknownRelName != "" {
			name = c.UnknownRelName
		}
		all = append(append([]relShape{}, c.Rels...), relShape{Name: name, Shape: c.UnknownRel, Listed: []string{"u"}})
	}
	for i, r := range all {
		switch r.Shape {
		case "absent":
		case "nodata":
			rels = append(rels, fmt.Sprintf(`%q:%s`, r.Name, noDataForms[(c.NoDataForm+i)%len(noDataForms)]))
		case "null":
			rels = append(rels, fmt.Sprintf(`%q:{"data":null}`, r.Name))
		case "ident":
			rels = append(rels, fmt.Sprintf(`%q:{"data":{"type":"ak2","id":%s}}`, r.Name, jsonQuote(r.Listed[0])))
		case "identbadtype": // an identifier whose type is not the relationship's target type
			rels = append(rels, fmt.Sprintf(`%q:{"data":{"type":"ak","id":%s}}`, r.Name, jsonQuote(r.Listed[0])))
		case "identnotype": // an identifier without type member
			rels = append(rels, fmt.Sprintf(`%q:{"data":{"id":%s}}`, r.Name, jsonQuote(r.Listed[0])))
		case "badtypenoid": // another type, and no id
			rels = append(rels, fmt.Sprintf(`%q:{"data":{"type":"ak"}}`, r.Name))
		case "list":
			var ids []string
			for _, id := range r.Listed {
				ids = append(ids, fmt.Sprintf(`{"type":"ak2","id":%s}`, jsonQuote(id)))
			}
			rels = append(rels, fmt.Sprintf(`%q:{"data":[%s]}`, r.Name, strings.Join(ids, ",")))
		case "badlinks": // members of the wrong JSON kind beside the data
			rels = append(rels, fmt.Sprintf(`%q:{"links":"/x","data":null}`, r.Name))
		case "badmeta":
			rels = append(rels, fmt.Sprintf(`%q:{"meta":3}`, r.Name))
		case "listbadtail": // a list whose later member is of another type
			rels = append(rels, fmt.Sprintf(`%q:{"data":[{"type":"ak2","id":"u"},{"type":"ak","id":"v"}]}`, r.Name))
		case "listbadnoid": // a list with a member of another type that has no id, an empty one, or nothing at all
			rels = append(rels, fmt.Sprintf(`%q:{"data":[%s]}`, r.Name,
				[]string{`{"type":"ak"}`, `{"id":"","type":"ak"}`, `{"type":"ak2","id":"u"},{"type":"ak"}`, `{}`}[(c.NoDataForm+i)%4]))
		case "badshape":
			rels = append(rels, fmt.Sprintf(`%q:{"data":7}`, r.Name))
		}
	}
	if len(rels) > 0 {
		b.WriteString(`,"relationships":{` + strings.Join(rels, ",") + `}`)
	}
	b.WriteByte('}')
	b.WriteString(c.Trailing)
	return b.String()
}

func idsOf(v any) []string {
	switch t := v.(type) {
	case string:
		if t == "" {
			return []string{}
		}
		return []string{t}
	case []string:
		return append([]string{}, t...)
	}
	return []string{"?"}
}

func runPayload(c payCase) payEvent {
	ev := payEvent{Ev: "payload", Impl: c.Impl, Present: sortedKeys(c.Attrs), PAttrs: []string{}, PRels: []string{}, WantRels: []string{},
		Unknown: c.UnknownRel != "", Trailing: strings.TrimSpace(c.Trailing) != "", UnknownT: c.UnknownType}
	schema := akSchema(c.Impl)
	payload := []byte(renderPayload(c))
	for _, r := range c.Rels {
		if r.Shape == "null" || r.Shape == "ident" || r.Shape == "list" || r.Shape == "identbadtype" ||
			r.Shape == "identnotype" || r.Shape == "badtypenoid" || r.Shape == "listbadtail" || r.Shape == "listbadnoid" {
			ev.WantRels = append(ev.WantRels, r.Name)
		}
	}
	sort.Strings(ev.WantRels)
	fields := allKindsFields()
	var full jsonapi.Resource
	var ferr error
	if p, _ := catch(func() { full, ferr = jsonapi.UnmarshalResource(payload, schema) }); p {
		ev.Out = "panic"
	} else if ferr != nil {
		ev.Out = "reject"
	} else {
		ev.Out = "accept"
	}
	ev.Rels = make([]relShape, len(c.Rels))
	for i, r := range c.Rels {
		r.Got = []string{}
		if r.Listed == nil {
			r.Listed = []string{}
		}
		if ev.Out == "accept" {
			r.Got = idsOf(full.Get(r.Name))
		}
		ev.Rels[i] = r
	}
	if ev.Out == "accept" {
		ev.AttrsSame, ev.AbsentZ = true, true
		for f, d := range fields {
			if d.Kind != "attr" {
				continue
			}
			kind := kindOf(d.K)
			got := full.Get(f)
			if raw, ok := c.Attrs[f]; ok {
				want, wok := indepValue(kind, d.Null, json.RawMessage(raw))
				if !wok || !sameMaybeNil(want, got) {
					ev.AttrsSame = false
				}
			} else {
				isNil, r := tableFor(0, 0).rankOf(kind, d.Null, got)
				if !(d.Null && isNil) && !(!d.Null && r == 0) {
					ev.AbsentZ = false
				}
			}
		}
		id, _ := full.Get("id").(string)
		wantID := "x1"
		if c.NoID {
			wantID = "" // nothing may be inherited from an earlier payload
		}
		ev.IDType = id == wantID && full.GetType().Name == "ak"
		// re-marshal: id, type, attributes and linkage come out as the same JSON values
		all, rd := allFieldsOf(full)
		out := jsonapi.MarshalResource(full, "/p", all, rd)
		ev.Remarshal = remarshalSame(c, out)
	}
	var part *jsonapi.SoftResource
	var perr error
	if p, _ := catch(func() { part, perr = jsonapi.UnmarshalPartialResource(payload, schema) }); p {
		ev.Part = "panic"
	} else if perr != nil {
		ev.Part = "reject"
	} else {
		ev.Part = "accept"
		ev.PAttrs = sortedKeys(part.Attrs())
		ev.PRels = sortedKeys(part.Rels())
		st := schema.GetType("ak")
		ev.PName = part.GetType().Name == st.Name
		ev.PDefs, ev.PVals = true, true
		for k, a := range part.Attrs() {
			if st.Attrs[k] != a {
				ev.PDefs = false
			}
			if ev.Out == "accept" && (!sameMaybeNil(full.Get(k), part.Get(k)) || !sameTimeText(full.Get(k), part.Get(k))) {
				ev.PVals = false
			}
		}
		for k, r := range part.Rels() {
			if st.Rels[k] != r {
				ev.PDefs = false
			}
			// (marshaling the full result above sorted its to-many ids in place: compare as multisets)
			if ev.Out == "accept" && !reflect.DeepEqual(sortedIDs(idsOf(full.Get(k))), sortedIDs(idsOf(part.Get(k)))) {
				ev.PVals = false
			}
			// ... and the partial result holds exactly the ids the payload lists, repeated ones included
			for _, rs := range c.Rels {
				if rs.Name == k && (rs.Shape == "list" || rs.Shape == "ident") &&
					!reflect.DeepEqual(sortedIDs(rs.Listed), sortedIDs(idsOf(part.Get(k)))) {
					ev.PVals = false
				}
			}
		}
	}
	return ev
}

// sameTimeText: two decodings of the same bytes that are times are written back as the same text (the
// same instant in another zone is another value to whoever marshals it); anything else passes
func sameTimeText(a, b any) bool {
	tm := func(x any) (time.Time, bool) {
		switch v := x.(type) {
		case time.Time:
			return v, true
		case *time.Time:
			if v != nil {
				return *v, true
			}
		}
		return time.Time{}, false
	}
	ta, oka := tm(a)
	tb, okb := tm(b)
	if !oka || !okb {
		return true
	}
	return ta.Format(time.RFC3339Nano) == tb.Format(time.RFC3339Nano)
}

func sameMaybeNil(a, b any) bool {
	nilOf := func(x any) bool {
		if x == nil {
			return true
		}
		rv := reflect.ValueOf(x)
		return rv.Kind() == reflect.Ptr && rv.IsNil()
	}
	if nilOf(a) || nilOf(b) {
		return nilOf(a) && nilOf(b)
	}
	ra, rb := reflect.ValueOf(a), reflect.ValueOf(b)
	if ra.Kind() == reflect.Ptr {
		a = ra.Elem().Interface()
	}
	if rb.Kind() == reflect.Ptr {
		b = rb.Elem().Interface()
	}
	return sameValue(a, b)
}

// jsonQuote: a text as a JSON string (Go's %q writes Go syntax, which differs for control characters)
func jsonQuote(s string) string {
	b, err := json.Marshal(s)
	must(err)
	return string(b)
}

func remarshalSame(c payCase, out []byte) bool {
	var m map[string]json.RawMessage
	if json.Unmarshal(out, &m) != nil {
		return false
	}
	var id, typ string
	wantID := "x1"
	if c.NoID {
		wantID = ""
	}
	if json.Unmarshal(m["id"], &id) != nil || json.Unmarshal(m["type"], &typ) != nil || id != wantID || typ != "ak" {
		return false
	}
	var attrs map[string]json.RawMessage
	_ = json.Unmarshal(m["attributes"], &attrs)
	fields := allKindsFields()
	for f, raw := range c.Attrs {
		d := fields[f]
		kind := kindOf(d.K)
		a, aok := indepValue(kind, d.Null, json.RawMessage(raw))
		b, bok := indepValue(kind, d.Null, attrs[f])
		if !aok || !bok || !sameMaybeNil(a, b) {
			return false
		}
	}
	var rels map[string]struct {
		Data json.RawMessage `json:"data"`
	}
	_ = json.Unmarshal(m["relationships"], &rels)
	for _, r := range c.Rels {
		var got []string
		data := rels[r.Name].Data
		switch {
		case len(data) == 0 || string(data) == "null":
		case data[0] == '{':
			var iden jsonapi.Identifier
			_ = json.Unmarshal(data, &iden)
			got = []string{iden.ID}
			if iden.Type != "ak2" {
				return false
			}
		default:
			var idens []jsonapi.Identifier
			_ = json.Unmarshal(data, &idens)
			for _, i := range idens {
				got = append(got, i.ID)
				if i.Type != "ak2" {
					return false
				}
			}
		}
		want := []string{}
		if r.Shape == "ident" || r.Shape == "list" {
			want = r.Listed
		}
		if r.Shape == "identbadtype" {
			return false // the payload's linkage names another type: it cannot come out as the same JSON value
		}
		if !reflect.DeepEqual(setOf(got), setOf(want)) {
			return false
		}
	}
	return true
}

// ---- mode dispatch -----------------------------------------------------------------

func codecOtherModes(mode string, rng *rand.Rand, stt *stats, w *evWriter, n int, seed int64, gen string) {
	switch mode {
	case "roundtrip":
		for _, impl := range []string{"soft", "softnf", "wrapn", "wrap", "wrapn", "wrapid"} { // the narrower struct first, and again after the full one; then a struct with an ID of a defined string type
			for _, via := range []string{"resource", "document"} {
				classes := []string{"zero", "nil"}
				for t := 0; t < 3*3+3; t++ { // every rank of every table for all kinds at once, then mixed ranks
					classes = append(classes, "table")
				}
				for i := 0; i < n; i++ {
					classes = append(classes, "random")
				}
				for i, cls := range classes {
					c := rtCase{Fam: "codec", Mode: "roundtrip", Impl: impl, Via: via, Class: cls, Table: i % 3,
						Seed: seed*100003 + int64(i), IDSel: rng.Intn(len(rtIDs))}
					if cls == "table" && i-2 < 9 {
						c.Table, c.Rank = (i-2)/3, 1+(i-2)%3
					}
					if i < len(rtIDs) {
						c.IDSel = i // every id of the vocabulary at least once
					}
					ev := runRoundTrip(c)
					stt.Calls += 2
					stt.class("rt:" + impl + ":" + via)
					stt.class("rt:" + cls)
					stt.distinct(fmt.Sprint(c))
					w.Emit(ev, c)
				}
			}
		}
		stt.Rule = "distinct (implementation, entry point, value class, seed) cases, each covering all 28 kinds and both relationship cardinalities"
	case "robust":
		bases := basePayloads(rng)
		emit := func(impl, entry, origin string, payload []byte) {
			c := feedCase{Fam: "codec", Mode: "robust", Impl: impl, Entry: entry, Payload: b64(string(payload)), Origin: origin}
			w.Inflight(c)
			ev := runFeed(c)
			stt.Calls++
			stt.class("entry:" + entry)
			stt.class("out:" + ev.Out)
			stt.class("cls:" + ev.Cls)
			stt.class("origin:" + origin)
			if strings.HasPrefix(origin, "valid") {
				stt.class("valid:" + ev.Out)
			}
			if origin == "valid-home" {
				// a base payload fed to the entry point it is meant for must be accepted,
				// or its mutations explore nothing behind the first refusal
				stt.class("home:" + entry + ":" + ev.Out)
			}
			stt.distinct(entry + string(payload))
			w.Emit(ev, c)
		}
		var corpus [][]byte
		for _, name := range sortedKeys(bases) {
			tree := bases[name]
			valid, _ := json.Marshal(tree)
			corpus = append(corpus, valid)
			home := map[string][]string{
				"document": {"UnmarshalDocument", "NewRequestPOST", "NewRequestPATCH"}, "collection-document": {"UnmarshalDocument"},
				"errors-document": {"UnmarshalDocument"}, "resource": {"UnmarshalResource", "UnmarshalPartialResource"},
				"collection": {"UnmarshalCollection"}, "identifier": {"UnmarshalIdentifier"}, "identifiers": {"UnmarshalIdentifiers"},
			}
			for _, entry := range feedEntries {
				origin := "valid"
				for _, h := range home[name] {
					if h == entry {
						origin = "valid-home"
					}
				}
				for _, impl := range []string{"soft", "wrap", "wrap2"} {
					emit(impl, entry, origin, valid)
				}
			}
			muts := slotMutations(tree)
			for mi, m := range muts {
				b, _ := json.Marshal(m)
				impls := []string{"soft", "wrap"} // the two implementations refuse ill-typed values differently
				if mi%4 == 0 {
					impls = append(impls, "wrap2") // two Go types under one type name take turns in the same process
				}
				for _, impl := range impls {
					for _, entry := range feedEntries {
						emit(impl, entry, "slot", b)
					}
				}
			}
			// unknown / missing type, unknown field, duplicate key
			for _, extra := range []string{
				strings.Replace(string(valid), `"type":"ak"`, `"type":"nope"`, 1),
				strings.Replace(string(valid), `"type":"ak",`, ``, 1),
				strings.Replace(string(valid), `"kstring":"s"`, `"zz":1`, 1),
				strings.Replace(string(valid), `"kstring":"s"`, `"kstring":"s","kstring":5`, 1),
				strings.Replace(string(valid), `"id":"x"`, `"id":"x","id":"y"`, 1),
				strings.Replace(string(valid), `"kbytes":"YWI="`, `"kbytes":"not base64!"`, 1),
			} {
				for _, entry := range feedEntries {
					emit("soft", entry, "edit", []byte(extra))
				}
			}
			// names in the wrong place: a relationship called like an attribute of the type (with one
			// identifier, with a list), an attribute called like a relationship
			for _, extra := range []string{
				`{"type":"ak","id":"x","relationships":{"kstring":{"data":{"type":"ak2","id":"u"}}}}`,
				`{"type":"ak","id":"x","relationships":{"kint8":{"data":[{"type":"ak2","id":"u"},{"type":"ak2","id":"v"}]}}}`,
				`{"type":"ak","id":"x","relationships":{"kbytes":{"data":null}}}`,
				`{"type":"ak","id":"x","attributes":{"o":"u"}}`,
				`{"type":"ak","id":"x","attributes":{"m":["u"]}}`,
			} {
				for _, impl := range []string{"soft", "wrap"} {
					for _, entry := range feedEntries {
						emit(impl, entry, "misplaced", []byte(extra))
					}
				}
			}
			// inclusions that repeat: the same resource twice, the same pair with other content, entries
			// without identity
			for _, extra := range []string{
				`{"data":{"type":"ak","id":"x"},"included":[{"type":"ak2","id":"u"},{"type":"ak2","id":"u"}]}`,
				`{"data":{"type":"ak","id":"x"},"included":[{"type":"ak2","id":"u","attributes":{"s":"a"}},{"type":"ak3","id":"k"},{"type":"ak2","id":"u","attributes":{"s":"b"}}]}`,
				`{"data":[{"type":"ak","id":"x"}],"included":[{},{}]}`,
				`{"data":{"type":"ak","id":"x"},"included":[null,null]}`,
				`{"data":{"type":"ak","id":"x"},"included":[{"type":"ak","id":"x"},{"type":"ak","id":"x"}]}`,
			} {
				for _, impl := range []string{"soft", "wrap"} {
					for _, entry := range feedEntries {
						emit(impl, entry, "repeated-inclusion", []byte(extra))
					}
				}
			}
			// every strict prefix (thinned for long payloads)
			step := 1 + len(valid)/120
			for i := 0; i < len(valid); i += step {
				for _, entry := range feedEntries[:6] {
					emit("wrap", entry, "prefix", valid[:i])
				}
			}
		}
		// the shortest byte strings: every single byte, and every string of two and three bytes over the
		// bytes that begin something (an object, an array, a string, a literal, a byte order mark, a
		// UTF-8 lead byte) - whatever peeks at the first bytes of a body finds them here
		marks := []byte{0x00, ' ', '{', '[', '"', 'n', 't', '-', '1', 0xEF, 0xBB, 0xBF, 0xFE, 0xFF, 0xC3, 0x80}
		var tiny [][]byte
		for b := 0; b < 256; b++ {
			tiny = append(tiny, []byte{byte(b)})
		}
		for _, x := range marks {
			for _, y := range marks {
				tiny = append(tiny, []byte{x, y})
				if x >= 0x80 || x == '{' {
					for _, z := range marks {
						tiny = append(tiny, []byte{x, y, z})
					}
				}
			}
		}
		for _, b := range tiny {
			for _, entry := range feedEntries {
				emit("soft", entry, "tiny", b)
			}
		}
		// payloads of a type that the schema held, served, and lost again
		for _, impl := range []string{"soft", "wrap"} {
			spare := `{"type":"aa0","id":"h1"}`
			for _, pl := range []string{spare, `[` + spare + `]`, `{"data":` + spare + `}`, `{"data":[` + spare + `]}`,
				`{"data":null,"included":[` + spare + `]}`, `[` + spare + `,` + spare + `]`} {
				for _, entry := range feedEntries {
					emit(impl, entry, "after-removal", []byte(pl))
				}
			}
		}
		// large collections (40, 64 and 200 members), sound ones and ones with a member of an unknown
		// type in the middle: however the members are worked through, each of them is
		for _, n := range []int{32, 40, 64, 200} {
			for _, bad := range []int{-1, n / 2, 0} {
				var members []string
				for i := 0; i < n; i++ {
					typ := "ak3"
					if i == bad {
						typ = "nope"
					}
					members = append(members, fmt.Sprintf(`{"type":"%s","id":"m%d","attributes":{"t":"v%d"}}`, typ, i, i))
				}
				arr := "[" + strings.Join(members, ",") + "]"
				for _, pl := range []string{arr, `{"data":` + arr + `}`, `{"data":null,"included":` + arr + `}`} {
					for _, entry := range []string{"UnmarshalCollection", "UnmarshalDocument", "NewRequestPOST"} {
						emit("soft", entry, "large", []byte(pl))
					}
				}
			}
		}
		deep := []byte(strings.Repeat(`{"data":`, 3000) + "1" + strings.Repeat("}", 3000))
		deepArr := []byte(strings.Repeat("[", 20000) + strings.Repeat("]", 20000))
		for _, entry := range feedEntries {
			emit("soft", entry, "deep", deep)
			emit("soft", entry, "deep", deepArr)
		}
		for i := 0; i < n; i++ {
			src := corpus[rng.Intn(len(corpus))]
			b := append([]byte{}, src...)
			switch rng.Intn(4) {
			case 0: // bit flips
				for k := 1 + rng.Intn(3); k > 0; k-- {
					b[rng.Intn(len(b))] ^= 1 << uint(rng.Intn(8))
				}
			case 1: // splice
				o := corpus[rng.Intn(len(corpus))]
				i, j := rng.Intn(len(b)), rng.Intn(len(o))
				b = append(append([]byte{}, b[:i]...), o[j:]...)
			case 2: // random bytes
				b = randBytes(rng, rng.Intn(64))
			case 3: // delete a span
				i := rng.Intn(len(b))
				j := i + rng.Intn(len(b)-i)
				b = append(append([]byte{}, b[:i]...), b[j:]...)
			}
			emit([]string{"soft", "wrap"}[rng.Intn(2)], feedEntries[rng.Intn(len(feedEntries))], "random", b)
		}
		stt.Rule = "distinct (entry point, byte string) pairs"
	case "partial":
		fields := allKindsFields()
		attrNames := []string{}
		for f, d := range fields {
			if d.Kind == "attr" {
				attrNames = append(attrNames, f)
			}
		}
		sort.Strings(attrNames)
		okLit := func(f string) string {
			d := fields[f]
			switch classOf(kindOf(d.K)) {
			case "seq":
				if d.K == "bytes" {
					return `"YWI="`
				}
				return `"v\u00e9"`
			case "bool":
				return "true"
			}
			if d.K == "time" {
				return `"2001-02-03T04:05:06.5+02:00"`
			}
			return "7"
		}
		zeroLit := func(f string) string {
			d := fields[f]
			switch classOf(kindOf(d.K)) {
			case "seq":
				return `""`
			case "bool":
				return "false"
			}
			if d.K == "time" {
				return `"0001-01-01T00:00:00Z"`
			}
			return "0"
		}
		shapes := []string{"absent", "nodata", "null", "ident", "list", "badshape", "identbadtype"}
		for i := 0; i < n; i++ {
			c := payCase{Fam: "codec", Mode: "partial", Impl: []string{"soft", "wrap", "soft", "wrap2"}[i%4], Attrs: map[string]string{}}
			// a subset of the attributes: small subsets systematically first, then random
			for _, f := range attrNames {
				if rng.Intn(6) == 0 {
					c.Attrs[f] = okLit(f)
					if fields[f].Null && rng.Intn(3) == 0 {
						c.Attrs[f] = "null"
					} else if rng.Intn(3) == 0 {
						c.Attrs[f] = zeroLit(f) // the value that is there but empty: "", 0, false, the first instant
					}
				}
			}
			if i < len(attrNames) {
				c.Attrs = map[string]string{attrNames[i]: okLit(attrNames[i])}
			}
			switch rng.Intn(12) {
			case 0:
				c.Attrs["kint8"] = "300" // out of range: both must refuse
			case 1:
				c.Attrs["zz"] = "1" // unknown field
			case 5:
				c.Attrs["o"] = `"u"` // a name the type has, as a relationship: no attribute of that name
			case 6:
				c.Attrs["m"] = `["u"]`
			case 2:
				c.Attrs["kstring"] = "null"
			case 3:
				c.Attrs["kbytes"] = "null" // what full unmarshaling makes of it is C06's matter; partial must agree
			case 4:
				c.Attrs["pbytes"] = "null"
			}
			so, sm := shapes[rng.Intn(len(shapes))], shapes[rng.Intn(len(shapes))]
			if i < 49 {
				so, sm = shapes[i%7], shapes[i/7]
			}
			// (the empty id is an id like any other inside a list: it is listed, so it is held)
			// (... and so are ids with characters JSON must escape: a control character, DEL, a quote, a backslash)
			listed := [][]string{{"u"}, {"v", "u"}, {"u", "u", "w"}, {}, {"", "u", ""}, {""}, {"c\x01l", "u"}, {"d\x7fl", "b\a", "q\"r\\s", "t\tb"}}[rng.Intn(8)]
			ro := relShape{Name: "o", To1: true, Shape: so, Listed: []string{}}
			rm := relShape{Name: "m", To1: false, Shape: sm, Listed: []string{}}
			if so == "ident" || so == "identbadtype" {
				ro.Listed = []string{"u"}
			}
			if so == "list" {
				ro.Listed = listed
			}
			if sm == "ident" || sm == "identbadtype" {
				rm.Listed = []string{"v"}
			}
			if sm == "list" {
				rm.Listed = listed
			}
			c.Rels = []relShape{ro, rm}
			c.NoID = rng.Intn(5) == 0
			// the second to-one / to-many relationships: map iteration decides which is decoded first
			so2, sm2 := shapes[rng.Intn(len(shapes))], shapes[rng.Intn(len(shapes))]
			switch rng.Intn(10) { // rarer identifier forms, for the accept-equivalence of the two entry points
			case 0:
				so2 = "identnotype"
			case 1:
				so2 = "badtypenoid"
			case 2:
				sm2 = "listbadtail"
			}

			if i >= 49*8 && i < 49*8+40 {
				// a payload that names every attribute and every relationship, some of them without data
				c.Attrs = map[string]string{}
				for _, f := range attrNames {
					c.Attrs[f] = okLit(f)
				}
				so, sm = []string{"nodata", "ident", "null"}[i%3], []string{"nodata", "list"}[i%2]
				so2, sm2 = []string{"ident", "nodata"}[i%2], []string{"list", "nodata", "null"}[(i/2)%3]
				ro.Shape, rm.Shape, ro.Listed, rm.Listed = so, sm, []string{}, []string{}
				if so == "ident" {
					ro.Listed = []string{"u"}
				}
				if sm == "list" {
					rm.Listed = []string{"v", "u"}
				}
				c.Rels = []relShape{ro, rm}
			}
			if i < 49*8 {
				// every pair of shapes for the two to-one (and the two to-many) relationships, eight times each:
				// which of the two is decoded first is the runtime's choice (map iteration)
				k := i % 49
				so, so2 = shapes[k%7], shapes[k/7]
				sm, sm2 = shapes[(k+i/49)%7], shapes[(k/7+i/49)%7]
				ro.Shape, rm.Shape = so, sm
				ro.Listed, rm.Listed = []string{}, []string{}
				if so == "ident" || so == "identbadtype" {
					ro.Listed = []string{"u"}
				}
				if so == "list" {
					ro.Listed = []string{"v", "u"}
				}
				if sm == "ident" || sm == "identbadtype" {
					rm.Listed = []string{"v"}
				}
				if sm == "list" {
					rm.Listed = []string{"u", "u", "w"}
				}
				c.Rels = []relShape{ro, rm}
			}
			if i%17 == 3 {
				sm2 = "listbadtail"
			}

			if i%19 == 5 {
				so2 = []string{"badlinks", "badmeta"}[(i/19)%2]
				stt.class("shape:badlinks-or-meta")
			}
			if sm2 == "listbadtail" {
				stt.class("shape:listbadtail")
			}
			ro2 := relShape{Name: "o2", To1: true, Shape: so2, Listed: []string{}}
			rm2 := relShape{Name: "m2", To1: false, Shape: sm2, Listed: []string{}}
			if so2 == "ident" || so2 == "identbadtype" || so2 == "identnotype" {
				ro2.Listed = []string{"w"}
			}
			if so2 == "list" {
				ro2.Listed = []string{"w", "x"}
			}
			if sm2 == "ident" || sm2 == "identbadtype" {
				rm2.Listed = []string{"w"}
			}
			if sm2 == "list" {
				rm2.Listed = []string{"x", "w", "x"}
			}
			if i%3 != 0 || i < 49*8+40 {
				c.Rels = append(c.Rels, ro2, rm2)
			}
			if i%23 == 7 {
				// a type the schema does not have, and nothing else to stumble on
				c.Attrs, c.Rels, c.UnknownType = map[string]string{}, nil, true
				stt.class("unknown-type-bare")
			}
			c.NoDataForm = rng.Intn(len(noDataForms))
			if rng.Intn(10) == 0 {
				c.Trailing = trailings[rng.Intn(len(trailings))]
				stt.class("trailing")
			}
			if rng.Intn(8) == 0 {
				c.UnknownRel = []string{"nodata", "nodata", "null", "ident", "list"}[rng.Intn(5)]
				stt.class("unknownrel:" + c.UnknownRel)
				if rng.Intn(3) == 0 {
					c.UnknownRelName = "kstring" // a name the type has, as an attribute: no relationship of that name
				}
			}
			switch {
			case i%31 == 9:
				// a list with a member of another type that has no id (or an empty one): nothing else to stumble on
				c.Attrs, c.Trailing, c.UnknownRel, c.UnknownType = map[string]string{}, "", "", false
				c.Rels = []relShape{{Name: "o", To1: true, Shape: "ident", Listed: []string{"u"}}, {Name: "m", To1: false, Shape: "listbadnoid", Listed: []string{}}}
				stt.class("shape:listbadnoid")
			case i%29 == 11:
				// an id written as a JSON number on an otherwise blameless payload: an id is a string
				c.Attrs, c.Trailing, c.UnknownRel, c.UnknownType, c.NoID = map[string]string{"kstring": `"s"`}, "", "", false, false
				c.Rels = []relShape{{Name: "o", To1: true, Shape: "ident", Listed: []string{"u"}}, {Name: "m", To1: false, Shape: "list", Listed: []string{"v", "u"}}}
				c.NumID = []string{"42", "-7", "0", "1e3", "4.50"}[(i/29)%5]
				stt.class("numeric-id")
			}
			ev := runPayload(c)
			stt.Calls += 3
			stt.class("full:" + ev.Out)
			stt.class("part:" + ev.Part)
			stt.class("shape:" + so)
			stt.class("impl:" + c.Impl)
			stt.distinct(renderPayload(c))
			w.Emit(ev, c)
		}
		for _, impl := range []string{"soft", "wrap"} {
			for _, ud := range [][2]bool{{true, true}, {true, false}, {false, true}, {false, false}} {
				c := pairCase{Fam: "codec", Mode: "selfpair", Impl: impl, Up: ud[0], Down: ud[1]}
				ev := runSelfPair(c)
				stt.Calls += 2
				stt.class("selfpair:" + ev.Part)
				w.Emit(ev, c)
			}
		}
		// payloads of the other types of the schema, along the life of a schema object: a type without any
		// relationship, and a type that is removed and comes back with other fields
		for _, impl := range []string{"soft", "wrap"} {
			for _, sc := range ptypeScenarios {
				c := ptCase{Fam: "codec", Mode: "ptype", Impl: impl, Scenario: sc}
				ev := runPType(c)
				stt.Calls += 2
				stt.class("ptype:" + ev.Part)
				w.Emit(ev, c)
			}
		}
		// arrays of resources of several types (C06 speaks of every accepted resource payload, also
		// inside a collection): every member keeps its own type and values
		colTypes := [][]string{{"ak2", "ak2", "ak3", "ak2"}, {"ak3", "ak2"}, {"ak2", "ak3", "ak3", "ak2", "ak"}, {"ak"},
			{"ak3", "ak3"}, {"ak", "ak2", "ak", "ak3"}, {}}
		// ... and long ones (8, 31, 32, 33, 64, 100, 257 members of the three types in turn)
		for _, n := range []int{8, 31, 32, 33, 64, 100, 257} {
			ts := make([]string, n)
			for i := range ts {
				ts[i] = []string{"ak2", "ak", "ak3", "ak2", "ak3"}[(i+n)%5]
			}
			colTypes = append(colTypes, ts)
		}
		for _, impl := range []string{"soft", "wrap"} {
			for _, via := range []string{"collection", "document"} {
				for _, ts := range colTypes {
					c := colCase{Fam: "codec", Mode: "colpayload", Impl: impl, Via: via, Types: ts}
					ev := runColPayload(c)
					stt.Calls++
					stt.class("col:" + ev.Out)
					w.Emit(ev, c)
				}
			}
		}
		stt.Rule = "distinct resource payloads (attribute subset with literals, relationship object shapes)"
	default:
		infra("unknown codec mode %q", mode)
	}
}

func mustB64(s string) string {
	b, err := base64Decode(s)
	must(err)
	return string(b)
}

// ---- C06: members of a collection payload ----------------------------------------

type colCase struct {
	Fam   string   `json:"fam"`
	Mode  string   `json:"mode"`
	Impl  string   `json:"impl"`
	Via   string   `json:"via"` // collection | document
	Types []string `json:"types"`
}

type colEvent struct {
	Ev        string `json:"ev"`
	Impl      string `json:"impl"`
	Via       string `json:"via"`
	N         int    `json:"n"`
	Out       string `json:"out"` // accept | reject | panic
	CountSame bool   `json:"count_same"`
	TypesSame bool   `json:"types_same"`
	IDsSame   bool   `json:"ids_same"`
	ValsSame  bool   `json:"vals_same"`
}

func runColPayload(c colCase) colEvent {
	ev := colEvent{Ev: "colpayload", Impl: c.Impl, Via: c.Via, N: len(c.Types)}
	schema := buildAkSchema(c.Impl, true)
	var members []string
	for i, t := range c.Types {
		switch t {
		case "ak2":
			members = append(members, fmt.Sprintf(`{"type":"ak2","id":"r%d","attributes":{"s":"v%d"},"relationships":{"back":{"data":{"type":"ak","id":"b%d"}}}}`, i, i, i))
		case "ak3":
			members = append(members, fmt.Sprintf(`{"type":"ak3","id":"r%d","attributes":{"t":"w%d","u":%d}}`, i, i, i+1))
		default:
			members = append(members, fmt.Sprintf(`{"type":"ak","id":"r%d","attributes":{"kstring":"k%d","kint8":%d}}`, i, i, i%100+1))
		}
	}
	payload := "[" + strings.Join(members, ",") + "]"
	var col jsonapi.Collection
	var err error
	p, _ := catch(func() {
		if c.Via == "document" {
			var doc *jsonapi.Document
			doc, err = jsonapi.UnmarshalDocument([]byte(`{"data":`+payload+`}`), schema)
			if err == nil {
				col, _ = doc.Data.(jsonapi.Collection)
			}
		} else {
			col, err = jsonapi.UnmarshalCollection([]byte(payload), schema)
		}
	})
	switch {
	case p:
		ev.Out = "panic"
		return ev
	case err != nil || col == nil || reflectIsNil(col):
		ev.Out = "reject"
		return ev
	}
	ev.Out = "accept"
	p, _ = catch(func() {
		// what was read is the caller's: a later edit of the schema (a type nobody uses goes away)
		// does not reach into it
		schema.RemoveType("aa0")
		ev.CountSame = col.Len() == len(c.Types)
		ev.TypesSame, ev.IDsSame, ev.ValsSame = true, true, true
		for i, t := range c.Types {
			if i >= col.Len() {
				break
			}
			r := col.At(i)
			if r == nil || reflectIsNil(r) {
				ev.TypesSame, ev.IDsSame, ev.ValsSame = false, false, false // a member that is not there
				continue
			}
			if r.GetType().Name != t {
				ev.TypesSame = false
				continue // the fields below are those of the listed type
			}
			if r.Get("id") != fmt.Sprintf("r%d", i) {
				ev.IDsSame = false
			}
			switch t {
			case "ak2":
				ev.ValsSame = ev.ValsSame && r.Get("s") == fmt.Sprintf("v%d", i) && r.Get("back") == fmt.Sprintf("b%d", i)
			case "ak3":
				u, _ := r.Get("u").(*uint)
				ev.ValsSame = ev.ValsSame && r.Get("t") == fmt.Sprintf("w%d", i) && u != nil && *u == uint(i+1)
			default:
				ev.ValsSame = ev.ValsSame && r.Get("kstring") == fmt.Sprintf("k%d", i) && r.Get("kint8") == int8(i%100+1)
			}
		}
	})
	if p {
		ev.Out = "panic"
	}
	return ev
}

// ---- C13: the two sides of a relationship of a type with itself, in one payload ------------

type pairCase struct {
	Fam  string `json:"fam"`
	Mode string `json:"mode"`
	Impl string `json:"impl"`
	Up   bool   `json:"up"`   // the payload carries data for "up"
	Down bool   `json:"down"` // ... for "down"
}

type pairEvent struct {
	Ev     string   `json:"ev"`
	Impl   string   `json:"impl"`
	Out    string   `json:"out"`
	Part   string   `json:"part"`
	Want   []string `json:"want"`  // the relationships that carry data
	PRels  []string `json:"prels"` // Rels() of the partial result
	ValsOK bool     `json:"vals_ok"`
}

func runSelfPair(c pairCase) pairEvent {
	ev := pairEvent{Ev: "selfpair", Impl: c.Impl, Want: []string{}, PRels: []string{}}
	schema := akSchema(c.Impl)
	var rels []string
	if c.Down {
		rels = append(rels, `"down":{"data":[{"type":"ak2","id":"k2"},{"type":"ak2","id":"k1"}]}`)
		ev.Want = append(ev.Want, "down")
	}
	if c.Up {
		rels = append(rels, `"up":{"data":{"type":"ak2","id":"p"}}`)
		ev.Want = append(ev.Want, "up")
	}
	payload := []byte(`{"type":"ak2","id":"s1","attributes":{"s":"v"},"relationships":{` + strings.Join(rels, ",") + `}}`)
	var full jsonapi.Resource
	var part *jsonapi.SoftResource
	var ferr, perr error
	if p, _ := catch(func() { full, ferr = jsonapi.UnmarshalResource(payload, schema) }); p {
		ev.Out = "panic"
	} else if ferr != nil {
		ev.Out = "reject"
	} else {
		ev.Out = "accept"
	}
	if p, _ := catch(func() { part, perr = jsonapi.UnmarshalPartialResource(payload, schema) }); p {
		ev.Part = "panic"
	} else if perr != nil {
		ev.Part = "reject"
	} else {
		ev.Part = "accept"
		ev.PRels = sortedKeys(part.Rels())
		ev.ValsOK = part.Get("s") == "v"
		for k, r := range part.Rels() { // each with the schema's definition, inverse side included
			if schema.GetType("ak2").Rels[k] != r {
				ev.ValsOK = false
			}
		}
		if c.Up {
			ev.ValsOK = ev.ValsOK && part.Get("up") == "p" && (ev.Out != "accept" || full.Get("up") == "p")
		}
		if c.Down {
			ev.ValsOK = ev.ValsOK && reflect.DeepEqual(sortedIDs(idsOf(part.Get("down"))), []string{"k1", "k2"})
		}
	}
	return ev
}

// ---- C13: payloads of the smaller types, along the life of one schema object ---------------

type ptCase struct {
	Fam      string `json:"fam"`
	Mode     string `json:"mode"`
	Impl     string `json:"impl"`
	Scenario string `json:"scenario"`
}

// what the payload is with respect to the schema at the moment of the call is a fact of the
// scenario's construction; whether that makes it acceptable is for the specification to say
type ptEvent struct {
	Ev          string   `json:"ev"`
	Impl        string   `json:"impl"`
	Scenario    string   `json:"scenario"`
	TypeKnown   bool     `json:"typeknown"`   // the payload's type is in the schema when the call is made
	UnknownAttr bool     `json:"unknownattr"` // it names an attribute the type does not have (then)
	UnknownRel  bool     `json:"unknownrel"`  // it names a relationship the type does not have (then)
	Out         string   `json:"out"`
	Part        string   `json:"part"`
	WantAttrs   []string `json:"wantattrs"` // the attributes in the payload
	WantRels    []string `json:"wantrels"`  // the relationships that carry data
	PAttrs      []string `json:"pattrs"`
	PRels       []string `json:"prels"`
	PName       string   `json:"pname"`
	TName       string   `json:"tname"`
	ValsOK      bool     `json:"vals_ok"`
}

var ptypeScenarios = []string{"norels:plain", "norels:emptyrels", "norels:unknownrel-ident", "norels:unknownrel-nodata",
	"norels:unknownattr", "spare:first", "spare:removed", "spare:back-new-field", "spare:back-old-field",
	"spare:back-rel", "spare:back-old-rel", "dup:both", "dup:attr-only", "dup:rel-only", "dupint:both", "dupint:attr-only"}

func runPType(c ptCase) ptEvent {
	ev := ptEvent{Ev: "ptype", Impl: c.Impl, Scenario: c.Scenario, TypeKnown: true, WantAttrs: []string{}, WantRels: []string{},
		PAttrs: []string{}, PRels: []string{}}
	s := buildAkSchema(c.Impl, true) // a schema of its own, with the spare type aa0 (no field) in front
	call := func(payload string) (jsonapi.Resource, *jsonapi.SoftResource) {
		var full jsonapi.Resource
		var part *jsonapi.SoftResource
		var ferr, perr error
		if p, _ := catch(func() { full, ferr = jsonapi.UnmarshalResource([]byte(payload), s) }); p {
			ev.Out = "panic"
		} else if ferr != nil {
			ev.Out = "reject"
		} else {
			ev.Out = "accept"
		}
		if p, _ := catch(func() { part, perr = jsonapi.UnmarshalPartialResource([]byte(payload), s) }); p {
			ev.Part = "panic"
		} else if perr != nil {
			ev.Part = "reject"
		} else {
			ev.Part = "accept"
		}
		return full, part
	}
	quiet := func(payload string) { // a call of the history: whatever it does is for the judged call to show
		catch(func() { _, _ = jsonapi.UnmarshalResource([]byte(payload), s) })
		catch(func() { _, _ = jsonapi.UnmarshalPartialResource([]byte(payload), s) })
	}
	var payload string
	wantVals := map[string]any{}
	switch c.Scenario {
	case "norels:plain":
		ev.TName, ev.WantAttrs = "ak3", []string{"t"}
		payload, wantVals["t"] = `{"type":"ak3","id":"n1","attributes":{"t":"v"}}`, "v"
	case "norels:emptyrels":
		ev.TName, ev.WantAttrs = "ak3", []string{"t"}
		payload, wantVals["t"] = `{"type":"ak3","id":"n1","attributes":{"t":"v"},"relationships":{}}`, "v"
	case "norels:unknownrel-ident":
		ev.TName, ev.WantAttrs, ev.UnknownRel = "ak3", []string{"t"}, true
		payload = `{"type":"ak3","id":"n1","attributes":{"t":"v"},"relationships":{"zz":{"data":{"type":"ak2","id":"q"}}}}`
	case "norels:unknownrel-nodata":
		ev.TName, ev.WantAttrs, ev.UnknownRel = "ak3", []string{"t"}, true
		payload = `{"type":"ak3","id":"n1","attributes":{"t":"v"},"relationships":{"zz":{"links":{"self":"/x"}}}}`
	case "norels:unknownattr":
		ev.TName, ev.WantAttrs, ev.UnknownAttr = "ak3", []string{"t", "zz"}, true
		payload = `{"type":"ak3","id":"n1","attributes":{"t":"v","zz":1}}`
	case "dup:both", "dup:attr-only", "dup:rel-only", "dupint:both", "dupint:attr-only":
		// a soft type in which an attribute and a relationship carry the same name (Schema.AddAttr and
		// AddRel build it): what a payload names is reported, kind by kind
		ev.TName = "t11"
		must(s.AddType(jsonapi.Type{Name: "t11"}))
		dupKind := jsonapi.AttrTypeString
		if strings.HasPrefix(c.Scenario, "dupint:") {
			dupKind = jsonapi.AttrTypeInt // (a name looked up among the attributes first finds a number here, not an id)
		}
		must(s.AddAttr("t11", jsonapi.Attr{Name: "dup", Type: dupKind}))
		must(s.AddAttr("t11", jsonapi.Attr{Name: "k", Type: jsonapi.AttrTypeString}))
		if err := s.AddRel("t11", jsonapi.Rel{FromType: "t11", FromName: "dup", ToOne: true, ToType: "ak3"}); err != nil {
			infra("the library refuses a relationship named like an attribute: the scenario has no object")
		}
		attrs, rels := `"attributes":{"dup":"x","k":"kv"}`, `"relationships":{"dup":{"data":{"type":"ak3","id":"r"}}}`
		if dupKind == jsonapi.AttrTypeInt {
			attrs = `"attributes":{"dup":7,"k":"kv"}`
			wantVals["dup"] = 7
		}
		switch c.Scenario {
		case "dup:both", "dupint:both":
			ev.WantAttrs, ev.WantRels = []string{"dup", "k"}, []string{"dup"}
			payload = `{"type":"t11","id":"h1",` + attrs + `,` + rels + `}`
		case "dup:attr-only", "dupint:attr-only":
			ev.WantAttrs = []string{"dup", "k"}
			payload = `{"type":"t11","id":"h1",` + attrs + `}`
		default:
			ev.WantRels = []string{"dup"}
			payload = `{"type":"t11","id":"h1",` + rels + `}`
		}
		wantVals["k"] = "kv"
		if c.Scenario == "dup:rel-only" {
			delete(wantVals, "k")
		}
	default:
		// the spare type: read once as it is, removed, and (for the "back" scenarios) added again with
		// one attribute "b" and one relationship "rb" - an earlier answer is no answer for a later call
		ev.TName = "aa0"
		first := `{"type":"aa0","id":"h1"}`
		if c.Scenario == "spare:first" {
			payload = first
			break
		}
		quiet(first)
		s.RemoveType("aa0")
		if c.Scenario == "spare:removed" {
			ev.TypeKnown = false
			payload = first
			break
		}
		quiet(first)
		back := jsonapi.Type{Name: "aa0"}
		must(back.AddAttr(jsonapi.Attr{Name: "b", Type: jsonapi.AttrTypeString}))
		must(back.AddRel(jsonapi.Rel{FromType: "aa0", FromName: "rb", ToOne: true, ToType: "ak3"}))
		if err := s.AddType(back); err != nil {
			infra("the spare type cannot be added again: %v", err)
		}
		switch c.Scenario {
		case "spare:back-new-field":
			ev.WantAttrs = []string{"b"}
			payload, wantVals["b"] = `{"type":"aa0","id":"h1","attributes":{"b":"bv"}}`, "bv"
		case "spare:back-old-field":
			ev.WantAttrs, ev.UnknownAttr = []string{"zx"}, true
			payload = `{"type":"aa0","id":"h1","attributes":{"zx":"v"}}`
		case "spare:back-rel":
			ev.WantRels = []string{"rb"}
			payload, wantVals["rb"] = `{"type":"aa0","id":"h1","relationships":{"rb":{"data":{"type":"ak3","id":"k"}}}}`, "k"
		case "spare:back-old-rel":
			ev.UnknownRel = true
			payload = `{"type":"aa0","id":"h1","relationships":{"zr":{"data":null}}}`
		default:
			infra("unknown ptype scenario %q", c.Scenario)
		}
	}
	full, part := call(payload)
	if ev.Part == "accept" {
		ev.PName = part.GetType().Name
		ev.PAttrs, ev.PRels = sortedKeys(part.Attrs()), sortedKeys(part.Rels())
		ev.ValsOK = true
		for f, v := range wantVals {
			if part.Get(f) != v || (ev.Out == "accept" && full.Get(f) != v) {
				ev.ValsOK = false
			}
		}
	}
	return ev
}

func codecRunOther(mode string, raw json.RawMessage) any {
	switch mode {
	case "selfpair":
		var c pairCase
		must(json.Unmarshal(raw, &c))
		return runSelfPair(c)
	case "colpayload":
		var c colCase
		must(json.Unmarshal(raw, &c))
		return runColPayload(c)
	case "ptype":
		var c ptCase
		must(json.Unmarshal(raw, &c))
		return runPType(c)
	case "roundtrip":
		var c rtCase
		must(json.Unmarshal(raw, &c))
		return runRoundTrip(c)
	case "robust":
		var c feedCase
		must(json.Unmarshal(raw, &c))
		return runFeed(c)
	case "partial":
		var c payCase
		must(json.Unmarshal(raw, &c))
		return runPayload(c)
	}
	infra("unknown codec mode %q", mode)
	return nil
}
