package main

import (
	"encoding/json"
	"math/rand"
)

func codecOtherModes(mode string, rng *rand.Rand, stt *stats, w *evWriter, n int, seed int64, gen string) {
	infra("codec mode %q not implemented yet", mode)
}

func codecReplayOther(mode string, raw json.RawMessage) {
	infra("codec mode %q not implemented yet", mode)
}
