package main

// Rel family (C16): Invert / Normalize / String laws on every relationship TLC
// enumerated, and Schema.Rels() on every coherent schema TLC generated, built
// in every order of AddType.

import (
	"encoding/json"
	"flag"
	"fmt"
	"os"
	"reflect"
	"strings"
	"sync"

	"github.com/mfcochauxlaberge/jsonapi"
)

// names cross the TLC boundary as symbol sequences; 1=a 2=b 3=c 4=_ 5=d ...
const symbols = "?abc_defghA"

type symName []int

func (n symName) String() string {
	var b strings.Builder
	for _, s := range n {
		b.WriteByte(symbols[s])
	}
	return b.String()
}

func symOf(s string) symName {
	out := symName{}
	for i := 0; i < len(s); i++ {
		out = append(out, strings.IndexByte(symbols, s[i]))
	}
	return out
}

type yRel struct {
	FT  symName `json:"ft"`
	FN  symName `json:"fn"`
	To1 bool    `json:"to1"`
	TT  symName `json:"tt"`
	TN  symName `json:"tn"`
	Fo1 bool    `json:"fo1"`
}

func (r yRel) real() jsonapi.Rel {
	return jsonapi.Rel{FromType: r.FT.String(), FromName: r.FN.String(), ToOne: r.To1,
		ToType: r.TT.String(), ToName: r.TN.String(), FromOne: r.Fo1}
}

func yOf(r jsonapi.Rel) yRel {
	return yRel{FT: symOf(r.FromType), FN: symOf(r.FromName), To1: r.ToOne, TT: symOf(r.ToType), TN: symOf(r.ToName), Fo1: r.FromOne}
}

type yType struct {
	Name symName `json:"name"`
	Rels []yRel  `json:"rels"`
}

type relObs struct {
	Inv      yRel   `json:"inv"`
	InvInv   yRel   `json:"invinv"`
	Norm     yRel   `json:"norm"`
	NormNorm yRel   `json:"normnorm"`
	NormInv  yRel   `json:"norminv"`
	Str      string `json:"str"`
	StrInv   string `json:"strinv"`
}

type relEvent struct {
	Ev     string   `json:"ev"`
	R      yRel     `json:"r"`
	Obs    relObs   `json:"obs"`
	Schema []yType  `json:"schema"`
	Perms  [][]yRel `json:"perms"`
	Ret    string   `json:"ret"`
	Edited bool     `json:"edited"` // the last listing is that of the schema built through the editing methods
}

type relCase struct {
	Fam    string  `json:"fam"`
	Kind   string  `json:"kind"` // rel | rels
	R      yRel    `json:"r"`
	Schema []yType `json:"schema"`
	Filler bool    `json:"filler"` // the schema is listed together with relFiller
	Wide   bool    `json:"wide"`   // ... together with relWide: a listing of more than twenty entries
}

func permutations(n int) [][]int {
	if n == 0 {
		return [][]int{{}}
	}
	var out [][]int
	var rec func(cur []int, used []bool)
	rec = func(cur []int, used []bool) {
		if len(cur) == n {
			out = append(out, append([]int(nil), cur...))
			return
		}
		for i := 0; i < n; i++ {
			if !used[i] {
				used[i] = true
				rec(append(cur, i), used)
				used[i] = false
			}
		}
	}
	rec(nil, make([]bool, n))
	return out
}

// relFiller: one more type with three one-way relationships to itself - a listing of four entries and
// more has an order to keep that a listing of one or two has not
var relFiller = yType{Name: symOf("gh"), Rels: []yRel{
	{FT: symOf("gh"), FN: symOf("f"), To1: true, TT: symOf("gh"), TN: symName{}},
	{FT: symOf("gh"), FN: symOf("d"), To1: false, TT: symOf("gh"), TN: symName{}},
	{FT: symOf("gh"), FN: symOf("e"), To1: true, TT: symOf("gh"), TN: symName{}}}}

// relWide: three more types with seven one-way relationships each, the same seven names on every type
// (a long listing whose order by name does not follow its order by type)
var relWide = func() []yType {
	var out []yType
	for _, tn := range []string{"gh", "hg", "gg"} {
		t := yType{Name: symOf(tn)}
		for i, fn := range []string{"h", "f", "d", "g", "e", "df", "ed"} {
			t.Rels = append(t.Rels, yRel{FT: symOf(tn), FN: symOf(fn), To1: i%2 == 0, TT: symOf(tn), TN: symName{}})
		}
		out = append(out, t)
	}
	return out
}()

func runRelCase(c relCase) relEvent {
	if c.Wide {
		c.Schema = append(append([]yType{}, c.Schema...), relWide...)
	}
	if c.Filler {
		c.Schema = append(append([]yType{}, c.Schema...), relFiller)
	}
	ev := relEvent{Ev: c.Kind, R: c.R, Schema: c.Schema, Perms: [][]yRel{}, Ret: "ok"}
	if ev.Schema == nil {
		ev.Schema = []yType{}
	}
	p, _ := catch(func() {
		if c.Kind == "rel" {
			r := c.R.real()
			inv := r.Invert()
			invinv := inv.Invert()
			norm := r.Normalize()
			nn := norm.Normalize()
			ni := inv.Normalize()
			ev.Obs = relObs{Inv: yOf(inv), InvInv: yOf(invinv), Norm: yOf(norm), NormNorm: yOf(nn), NormInv: yOf(ni),
				Str: r.String(), StrInv: inv.String()}
			return
		}
		for _, perm := range permutations(len(c.Schema)) {
			s := &jsonapi.Schema{}
			for _, i := range perm {
				t := jsonapi.Type{Name: c.Schema[i].Name.String(), Rels: map[string]jsonapi.Rel{}}
				for _, r := range c.Schema[i].Rels {
					t.Rels[r.FN.String()] = r.real()
				}
				must(s.AddType(t))
			}
			// twice: the listing must not depend on a previous call either
			_ = s.Rels()
			rels := s.Rels()
			lst := make([]yRel, 0, len(rels))
			for _, r := range rels {
				lst = append(lst, yOf(r))
			}
			ev.Perms = append(ev.Perms, lst)
		}
		// the same schema declared by hand, every type keeping its relationships under keys of its
		// author's choosing (Check, which reads the relationships themselves, reports nothing either):
		// the same listing
		{
			s := &jsonapi.Schema{}
			for _, t0 := range c.Schema {
				t := jsonapi.Type{Name: t0.Name.String(), Rels: map[string]jsonapi.Rel{}}
				for k, r := range t0.Rels {
					t.Rels[fmt.Sprintf("key%d", k)] = r.real()
				}
				must(s.AddType(t))
			}
			rels := s.Rels()
			lst := make([]yRel, 0, len(rels))
			for _, r := range rels {
				lst = append(lst, yOf(r))
			}
			ev.Perms = append(ev.Perms, lst)
		}
		// several goroutines listing at once (two schemas): every listing is the sequential one
		if bad, ok := relsConcurrently(c.Schema); ok && bad != nil {
			ev.Perms = append(ev.Perms, bad)
		}
		// once more through the editing methods, with a listing after every edit: whatever
		// Rels() keeps from one call to the next has to follow AddType, AddRel and AddTwoWayRel
		if lst, ok := relsThroughEdits(c.Schema); ok {
			ev.Perms = append(ev.Perms, lst)
			ev.Edited = true
		}
	})
	if p {
		ev.Ret = "panic"
	}
	if ev.Obs.Inv.FT == nil { // rels event: fill the unused record with well-sorted values
		z := yRel{FT: symName{}, FN: symName{}, TT: symName{}, TN: symName{}}
		ev.Obs = relObs{Inv: z, InvInv: z, Norm: z, NormNorm: z, NormInv: z}
		if c.Kind == "rels" {
			ev.R = z
		}
	}
	return ev
}

// relsConcurrently: nil if every concurrent listing equals the sequential one, otherwise one that differs
func relsConcurrently(schema []yType) ([]yRel, bool) {
	n := 0
	for _, t := range schema {
		n += len(t.Rels)
	}
	if n < 2 {
		return nil, false
	}
	build := func(rev bool) *jsonapi.Schema {
		s := &jsonapi.Schema{}
		for k := range schema {
			i := k
			if rev {
				i = len(schema) - 1 - k
			}
			t := jsonapi.Type{Name: schema[i].Name.String(), Rels: map[string]jsonapi.Rel{}}
			for _, r := range schema[i].Rels {
				t.Rels[r.FN.String()] = r.real()
			}
			must(s.AddType(t))
		}
		return s
	}
	s1, s2 := build(false), build(true)
	want := s1.Rels()
	var mu sync.Mutex
	var bad []yRel
	var wg sync.WaitGroup
	for g := 0; g < 4; g++ {
		wg.Add(1)
		go func(s *jsonapi.Schema) {
			defer wg.Done()
			for k := 0; k < 10; k++ {
				got := s.Rels()
				if !reflect.DeepEqual(got, want) {
					mu.Lock()
					if bad == nil {
						bad = make([]yRel, 0, len(got))
						for _, r := range got {
							bad = append(bad, yOf(r))
						}
					}
					mu.Unlock()
				}
			}
		}([]*jsonapi.Schema{s1, s2}[g%2])
	}
	wg.Wait()
	return bad, true
}

func relsThroughEdits(schema []yType) ([]yRel, bool) {
	s := &jsonapi.Schema{}
	for _, t := range schema {
		if s.AddType(jsonapi.Type{Name: t.Name.String()}) != nil {
			return nil, false
		}
		_ = s.Rels()
	}
	find := func(typ, name string) (jsonapi.Rel, bool) {
		for _, t := range schema {
			if t.Name.String() != typ {
				continue
			}
			for _, r := range t.Rels {
				if r.FN.String() == name {
					return r.real(), true
				}
			}
		}
		return jsonapi.Rel{}, false
	}
	done := map[string]bool{}
	for _, t := range schema {
		for _, yr := range t.Rels {
			r := yr.real()
			key := t.Name.String() + "." + r.FromName
			if done[key] {
				continue
			}
			if inv, ok := find(r.ToType, r.ToName); ok && r.ToName != "" && r.FromType == t.Name.String() && inv == r.Invert() &&
				!(r.ToType == r.FromType && r.ToName == r.FromName) {
				if s.AddTwoWayRel(r) == nil {
					done[key], done[r.ToType+"."+r.ToName] = true, true
					_ = s.Rels()
					continue
				}
			}
			if s.AddRel(t.Name.String(), r) != nil {
				return nil, false
			}
			done[key] = true
			_ = s.Rels()
		}
	}
	rels := s.Rels()
	lst := make([]yRel, 0, len(rels))
	for _, r := range rels {
		lst = append(lst, yOf(r))
	}
	return lst, true
}

func relMain(args []string) {
	fs := flag.NewFlagSet("rel", flag.ExitOnError)
	gen := fs.String("gen", "", "TLC generation output (RELS + S lines)")
	out := fs.String("out", "", "output directory")
	seed := fs.Int64("seed", 1, "seed")
	sample := fs.Int("sample", 0, "use at most this many generated schemas (0 = all)")
	reps := fs.Int("reps", 1, "repeat each schema (map iteration order is randomised per run)")
	replay := fs.String("replay", "", "replay file")
	must(fs.Parse(args))
	if *replay != "" {
		var rf struct {
			Case relCase `json:"case"`
		}
		b, err := os.ReadFile(*replay)
		must(err)
		must(json.Unmarshal(b, &rf))
		// the cases run just before in the same process (what is remembered per name comes from them)
		var pre struct {
			Prelude []relCase `json:"prelude"`
		}
		if json.Unmarshal(b, &pre) == nil {
			for _, pc := range pre.Prelude {
				catch(func() { runRelCase(pc) })
			}
		}
		os.Stdout.Write(jsonLine(runRelCase(rf.Case)))
		return
	}
	var rels []yRel
	var schemas [][]yType
	tlcLines(*gen, func(tag string, js []byte) {
		switch tag {
		case "RELS":
			if rels == nil {
				must(json.Unmarshal(js, &rels))
			}
		case "S":
			var s struct {
				State []yType `json:"state"`
			}
			must(json.Unmarshal(js, &s))
			schemas = append(schemas, s.State)
		}
	})
	if len(rels) == 0 || len(schemas) == 0 {
		infra("no relationships or schemas in %s", *gen)
	}
	rng := newRand(*seed, "rel")
	stt := newStats()
	stt.Exhaustive = true
	w := newEvWriter(*out, 100000)
	for _, r := range rels {
		c := relCase{Fam: "rel", Kind: "rel", R: r}
		ev := runRelCase(c)
		stt.Calls += 7
		cls := "rel:oneway"
		if len(r.TN) > 0 {
			cls = "rel:twoway"
			b, _ := json.Marshal(r)
			stt.distinct(string(b))
		}
		stt.class(cls)
		w.Emit(ev, c)
	}
	if *sample > 0 && *sample < len(schemas) {
		rng.Shuffle(len(schemas), func(i, j int) { schemas[i], schemas[j] = schemas[j], schemas[i] })
		schemas = schemas[:*sample]
		stt.Exhaustive = false
	}
	for si, s := range schemas {
		stt.States++
		for k := 0; k < *reps+1; k++ {
			c := relCase{Fam: "rel", Kind: "rels", Schema: s}
			if k == *reps {
				// once more next to a type with three relationships of its own (a longer listing)
				hasGH := false
				for _, t := range s {
					hasGH = hasGH || t.Name.String() == "gh"
				}
				if si%3 != 0 || len(s) > 3 || hasGH {
					continue
				}
				c.Filler = true
				stt.class("rels:longer-listing")
			}
			if c.Filler && si%9 == 0 && len(s) <= 1 {
				c.Filler, c.Wide = false, true
				stt.class("rels:wide-listing")
			}
			ev := runRelCase(c)
			stt.Calls += 2 * len(ev.Perms)
			n := 0
			for _, t := range s {
				n += len(t.Rels)
			}
			if ev.Edited && n > 0 {
				stt.class("rels:through-edits")
			}
			if n > 0 {
				stt.class("rels:nonempty")
				b, _ := json.Marshal(s)
				stt.distinct(string(b))
			} else {
				stt.class("rels:empty")
			}
			w.Emit(ev, c)
		}
	}
	stt.Rule = "distinct two-way relationships (law events) and distinct coherent schemas with at least one relationship (listing events)"
	w.Close()
	stt.write(*out+"/stats.json", w)
}
