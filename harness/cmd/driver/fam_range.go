package main

// Range family (C09): seeded and systematic cases (collection, id list, leaf
// filter, rules, page size), every page requested for several input orders of
// the same collection, in the three collection implementations.

import (
	"encoding/json"
	"flag"
	"math"
	"os"
	"reflect"
	"sort"

	"github.com/mfcochauxlaberge/jsonapi"
)

type gRes struct {
	ID string `json:"id"`
	X  fVal   `json:"x"`
	Y  fVal   `json:"y"`
	// concrete values for random cases (raw text, see rawValue); empty otherwise
	RawX string `json:"rawx,omitempty"`
	RawY string `json:"rawy,omitempty"`
}

type gFlt struct {
	On bool   `json:"on"`
	Op string `json:"op"`
	CV fVal   `json:"cv"`
	// Wrap: "" | and1 | or1 (a group around the leaf) | and0 | or0 | nope0 (a group without members as the whole filter)
	Wrap string `json:"wrap"`
}

type gRule struct {
	F    string `json:"f"`
	Desc bool   `json:"desc"`
}

type gRun struct {
	Order  []string   `json:"order"`
	Pages  [][]string `json:"pages"`
	After  []string   `json:"after"`
	NonNil bool       `json:"nonnil"`
}

type gEvent struct {
	Ev    string   `json:"ev"`
	Cls   string   `json:"cls"`
	KindX string   `json:"kindx"`
	KindY string   `json:"kindy"`
	Impl  string   `json:"impl"`
	Coll  string   `json:"coll"`
	Col   []gRes   `json:"col"`
	IDs   []string `json:"ids"`
	Flt   gFlt     `json:"flt"`
	Rules []gRule  `json:"rules"`
	Size  int      `json:"size"`
	Huge  int      `json:"huge"` // > 0: the real size is a huge one, Size a stand-in larger than the collection
	Runs  []gRun   `json:"runs"`
	Ret   string   `json:"ret"`
}

type gCase struct {
	Fam    string     `json:"fam"`
	KX     int        `json:"kx"`
	NX     bool       `json:"nx"`
	KY     int        `json:"ky"`
	NY     bool       `json:"ny"`
	Impl   string     `json:"impl"` // soft | wrap | mixed
	Coll   string     `json:"coll"` // resources | soft | wrapcol
	Col    []gRes     `json:"col"`
	IDs    []string   `json:"ids"`
	Flt    gFlt       `json:"flt"`
	Rules  []gRule    `json:"rules"`
	Size   int        `json:"size"`
	Orders [][]string `json:"orders"`
	Table  int        `json:"table"`
	Pages  int        `json:"pages"`
	Real   bool       `json:"real"` // values are the raw ones (random cases)
	// Huge: the page size is one of hugeSizes ("everything on one page"); Size then holds
	// a stand-in larger than the collection, which cuts the same pages
	Huge int `json:"huge"`
	// Names: how the two attributes the model calls x and y are really called (1: names that end like
	// the identifier does - "paid", "valid")
	Names int `json:"names"`
}

var rangeNames = [][2]string{{"x", "y"}, {"paid", "valid"}}

func (c gCase) value(kind int, null bool, v fVal, raw string) any {
	if v.Nil {
		return jsonapi.GetZeroValue(kind, true)
	}
	if c.Real {
		b := rawValue(kind, raw)
		if null {
			return ptrTo(b)
		}
		return b
	}
	return ordValue(kind, null, v, c.Table)
}

var hugeSizes = []uint{0, math.MaxInt64, 1 << 62, 1 << 63, math.MaxUint64, 1<<63 + 1}

func (c gCase) size() uint {
	if c.Huge > 0 {
		return hugeSizes[c.Huge%len(hugeSizes)]
	}
	return uint(c.Size)
}

func runRangeCase(c gCase) gEvent {
	ev := gEvent{Ev: "range", Cls: classOf(c.KX), KindX: jsonapi.GetAttrTypeString(c.KX, c.NX),
		KindY: jsonapi.GetAttrTypeString(c.KY, c.NY), Impl: c.Impl, Coll: c.Coll, Col: append([]gRes{}, c.Col...), IDs: c.IDs,
		Flt: c.Flt, Rules: c.Rules, Size: c.Size, Huge: c.Huge, Runs: []gRun{}, Ret: "ok"}
	if ev.Col == nil {
		ev.Col = []gRes{}
	}
	if ev.IDs == nil {
		ev.IDs = []string{}
	}
	if ev.Rules == nil {
		ev.Rules = []gRule{}
	}
	ev.Flt.CV = ev.Flt.CV.norm()
	for i := range ev.Col {
		ev.Col[i].X, ev.Col[i].Y = ev.Col[i].X.norm(), ev.Col[i].Y.norm()
		ev.Col[i].RawX, ev.Col[i].RawY = "", ""
	}
	nx, ny := rangeNames[c.Names%2][0], rangeNames[c.Names%2][1]
	fields := defMap{nx: {Kind: "attr", K: kindName(c.KX), Null: c.NX}, ny: {Kind: "attr", K: kindName(c.KY), Null: c.NY}}
	byID := map[string]gRes{}
	for _, r := range c.Col {
		byID[r.ID] = r
	}
	rules := []string{}
	for _, r := range c.Rules {
		s := r.F
		switch s {
		case "x":
			s = nx
		case "y":
			s = ny
		}
		if r.Desc {
			s = "-" + s
		}
		rules = append(rules, s)
	}
	p, _ := catch(func() {
		for oi, order := range c.Orders {
			var col jsonapi.Collection
			switch c.Coll {
			case "soft":
				sc := &jsonapi.SoftCollection{}
				sc.SetType(softType("rt", fields, kindMap{}))
				col = sc
			case "wrapcol":
				col = jsonapi.WrapCollection(newRes("wrap", "rt", fields, kindMap{}))
			default:
				col = &jsonapi.Resources{}
			}
			for i, id := range order {
				impl := c.Impl
				if impl == "mixed" {
					impl = []string{"soft", "wrap"}[i%2]
				}
				r := byID[id]
				res := newRes(impl, "rt", fields, kindMap{})
				res.Set("id", id)
				res.Set(nx, c.value(c.KX, c.NX, r.X, r.RawX))
				res.Set(ny, c.value(c.KY, c.NY, r.Y, r.RawY))
				col.Add(res)
			}
			var flt *jsonapi.Filter
			if c.Flt.On {
				flt = &jsonapi.Filter{Field: nx, Op: c.Flt.Op, Val: ordValue(c.KX, c.NX, c.Flt.CV, c.Table)}
			}
			switch c.Flt.Wrap {
			case "and1":
				flt = &jsonapi.Filter{Op: "and", Val: []*jsonapi.Filter{flt}}
			case "or1":
				flt = &jsonapi.Filter{Op: "or", Val: []*jsonapi.Filter{flt}}
			case "and0":
				flt = &jsonapi.Filter{Op: "and", Val: []*jsonapi.Filter{}}
			case "or0":
				flt = &jsonapi.Filter{Op: "or", Val: []*jsonapi.Filter{}}
			case "nope0":
				flt = &jsonapi.Filter{Op: "xor", Val: []*jsonapi.Filter{}}
			}
			// the collation a filter names says nothing about whom it allows: one walk in two carries one
			// (the collection's own type name, or another name), at the root and on the leaf
			if flt != nil && oi%2 == 1 {
				flt.Col = []string{"rt", "other"}[(oi/2)%2]
				if inner, ok := flt.Val.([]*jsonapi.Filter); ok && len(inner) == 1 && inner[0] != nil {
					inner[0].Col = flt.Col
				}
			}
			run := gRun{Order: order, Pages: [][]string{}, After: []string{}, NonNil: true}
			// one id list and one rule list for all the pages of a walk, as a caller paging through has
			idList, ruleList := append([]string{}, c.IDs...), append([]string{}, rules...)
			idsOfPage := func(page jsonapi.Collection) []string {
				ids := []string{}
				for i := 0; i < page.Len(); i++ {
					ids = append(ids, page.At(i).Get("id").(string))
				}
				return ids
			}
			var kept []jsonapi.Collection
			for num := 0; num < c.Pages; num++ {
				page := jsonapi.Range(col, idList, flt, ruleList, c.size(), uint(num))
				ids := []string{}
				if page == nil || reflectIsNil(page) {
					run.NonNil = false
				} else {
					ids = idsOfPage(page)
				}
				kept = append(kept, page)
				run.Pages = append(run.Pages, ids)
			}
			// a caller keeps the pages it was given: a later call (the other pages, another order) must
			// not change an earlier result
			_ = jsonapi.Range(col, nil, nil, []string{"-id"}, 3, 0)
			for k, page := range kept {
				if page == nil || reflectIsNil(page) {
					continue
				}
				if now := idsOfPage(page); !reflect.DeepEqual(now, run.Pages[k]) {
					run.Pages[k] = append(now, "changed-after-a-later-call")
				}
			}
			// a caller does what it likes with a page it was given (it is a Collection: Add is there): the
			// same question asked again gets the same answer
			for _, page := range kept {
				if page == nil || reflectIsNil(page) || callerWriteSeen {
					continue
				}
				extra := newRes("soft", "rt", fields, kindMap{})
				extra.Set("id", "added-by-the-caller")
				page.Add(extra)
			}
			for num := 0; num < c.Pages; num++ {
				again := jsonapi.Range(col, idList, flt, ruleList, c.size(), uint(num))
				if again == nil || reflectIsNil(again) {
					continue
				}
				want := run.Pages[num]
				if now := idsOfPage(again); !reflect.DeepEqual(now, want) && !(len(want) > 0 && want[len(want)-1] == "changed-after-a-later-call") {
					run.Pages[num] = append(now, "another-answer-after-the-caller-wrote-to-a-page")
					callerWriteSeen = true // once seen, no further writes (a page shared by every call would grow without end)
				}
			}
			for i := 0; i < col.Len(); i++ {
				run.After = append(run.After, col.At(i).Get("id").(string))
			}
			ev.Runs = append(ev.Runs, run)
		}
	})
	if p {
		ev.Ret = "panic"
	}
	return ev
}

// callerWriteSeen: a write to a returned page has shown in a later answer (see runRangeCase)
var callerWriteSeen bool

func perms(ids []string, max int, shuffle func(n int, swap func(i, j int))) [][]string {
	var out [][]string
	if len(ids) <= 3 {
		for _, p := range permutations(len(ids)) {
			o := make([]string, len(ids))
			for i, k := range p {
				o[i] = ids[k]
			}
			out = append(out, o)
		}
		return out
	}
	out = append(out, append([]string{}, ids...))
	rev := append([]string{}, ids...)
	sort.Sort(sort.Reverse(sort.StringSlice(rev)))
	out = append(out, rev)
	for len(out) < max {
		o := append([]string{}, ids...)
		shuffle(len(o), func(i, j int) { o[i], o[j] = o[j], o[i] })
		out = append(out, o)
	}
	return out
}

func rangeMain(args []string) {
	fs := flag.NewFlagSet("range", flag.ExitOnError)
	out := fs.String("out", "", "output directory")
	seed := fs.Int64("seed", 1, "seed")
	n := fs.Int("n", 1000, "small abstract cases")
	big := fs.Int("big", 0, "random large collections with real values")
	replay := fs.String("replay", "", "replay file")
	_ = fs.String("gen", "", "unused")
	must(fs.Parse(args))
	selfCheckOrdered()
	if *replay != "" {
		var rf struct {
			Case gCase `json:"case"`
		}
		b, err := os.ReadFile(*replay)
		must(err)
		must(json.Unmarshal(b, &rf))
		os.Stdout.Write(jsonLine(runRangeCase(rf.Case)))
		return
	}
	rng := newRand(*seed, "range")
	stt := newStats()
	w := newEvWriter(*out, 20000)
	emit := func(c gCase) {
		w.Inflight(c)
		ev := runRangeCase(c)
		stt.Calls += len(c.Orders) * c.Pages
		stt.class("kind:" + ev.KindX)
		stt.class("impl:" + c.Impl)
		stt.class("coll:" + c.Coll)
		if len(c.Rules) > 0 {
			stt.class("rules")
		}
		if c.Flt.On {
			stt.class("filtered")
		}
		if len(c.IDs) > 0 {
			stt.class("ids")
		}
		for _, r := range ev.Runs {
			for _, p := range r.Pages {
				if len(p) > 0 {
					stt.class("nonempty-page")
				}
			}
		}
		b, _ := json.Marshal([]any{ev.Cls, ev.Col, ev.IDs, ev.Flt, ev.Rules, ev.Size})
		stt.distinct(string(b))
		w.Emit(ev, c)
	}
	allKinds := func() (int, bool) {
		k := baseKinds[rng.Intn(len(baseKinds))]
		return k, rng.Intn(2) == 0
	}
	pickImpl := func(c *gCase) {
		if rng.Intn(3) == 0 {
			c.Names = 1
		}
		switch rng.Intn(5) {
		case 0:
			c.Impl, c.Coll = "soft", "resources"
		case 1:
			c.Impl, c.Coll = "wrap", "resources"
		case 2:
			c.Impl, c.Coll = "mixed", "resources"
		case 3:
			c.Impl, c.Coll = "soft", "soft"
			if rng.Intn(2) == 0 {
				c.Impl = "wrap" // wrapped sources snapshotted by the SoftCollection
			}
		case 4:
			c.Impl, c.Coll = "wrap", "wrapcol"
		}
	}
	absVal := func(kind int, null bool) fVal {
		if null && rng.Intn(3) == 0 {
			return fVal{Nil: true}.norm()
		}
		switch classOf(kind) {
		case "bool":
			return fVal{S: []int{rng.Intn(2)}}.norm()
		case "seq":
			pool := [][]int{{}, {0}, {1}, {1, 0}, {1, 1}, {1, 2}, {2}, {2, 1}}
			return fVal{S: pool[rng.Intn(len(pool))]}.norm()
		}
		return fVal{S: []int{rng.Intn(3) * 2}}.norm() // ranks 0, 2, 4: ties are likely
	}
	ruleNames := []string{"x", "y", "id"}
	ops := []string{"=", "!=", "<", "<=", ">", ">="}
	ids4 := []string{"a", "b", "c", "d"}
	for i := 0; i < *n; i++ {
		c := gCase{Fam: "range", Table: rng.Intn(4), Pages: 5}
		c.KX, c.NX = allKinds()
		c.KY, c.NY = allKinds()
		pickImpl(&c)
		nres := rng.Intn(5)
		for k := 0; k < nres; k++ {
			c.Col = append(c.Col, gRes{ID: ids4[k], X: absVal(c.KX, c.NX), Y: absVal(c.KY, c.NY)})
		}
		switch rng.Intn(4) {
		case 0:
			for _, id := range ids4[:nres] {
				if rng.Intn(2) == 0 {
					c.IDs = append(c.IDs, id)
				}
			}
		case 1:
			c.IDs = []string{"zz", "b"}
		}
		if rng.Intn(12) == 0 {
			// the empty id is an id: a list that holds it is a list (it selects the resource without id, if any)
			c.IDs = [][]string{{""}, {"a", ""}, {"", "zz"}}[rng.Intn(3)]
			stt.class("blank-in-id-list")
		}
		if rng.Intn(3) == 0 {
			op := ops[rng.Intn(len(ops))]
			if classOf(c.KX) == "bool" {
				op = ops[rng.Intn(2)]
			}
			cv := absVal(c.KX, c.NX)
			c.Flt = gFlt{On: true, Op: op, CV: cv}
			if rng.Intn(4) == 0 {
				c.Flt.Wrap = []string{"and1", "or1"}[rng.Intn(2)]
			}
		} else if rng.Intn(5) == 0 {
			c.Flt.Wrap = []string{"and0", "or0", "nope0"}[rng.Intn(3)]
			stt.class("filter-group-without-members")
		}
		for k := rng.Intn(4); k > 0; k-- {
			c.Rules = append(c.Rules, gRule{F: ruleNames[rng.Intn(3)], Desc: rng.Intn(2) == 0})
		}
		c.Size = rng.Intn(5)
		if rng.Intn(12) == 0 {
			// number*size stays below 2^63: page 0 only for the sizes from 2^63 up
			c.Huge = 1 + rng.Intn(len(hugeSizes)-1)
			c.Size = len(c.Col) + 1
			c.Pages = 1
			if hugeSizes[c.Huge] <= 1<<62 {
				c.Pages = 2
			}
			stt.class("huge-size")
		}
		have := []string{}
		for _, r := range c.Col {
			have = append(have, r.ID)
		}
		c.Orders = perms(have, 6, rng.Shuffle)
		emit(c)
	}
	// large collections with real random values; the abstract value is the
	// rank among the distinct values (independent order) or the real bytes
	ids8 := []string{"a", "b", "c", "d", "e", "f", "g", "h", "i", "j", "k", "l", "m", "n"}
	for i := 0; i < *big; i++ {
		c := gCase{Fam: "range", Pages: 6, Real: true}
		c.KX, c.NX = allKinds()
		c.KY, c.NY = allKinds()
		pickImpl(&c)
		nres := 4 + rng.Intn(5)
		large := i%4 == 3 // a larger collection walked with a long id list and rules that leave ties
		if large {
			nres = 11 + rng.Intn(4)
		}
		type rv struct {
			x, y any
		}
		vals := make([]rv, nres)
		for k := range vals {
			vals[k] = rv{randomBase(rng, c.KX), randomBase(rng, c.KY)}
			if k > 0 && rng.Intn(3) == 0 {
				vals[k].x = mutateNear(rng, c.KX, vals[k-1].x)
			}
			if k > 0 && rng.Intn(2) == 0 {
				vals[k].y = vals[k-1].y // ties on y
			}
		}
		abs := func(kind int, mine any, all []any) fVal {
			if classOf(kind) == "seq" {
				return fVal{S: bytesToSeq(rawBytes(kind, mine))}.norm()
			}
			rank := 0
			seen := []any{}
			for _, o := range all {
				dup := false
				for _, s := range seen {
					if cmpBase(kind, s, o) == 0 {
						dup = true
					}
				}
				if dup {
					continue
				}
				seen = append(seen, o)
				if cmpBase(kind, o, mine) < 0 {
					rank++
				}
			}
			return fVal{S: []int{rank}}.norm()
		}
		xs, ys := []any{}, []any{}
		for _, v := range vals {
			xs, ys = append(xs, v.x), append(ys, v.y)
		}
		for k, v := range vals {
			r := gRes{ID: ids8[k], X: abs(c.KX, v.x, xs), Y: abs(c.KY, v.y, ys), RawX: rawOf(c.KX, v.x), RawY: rawOf(c.KY, v.y)}
			if c.NX && rng.Intn(5) == 0 {
				r.X, r.RawX = fVal{Nil: true}.norm(), ""
			}
			if c.NY && rng.Intn(5) == 0 {
				r.Y, r.RawY = fVal{Nil: true}.norm(), ""
			}
			c.Col = append(c.Col, r)
		}
		for k := 1 + rng.Intn(3); k > 0; k-- {
			c.Rules = append(c.Rules, gRule{F: ruleNames[rng.Intn(3)], Desc: rng.Intn(2) == 0})
		}
		if large {
			c.Rules = []gRule{{F: "y", Desc: rng.Intn(2) == 0}} // ties on y, no id among the rules
			c.IDs = append([]string{"zz"}, ids8[:nres]...)
			rng.Shuffle(len(c.IDs), func(i, j int) { c.IDs[i], c.IDs[j] = c.IDs[j], c.IDs[i] })
			c.IDs = c.IDs[:5+(i/4)%(len(c.IDs)-4)] // every length from 5 up to the whole list in turn
			stt.class("long-id-list")
		}
		c.Size = 1 + rng.Intn(4)
		c.Pages = nres/c.Size + 2
		c.Orders = perms(ids8[:nres], 4, rng.Shuffle)
		stt.class("big")
		emit(c)
	}
	stt.Rule = "distinct abstract cases (class, collection values, id list, filter, rules, size)"
	w.Close()
	stt.write(*out+"/stats.json", w)
}
