package main

// Shared plumbing of the conformance driver: reading what TLC generated
// (lines <<"S", "json">>, <<"C", "json">>, <<"ALPHA", "json">>), writing
// events for TLC's trace monitors (ndjson, chunked), replay files, stats.

import (
	"bufio"
	"bytes"
	"encoding/json"
	"fmt"
	"math/rand"
	"os"
	"path/filepath"
	"reflect"
	"runtime/debug"
	"sort"
	"strconv"
	"strings"
)

// ---------- TLC -> Go ----------

// tlcLines calls f(tag, json) for every line of the form <<"TAG", "....">> in
// the file (TLC's PrintT of a pair whose second component is a ToJson string).
func tlcLines(path string, f func(tag string, js []byte)) {
	fh, err := os.Open(path)
	must(err)
	defer fh.Close()
	rd := bufio.NewReaderSize(fh, 1<<20)
	for {
		line, err := rd.ReadString('\n')
		if len(line) > 0 {
			line = strings.TrimRight(line, "\r\n")
			if strings.HasPrefix(line, "<<\"") && strings.HasSuffix(line, "\">>") {
				rest := line[3:]
				i := strings.Index(rest, "\", \"")
				if i > 0 {
					tag := rest[:i]
					q := rest[i+3 : len(rest)-2] // the quoted TLA+ string, quotes included
					s, uerr := unquoteTLA(q)
					if uerr != nil {
						infra("cannot unquote TLC line: %v", uerr)
					}
					f(tag, []byte(s))
				}
			}
		}
		if err != nil {
			break
		}
	}
}

// unquoteTLA undoes TLC's string printing: \" and \\ (and \n, \t).
func unquoteTLA(q string) (string, error) {
	if len(q) < 2 || q[0] != '"' || q[len(q)-1] != '"' {
		return "", fmt.Errorf("not quoted: %.40s", q)
	}
	q = q[1 : len(q)-1]
	var b strings.Builder
	for i := 0; i < len(q); i++ {
		c := q[i]
		if c == '\\' && i+1 < len(q) {
			i++
			switch q[i] {
			case 'n':
				b.WriteByte('\n')
			case 't':
				b.WriteByte('\t')
			case 'r':
				b.WriteByte('\r')
			case 'f':
				b.WriteByte('\f')
			default:
				b.WriteByte(q[i])
			}
			continue
		}
		b.WriteByte(c)
	}
	return b.String(), nil
}

// ---------- Go -> TLC ----------

// An evWriter writes events (one JSON object per line) in chunks of at most
// chunk events: <dir>/ev-000.ndjson ..., and the matching replay cases
// <dir>/case-000.ndjson (same line numbers).
type evWriter struct {
	dir     string
	chunk   int
	n       int // events in current chunk
	idx     int // current chunk index
	total   int
	ev, cs  *bufio.Writer
	fev, fc *os.File
	samples []json.RawMessage
}

func newEvWriter(dir string, chunk int) *evWriter {
	w := &evWriter{dir: dir, chunk: chunk, idx: -1}
	w.roll()
	return w
}

// Inflight records the case that is about to run.  If the process dies in it (a fatal error of
// the Go runtime - stack overflow, concurrent map writes - cannot be recovered), the file names
// the case; Close removes it.
func (w *evWriter) Inflight(c any) {
	b, err := json.Marshal(c)
	must(err)
	must(os.WriteFile(filepath.Join(w.dir, "inflight.json"), b, 0o644))
}

func (w *evWriter) roll() {
	w.closeFiles()
	w.idx++
	w.n = 0
	var err error
	w.fev, err = os.Create(filepath.Join(w.dir, fmt.Sprintf("ev-%03d.ndjson", w.idx)))
	must(err)
	w.fc, err = os.Create(filepath.Join(w.dir, fmt.Sprintf("case-%03d.ndjson", w.idx)))
	must(err)
	w.ev = bufio.NewWriterSize(w.fev, 1<<20)
	w.cs = bufio.NewWriterSize(w.fc, 1<<20)
}

func (w *evWriter) closeFiles() {
	if w.ev != nil {
		must(w.ev.Flush())
		must(w.cs.Flush())
		must(w.fev.Close())
		must(w.fc.Close())
	}
}

func jsonLine(v any) []byte {
	var buf bytes.Buffer
	enc := json.NewEncoder(&buf)
	enc.SetEscapeHTML(false)
	must(enc.Encode(v))
	b := buf.Bytes()
	// TLC's JSON reader cannot take null and mangles non-ASCII text.
	if bytes.Contains(b, []byte("null")) {
		// only a problem outside strings; a cheap exact check:
		var probe any
		must(json.Unmarshal(b, &probe))
		if hasNull(probe) {
			infra("event contains JSON null: %s", b)
		}
	}
	for _, c := range b {
		if c >= 0x80 {
			infra("event contains non-ASCII text: %s", b)
		}
	}
	return b
}

func hasNull(v any) bool {
	switch x := v.(type) {
	case nil:
		return true
	case map[string]any:
		for _, y := range x {
			if hasNull(y) {
				return true
			}
		}
	case []any:
		for _, y := range x {
			if hasNull(y) {
				return true
			}
		}
	}
	return false
}

// Emit writes one event and the case that re-executes it.
func (w *evWriter) Emit(ev any, cs any) {
	if w.n >= w.chunk {
		w.roll()
	}
	b := jsonLine(ev)
	_, err := w.ev.Write(b)
	must(err)
	cb, err := json.Marshal(cs)
	must(err)
	_, err = w.cs.Write(append(cb, '\n'))
	must(err)
	w.n++
	w.total++
	if len(w.samples) < 3 || (w.total%9973 == 0 && len(w.samples) < 8) {
		w.samples = append(w.samples, json.RawMessage(bytes.TrimSpace(b)))
	}
}

func (w *evWriter) Close() {
	w.closeFiles()
	_ = os.Remove(filepath.Join(w.dir, "inflight.json"))
}

// ---------- stats ----------

type stats struct {
	Calls       int               `json:"calls"`        // real library calls made
	Events      int               `json:"events"`       // events written
	Chunks      int               `json:"chunks"`       // chunk files
	Distinct    int               `json:"distinct"`     // distinct non-trivial cases (rule in Rule)
	Rule        string            `json:"rule"`         // what distinct/non-trivial means
	States      int               `json:"model_states"` // abstract states reached in the real code
	Classes     map[string]int    `json:"classes"`      // outcome classes seen (vacuity gate)
	Samples     []json.RawMessage `json:"samples"`
	Notes       []string          `json:"notes"`
	Exhaustive  bool              `json:"exhaustive"`
	distinctSet map[string]struct{}
}

func newStats() *stats {
	return &stats{Classes: map[string]int{}, distinctSet: map[string]struct{}{}}
}

func (s *stats) class(c string) { s.Classes[c]++ }
func (s *stats) distinct(key string) {
	if _, ok := s.distinctSet[key]; !ok {
		s.distinctSet[key] = struct{}{}
	}
}

func (s *stats) write(path string, w *evWriter) {
	s.Events = w.total
	s.Chunks = w.idx + 1
	s.Samples = w.samples
	if s.Distinct == 0 {
		s.Distinct = len(s.distinctSet)
	}
	b, err := json.MarshalIndent(s, "", " ")
	must(err)
	must(os.WriteFile(path, b, 0o644))
}

// ---------- misc ----------

func must(err error) {
	if err != nil {
		infra("%v", err)
	}
}

// infra reports an infrastructure problem: never a verdict about the code.
func infra(format string, a ...any) {
	if os.Getenv("VERIF_DEBUG") != "" {
		panic(fmt.Sprintf("INFRA: "+format, a...)) // with the stack of the call, for whoever maintains the driver
	}
	fmt.Fprintf(os.Stderr, "INFRA: "+format+"\n", a...)
	os.Exit(2)
}

func sortedKeys[V any](m map[string]V) []string {
	ks := make([]string, 0, len(m))
	for k := range m {
		ks = append(ks, k)
	}
	sort.Strings(ks)
	return ks
}

func envInt(name string, def int) int {
	if v := os.Getenv(name); v != "" {
		if n, err := strconv.Atoi(v); err == nil {
			return n
		}
	}
	return def
}

func newRand(seed int64, salt string) *rand.Rand {
	h := int64(1469598103934665603)
	for _, c := range salt {
		h = (h ^ int64(c)) * 1099511628211
	}
	return rand.New(rand.NewSource(seed ^ h))
}

// catch runs f and reports whether it panicked (and with what).
func catch(f func()) (panicked bool, val any) {
	defer func() {
		if r := recover(); r != nil {
			panicked = true
			val = r
			if os.Getenv("VERIF_DEBUG") != "" {
				fmt.Fprintf(os.Stderr, "panic: %v\n%s\n", r, debug.Stack())
			}
		}
	}()
	f()
	return
}

func jsonUnmarshal(b []byte, v any) error { return json.Unmarshal(b, v) }

func splitList(s string) []string {
	var out []string
	for _, x := range strings.Split(s, ",") {
		if x != "" {
			out = append(out, x)
		}
	}
	return out
}

func reflectIsNil(v any) bool {
	rv := reflect.ValueOf(v)
	switch rv.Kind() {
	case reflect.Ptr, reflect.Map, reflect.Slice, reflect.Interface:
		return rv.IsNil()
	}
	return false
}
