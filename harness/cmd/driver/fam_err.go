package main

// Growth family G04 (ErrorObjects.tla): error values side by side.  Every history TLC emitted and
// seeded longer walks over its alphabet are run on real jsonapi.Error values; after every call the
// driver writes down what EVERY slot shows (Error(), the members of MarshalJSON, the three maps),
// and the stateful monitor Trace_ErrorObjects compares all of it with the model state.

import (
	"bufio"
	"encoding/json"
	"flag"
	"fmt"
	"os"
	"path/filepath"
	"sort"

	"github.com/mfcochauxlaberge/jsonapi"
)

type eOp struct {
	Op string   `json:"op"`
	I  int      `json:"i"`
	C  string   `json:"c"`
	A  []string `json:"a"`
	F  string   `json:"f"`
	V  string   `json:"v"`
}

type eKV struct {
	K string `json:"k"`
	V string `json:"v"`
}

type eSlot struct {
	Text    string   `json:"text"`
	Members []string `json:"members"`
	JSONOK  bool     `json:"jsonok"`
	ID      string   `json:"id"`
	Code    string   `json:"code"`
	Status  string   `json:"status"`
	Title   string   `json:"title"`
	Detail  string   `json:"detail"`
	Links   []eKV    `json:"links"`
	Source  []eKV    `json:"source"`
	Meta    []eKV    `json:"meta"`
}

type eEvent struct {
	Ev  string  `json:"ev"`
	Op  eOp     `json:"op"`
	Ret string  `json:"ret"`
	Obs []eSlot `json:"obs"`
	H   int     `json:"h"`
}

var errCtors = map[string]func(a []string) jsonapi.Error{
	"Error":                             func(a []string) jsonapi.Error { return jsonapi.NewError() },
	"BadRequest":                        func(a []string) jsonapi.Error { return jsonapi.NewErrBadRequest(a[0], a[1]) },
	"MalformedFilterParameter":          func(a []string) jsonapi.Error { return jsonapi.NewErrMalformedFilterParameter(a[0]) },
	"InvalidPageNumberParameter":        func(a []string) jsonapi.Error { return jsonapi.NewErrInvalidPageNumberParameter(a[0]) },
	"InvalidPageSizeParameter":          func(a []string) jsonapi.Error { return jsonapi.NewErrInvalidPageSizeParameter(a[0]) },
	"InvalidFieldValueInBody":           func(a []string) jsonapi.Error { return jsonapi.NewErrInvalidFieldValueInBody(a[0], a[1], a[2]) },
	"DuplicateFieldInFieldsParameter":   func(a []string) jsonapi.Error { return jsonapi.NewErrDuplicateFieldInFieldsParameter(a[0], a[1]) },
	"MissingDataMember":                 func(a []string) jsonapi.Error { return jsonapi.NewErrMissingDataMember() },
	"UnknownFieldInBody":                func(a []string) jsonapi.Error { return jsonapi.NewErrUnknownFieldInBody(a[0], a[1]) },
	"UnknownFieldInURL":                 func(a []string) jsonapi.Error { return jsonapi.NewErrUnknownFieldInURL(a[0]) },
	"UnknownParameter":                  func(a []string) jsonapi.Error { return jsonapi.NewErrUnknownParameter(a[0]) },
	"UnknownRelationshipInPath":         func(a []string) jsonapi.Error { return jsonapi.NewErrUnknownRelationshipInPath(a[0], a[1], a[2]) },
	"UnknownTypeInURL":                  func(a []string) jsonapi.Error { return jsonapi.NewErrUnknownTypeInURL(a[0]) },
	"UnknownFieldInFilterParameter":     func(a []string) jsonapi.Error { return jsonapi.NewErrUnknownFieldInFilterParameter(a[0]) },
	"UnknownOperatorInFilterParameter":  func(a []string) jsonapi.Error { return jsonapi.NewErrUnknownOperatorInFilterParameter(a[0]) },
	"InvalidValueInFilterParameter":     func(a []string) jsonapi.Error { return jsonapi.NewErrInvalidValueInFilterParameter(a[0], a[1]) },
	"UnknownCollationInFilterParameter": func(a []string) jsonapi.Error { return jsonapi.NewErrUnknownCollationInFilterParameter(a[0]) },
	"UnknownFilterParameterLabel":       func(a []string) jsonapi.Error { return jsonapi.NewErrUnknownFilterParameterLabel(a[0]) },
	"Unauthorized":                      func(a []string) jsonapi.Error { return jsonapi.NewErrUnauthorized() },
	"Forbidden":                         func(a []string) jsonapi.Error { return jsonapi.NewErrForbidden() },
	"NotFound":                          func(a []string) jsonapi.Error { return jsonapi.NewErrNotFound() },
	"PayloadTooLarge":                   func(a []string) jsonapi.Error { return jsonapi.NewErrPayloadTooLarge() },
	"RequestURITooLong":                 func(a []string) jsonapi.Error { return jsonapi.NewErrRequestURITooLong() },
	"UnsupportedMediaType":              func(a []string) jsonapi.Error { return jsonapi.NewErrUnsupportedMediaType() },
	"TooManyRequests":                   func(a []string) jsonapi.Error { return jsonapi.NewErrTooManyRequests() },
	"RequestHeaderFieldsTooLarge":       func(a []string) jsonapi.Error { return jsonapi.NewErrRequestHeaderFieldsTooLarge() },
	"InternalServerError":               func(a []string) jsonapi.Error { return jsonapi.NewErrInternalServerError() },
	"ServiceUnavailable":                func(a []string) jsonapi.Error { return jsonapi.NewErrServiceUnavailable() },
	"NotImplemented":                    func(a []string) jsonapi.Error { return jsonapi.NewErrNotImplemented() },
}

func textOf(x any) string {
	if s, ok := x.(string); ok {
		return s
	}
	return fmt.Sprintf("?%T:%v", x, x)
}

func errPairs[V any](m map[string]V) []eKV {
	out := []eKV{}
	for _, k := range sortedKeys(m) {
		out = append(out, eKV{K: k, V: textOf(any(m[k]))})
	}
	return out
}

// errSlot: everything one error value shows
func errSlot(e jsonapi.Error) eSlot {
	s := eSlot{Text: e.Error(), Members: []string{}, ID: e.ID, Code: e.Code, Status: e.Status, Title: e.Title, Detail: e.Detail,
		Links: errPairs(e.Links), Source: errPairs(e.Source), Meta: errPairs(map[string]any(e.Meta))}
	b, err := json.Marshal(e)
	if err != nil {
		return s
	}
	var m map[string]json.RawMessage
	if json.Unmarshal(b, &m) != nil {
		return s
	}
	s.Members = sortedKeys(m)
	// every member says what the field holds
	ok := true
	for name, want := range map[string]string{"id": e.ID, "code": e.Code, "status": e.Status, "title": e.Title, "detail": e.Detail} {
		if raw, has := m[name]; has {
			var got string
			ok = ok && json.Unmarshal(raw, &got) == nil && got == want
		}
	}
	for name, want := range map[string][]eKV{"links": s.Links, "source": s.Source, "meta": s.Meta} {
		if raw, has := m[name]; has {
			var got map[string]any
			ok = ok && json.Unmarshal(raw, &got) == nil && fmt.Sprint(errPairs(got)) == fmt.Sprint(want)
		}
	}
	// the pointer form marshals the same way
	b2, err2 := json.Marshal(&e)
	s.JSONOK = ok && err2 == nil && string(b2) == string(b)
	return s
}

func runErrHistory(n int, hist []eOp, h int) []eEvent {
	evs := []eEvent{{Ev: "reset", Op: eOp{Op: "reset", A: []string{"", "", ""}}, Ret: "ok", Obs: []eSlot{}, H: h}}
	slots := make([]jsonapi.Error, n)
	for i := range slots {
		slots[i] = jsonapi.NewError()
	}
	for _, op := range hist {
		ev := eEvent{Ev: "op", Op: op, Ret: "ok", H: h}
		p, _ := catch(func() {
			e := &slots[op.I-1]
			switch op.Op {
			case "New":
				f, ok := errCtors[op.C]
				if !ok {
					infra("unknown constructor %q", op.C)
				}
				*e = f(op.A)
			case "SetText":
				switch op.F {
				case "id":
					e.ID = op.V
				case "code":
					e.Code = op.V
				case "status":
					e.Status = op.V
				case "title":
					e.Title = op.V
				case "detail":
					e.Detail = op.V
				default:
					infra("unknown text %q", op.F)
				}
			case "Put":
				switch op.C {
				case "links":
					e.Links[op.F] = op.V
				case "source":
					e.Source[op.F] = op.V
				case "meta":
					e.Meta[op.F] = op.V
				default:
					infra("unknown map %q", op.C)
				}
			case "Delete":
				switch op.C {
				case "links":
					delete(e.Links, op.F)
				case "source":
					delete(e.Source, op.F)
				case "meta":
					delete(e.Meta, op.F)
				default:
					infra("unknown map %q", op.C)
				}
			case "Look":
			default:
				infra("unknown op %q", op.Op)
			}
			for i := range slots {
				ev.Obs = append(ev.Obs, errSlot(slots[i]))
			}
		})
		if p {
			ev.Ret = "panic"
			ev.Obs = []eSlot{}
		}
		evs = append(evs, ev)
		if p {
			break
		}
	}
	return evs
}

func errMain(args []string) {
	fs := flag.NewFlagSet("err", flag.ExitOnError)
	gen := fs.String("gen", "", "TLC generation output (ALPHA + S lines)")
	out := fs.String("out", "", "output directory")
	seed := fs.Int64("seed", 1, "seed")
	n := fs.Int("n", 2, "number of slots")
	walks := fs.Int("walks", 0, "seeded random walks over the alphabet")
	depth := fs.Int("depth", 30, "length of a walk")
	must(fs.Parse(args))
	var alpha []eOp
	var hists [][]eOp
	tlcLines(*gen, func(tag string, js []byte) {
		switch tag {
		case "ALPHA":
			if alpha == nil {
				must(json.Unmarshal(js, &alpha))
			}
		case "S":
			var s struct {
				Hist []eOp `json:"hist"`
			}
			must(json.Unmarshal(js, &s))
			hists = append(hists, s.Hist)
		}
	})
	if len(alpha) == 0 || len(hists) == 0 {
		infra("incomplete generation output %s", *gen)
	}
	rng := newRand(*seed, "err")
	sort.Slice(alpha, func(i, j int) bool { return fmt.Sprint(alpha[i]) < fmt.Sprint(alpha[j]) })
	for w := 0; w < *walks; w++ {
		var h []eOp
		for d := 0; d < *depth; d++ {
			h = append(h, alpha[rng.Intn(len(alpha))])
		}
		hists = append(hists, h)
	}
	classes := map[string]int{}
	total, chunk, inChunk := 0, 0, 0
	var fh *os.File
	var bw *bufio.Writer
	roll := func() {
		if bw != nil {
			must(bw.Flush())
			must(fh.Close())
		}
		var err error
		fh, err = os.Create(filepath.Join(*out, fmt.Sprintf("ev-%03d.ndjson", chunk)))
		must(err)
		bw = bufio.NewWriterSize(fh, 1<<20)
		chunk++
		inChunk = 0
	}
	roll()
	for h, hist := range hists {
		evs := runErrHistory(*n, hist, h+1)
		if inChunk > 0 && inChunk+len(evs) > 20000 {
			roll() // a history is never cut in two: the monitor starts every chunk from a reset
		}
		for _, ev := range evs {
			_, err := bw.Write(jsonLine(ev))
			must(err)
			c := ev.Op.Op + ":" + ev.Ret
			if ev.Op.Op == "New" {
				c = "New:" + ev.Op.C + ":" + ev.Ret
			}
			classes[c]++
			total++
			inChunk++
		}
	}
	must(bw.Flush())
	must(fh.Close())
	b, err := json.MarshalIndent(map[string]any{"events": total, "histories": len(hists), "chunks": chunk, "classes": classes,
		"exhaustive": true, "walks": *walks}, "", " ")
	must(err)
	must(os.WriteFile(filepath.Join(*out, "stats.json"), b, 0o644))
}
