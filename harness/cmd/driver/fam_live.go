package main

// Growth family G01 (LiveType.tla): soft resources that share one *Type while the type is edited.
// Every history TLC emitted (one per reachable state of the model) and seeded longer walks are run
// on real objects from scratch; each call is one event, a "reset" event starts each history, and
// the stateful monitor Trace_LiveType steps the model along.  Only the resource named by a call is
// touched (looking at a resource runs its check(), which is an action of the model).

import (
	"bufio"
	"encoding/json"
	"flag"
	"fmt"
	"math/rand"
	"os"
	"path/filepath"
	"sort"

	"github.com/mfcochauxlaberge/jsonapi"
)

type lOp struct {
	Op string `json:"op"`
	I  int    `json:"i"`
	F  string `json:"f"`
	K  string `json:"k"`
	V  int    `json:"v"`
}

type lObs struct {
	F string `json:"f"`
	K string `json:"k"`
	V int    `json:"v"`
}

type lEvent struct {
	Ev  string `json:"ev"` // reset | op
	Op  lOp    `json:"op"`
	Ret string `json:"ret"`
	Obs []lObs `json:"obs"`
	H   int    `json:"h"` // number of the history
}

func liveAttr(f, k string) jsonapi.Attr {
	switch k {
	case "string":
		return jsonapi.Attr{Name: f, Type: jsonapi.AttrTypeString}
	case "int":
		return jsonapi.Attr{Name: f, Type: jsonapi.AttrTypeInt}
	case "pint":
		return jsonapi.Attr{Name: f, Type: jsonapi.AttrTypeInt, Nullable: true}
	}
	infra("unknown kind %q", k)
	return jsonapi.Attr{}
}

func liveValue(k string, v int) any {
	switch k {
	case "string":
		return fmt.Sprintf("v%d", v)
	case "int":
		return v
	case "pint":
		n := v
		return &n
	}
	infra("unknown kind %q", k)
	return nil
}

// liveAbs: the model's reading of a Go value, by its own Go type
func liveAbs(f string, x any) lObs {
	switch g := x.(type) {
	case string:
		for v := 0; v <= 2; v++ {
			if (v == 0 && g == "") || g == fmt.Sprintf("v%d", v) {
				return lObs{F: f, K: "string", V: v}
			}
		}
	case int:
		if g >= 0 && g <= 2 {
			return lObs{F: f, K: "int", V: g}
		}
	case *int:
		if g == nil {
			return lObs{F: f, K: "pint", V: 0}
		}
		if *g >= 1 && *g <= 2 {
			return lObs{F: f, K: "pint", V: *g}
		}
	}
	return lObs{F: f, K: fmt.Sprintf("?%T", x), V: -1}
}

func runLiveHistory(n int, hist []lOp, h int) []lEvent {
	evs := []lEvent{{Ev: "reset", Op: lOp{Op: "reset"}, Ret: "ok", Obs: []lObs{}, H: h}}
	typ := &jsonapi.Type{Name: "lt", Attrs: map[string]jsonapi.Attr{}, Rels: map[string]jsonapi.Rel{}}
	rs := make([]*jsonapi.SoftResource, n)
	for i := range rs {
		rs[i] = &jsonapi.SoftResource{Type: typ}
	}
	for _, op := range hist {
		ev := lEvent{Ev: "op", Op: op, Ret: "ok", Obs: []lObs{}, H: h}
		p, _ := catch(func() {
			switch op.Op {
			case "TAdd":
				if typ.AddAttr(liveAttr(op.F, op.K)) != nil {
					ev.Ret = "err"
				}
			case "TRemove":
				typ.RemoveAttr(op.F)
			case "RAdd":
				rs[op.I-1].AddAttr(liveAttr(op.F, op.K))
			case "RRemove":
				rs[op.I-1].RemoveField(op.F)
			case "Set":
				rs[op.I-1].Set(op.F, liveValue(op.K, op.V))
			case "Read":
				r := rs[op.I-1]
				names := sortedKeys(r.Attrs())
				for _, f := range names {
					ev.Obs = append(ev.Obs, liveAbs(f, r.Get(f)))
				}
			default:
				infra("unknown op %q", op.Op)
			}
		})
		if p {
			ev.Ret = "panic"
		}
		evs = append(evs, ev)
		if p {
			break
		}
	}
	return evs
}

func liveMain(args []string) {
	fs := flag.NewFlagSet("live", flag.ExitOnError)
	gen := fs.String("gen", "", "TLC generation output (ALPHA + S lines)")
	out := fs.String("out", "", "output directory")
	seed := fs.Int64("seed", 1, "seed")
	n := fs.Int("n", 2, "number of resources that share the type")
	sample := fs.Int("sample", 0, "at most this many of TLC's histories (0 = all)")
	walks := fs.Int("walks", 0, "seeded random walks over the alphabet")
	depth := fs.Int("depth", 30, "length of a walk")
	must(fs.Parse(args))
	var alpha []lOp
	var hists [][]lOp
	tlcLines(*gen, func(tag string, js []byte) {
		switch tag {
		case "ALPHA":
			if alpha == nil {
				must(json.Unmarshal(js, &alpha))
			}
		case "S":
			var s struct {
				Hist []lOp `json:"hist"`
			}
			must(json.Unmarshal(js, &s))
			hists = append(hists, s.Hist)
		}
	})
	if len(alpha) == 0 || len(hists) == 0 {
		infra("incomplete generation output %s", *gen)
	}
	rng := newRand(*seed, "live")
	exhaustive := true
	if *sample > 0 && *sample < len(hists) {
		rng.Shuffle(len(hists), func(i, j int) { hists[i], hists[j] = hists[j], hists[i] })
		hists = hists[:*sample]
		exhaustive = false
	}
	// every history ends with a look at every resource (what it shows is what the model must predict)
	for i := range hists {
		h := append([]lOp{}, hists[i]...)
		for r := 1; r <= *n; r++ {
			h = append(h, lOp{Op: "Read", I: r})
		}
		hists[i] = h
	}
	sort.Slice(alpha, func(i, j int) bool { return fmt.Sprint(alpha[i]) < fmt.Sprint(alpha[j]) })
	for w := 0; w < *walks; w++ {
		var h []lOp
		for d := 0; d < *depth; d++ {
			op := alpha[rng.Intn(len(alpha))]
			if rng.Intn(4) == 0 {
				op = lOp{Op: "Read", I: 1 + rng.Intn(*n)}
			}
			h = append(h, op)
		}
		hists = append(hists, h)
	}
	classes := map[string]int{}
	total, chunk, inChunk := 0, 0, 0
	var fh *os.File
	var bw *bufio.Writer
	roll := func() {
		if bw != nil {
			must(bw.Flush())
			must(fh.Close())
		}
		var err error
		fh, err = os.Create(filepath.Join(*out, fmt.Sprintf("ev-%03d.ndjson", chunk)))
		must(err)
		bw = bufio.NewWriterSize(fh, 1<<20)
		chunk++
		inChunk = 0
	}
	roll()
	for h, hist := range hists {
		evs := runLiveHistory(*n, hist, h+1)
		if inChunk > 0 && inChunk+len(evs) > 60000 {
			roll() // a history is never cut in two: the monitor starts every chunk from a reset
		}
		for _, ev := range evs {
			_, err := bw.Write(jsonLine(ev))
			must(err)
			classes[ev.Op.Op+":"+ev.Ret]++
			total++
			inChunk++
		}
	}
	must(bw.Flush())
	must(fh.Close())
	b, err := json.MarshalIndent(map[string]any{"events": total, "histories": len(hists), "chunks": chunk, "classes": classes,
		"exhaustive": exhaustive, "walks": *walks}, "", " ")
	must(err)
	must(os.WriteFile(filepath.Join(*out, "stats.json"), b, 0o644))
	_ = rand.Int
}
