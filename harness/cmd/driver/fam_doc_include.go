package main

// Document.Include walks (C03): primary data of every kind and container, then
// a sequence of Include calls with repeated and primary-data resources.

import (
	"encoding/json"
	"math/rand"

	"github.com/mfcochauxlaberge/jsonapi"
)

type iState struct {
	Primary  [][2]string `json:"primary"`
	Included [][2]string `json:"included"`
}

type iEvent struct {
	Ev   string    `json:"ev"`
	Coll string    `json:"coll"`
	Pre  iState    `json:"pre"`
	Op   [2]string `json:"op"`
	Post iState    `json:"post"`
	Ret  string    `json:"ret"`
	Step int       `json:"-"`
	// the final event of a walk (ev = "included-doc"): the document is marshaled; Dup: a type/id pair is
	// there twice across data and included; Foreign: the primary data is of no kind the library knows
	Dup     bool `json:"dup"`
	Foreign bool `json:"foreign"`
}

func randIncludeCase(rng *rand.Rand, seed int64) dCase {
	d := dDoc{Kind: []string{"null", "one", "many", "many", "many"}[rng.Intn(5)], Coll: "none"}
	ids := []string{"x", "y", "z"}
	switch d.Kind {
	case "one":
		d.Primary = []dRes{randDocRes(rng, []string{"t1", "t2"}[rng.Intn(2)], "x")}
	case "many":
		d.Coll = []string{"resources", "soft", "wrapcol", "resources", "soft", "wrapcol", "resval"}[rng.Intn(7)]
		for i := rng.Intn(4); i > 0; i-- {
			typ := "t1"
			if (d.Coll == "resources" || d.Coll == "resval") && rng.Intn(3) == 0 {
				typ = "t2"
			}
			d.Primary = append(d.Primary, randDocRes(rng, typ, ids[i-1]))
		}
		// a mixed collection may hold the same id under two types (ids are unique per type only)
		if d.Coll == "resources" && len(d.Primary) > 0 && rng.Intn(2) == 0 {
			first := d.Primary[0]
			other := "t1"
			if first.Type == "t1" {
				other = "t2"
			}
			twin := randDocRes(rng, other, first.ID)
			if rng.Intn(2) == 0 {
				d.Primary = append(d.Primary, twin)
			} else {
				d.Primary = append([]dRes{twin}, d.Primary...)
			}
		}
	}
	c := dCase{Fam: "doc", Mode: "include", Doc: d, Seed: seed,
		Var: dVariant{Impl: []string{"soft", "wrap"}[rng.Intn(2)], IDMap: rng.Intn(len(idMaps))}}
	if d.Coll == "wrapcol" {
		c.Var.Impl = "wrap"
	}
	for k := 1 + rng.Intn(5); k > 0; k-- {
		// (the fourth id is the empty one: a resource that was never given an id is a resource too)
		c.Calls = append(c.Calls, [2]string{[]string{"t1", "t2"}[rng.Intn(2)], []string{"x", "y", "u", ""}[rng.Intn(4)]})
	}
	if rng.Intn(3) == 0 && d.Kind != "null" {
		// a document that came over the wire with inclusions of its own: Include is called on what
		// UnmarshalDocument returned
		c.Var.Wire = true
		used := map[string]bool{}
		for _, r := range c.Doc.Primary {
			used[r.Type+"/"+r.ID] = true
		}
		for _, k := range [][2]string{{"t2", "u"}, {"t1", "u"}, {"t2", "y"}} {
			if !used[k[0]+"/"+k[1]] && rng.Intn(2) == 0 {
				c.Doc.Included = append(c.Doc.Included, randDocRes(rng, k[0], k[1]))
			}
		}
	}
	return c
}

func runIncludeCase(c dCase) []iEvent {
	var evs []iEvent
	w := newDocWorld(c.Var, c.Seed)
	doc, url, _ := w.build(c.Doc)
	if c.Var.Wire {
		url.Params.Fields = map[string][]string{} // everything travels
		// a trip that fails is the round-trip events' business (they offer the same documents and are
		// judged); here the document is then used as it was built
		catch(func() {
			if payload, err := jsonapi.MarshalDocument(doc, url); err == nil {
				if back, err := jsonapi.UnmarshalDocument(payload, w.schema); err == nil && back != nil {
					doc = back
				}
			}
		})
	}
	state := func() iState {
		st := iState{Primary: [][2]string{}, Included: [][2]string{}}
		switch x := doc.Data.(type) {
		case jsonapi.Resource:
			st.Primary = append(st.Primary, [2]string{x.GetType().Name, w.v.tok(x.Get("id").(string))})
		case jsonapi.Collection:
			for i := 0; i < x.Len(); i++ {
				st.Primary = append(st.Primary, [2]string{x.At(i).GetType().Name, w.v.tok(x.At(i).Get("id").(string))})
			}
		}
		for _, r := range doc.Included {
			st.Included = append(st.Included, [2]string{r.GetType().Name, w.v.tok(r.Get("id").(string))})
		}
		return st
	}
	for i, call := range c.Calls {
		ev := iEvent{Ev: "include", Coll: c.Doc.Coll, Op: call, Ret: "ok", Step: i + 1}
		p, _ := catch(func() {
			ev.Pre = state()
			doc.Include(w.res(randDocRes(rand.New(rand.NewSource(int64(i))), call[0], call[1])))
			ev.Post = state()
		})
		if p {
			ev.Ret = "panic"
			if ev.Post.Primary == nil {
				ev.Post = ev.Pre
			}
		}
		evs = append(evs, ev)
	}
	if c.Final {
		// what a client receives once the list is built: no pair twice across data and included
		fin := iEvent{Ev: "included-doc", Coll: c.Doc.Coll, Op: [2]string{"", ""}, Ret: "ok", Step: len(c.Calls)}
		fin.Pre = state()
		fin.Post = fin.Pre
		switch doc.Data.(type) {
		case nil, jsonapi.Resource, jsonapi.Collection, jsonapi.Identifier, jsonapi.Identifiers:
		default:
			fin.Foreign = true
		}
		p, _ := catch(func() {
			url.Params.Fields = map[string][]string{}
			payload, err := jsonapi.MarshalDocument(doc, url)
			if err != nil {
				fin.Ret = "err"
				return
			}
			var top struct {
				Data     json.RawMessage `json:"data"`
				Included []struct {
					Type string `json:"type"`
					ID   string `json:"id"`
				} `json:"included"`
			}
			if json.Unmarshal(payload, &top) != nil {
				fin.Ret = "err-invalid-json"
				return
			}
			type pair struct {
				Type string `json:"type"`
				ID   string `json:"id"`
			}
			var many []pair
			var one *pair
			if json.Unmarshal(top.Data, &many) != nil {
				if json.Unmarshal(top.Data, &one) == nil && one != nil {
					many = []pair{*one}
				}
			}
			seen := map[pair]bool{}
			for _, x := range top.Included {
				many = append(many, pair{x.Type, x.ID})
			}
			for _, x := range many {
				if seen[x] {
					fin.Dup = true
				}
				seen[x] = true
			}
		})
		if p {
			fin.Ret = "panic"
		}
		evs = append(evs, fin)
	}
	return evs
}
