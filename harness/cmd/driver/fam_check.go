package main

// Schema.Check family (C15): every schema TLC enumerated (plus seeded random
// larger ones) is built as a literal, Check is called under recover, and the
// number of reported errors is recorded for TLC to judge against Offending.

import (
	"encoding/json"
	"flag"
	"fmt"
	"os"
	"strings"

	"github.com/mfcochauxlaberge/jsonapi"
)

func checkMain(args []string) {
	fs := flag.NewFlagSet("check", flag.ExitOnError)
	gen := fs.String("gen", "", "TLC generation outputs (S lines), comma separated")
	out := fs.String("out", "", "output directory")
	seed := fs.Int64("seed", 1, "seed")
	sample := fs.Int("sample", 0, "use at most this many generated schemas (0 = all)")
	random := fs.Int("random", 0, "number of random larger schemas")
	replay := fs.String("replay", "", "replay file")
	must(fs.Parse(args))

	if *replay != "" {
		var rf struct {
			Case sCase `json:"case"`
		}
		b, err := os.ReadFile(*replay)
		must(err)
		must(json.Unmarshal(b, &rf))
		os.Stdout.Write(jsonLine(runSchemaCase(rf.Case, nil)))
		return
	}

	type st struct {
		State []jType `json:"state"`
	}
	var states [][]jType
	for _, g := range strings.Split(*gen, ",") {
		if g == "" {
			continue
		}
		tlcLines(g, func(tag string, js []byte) {
			if tag == "S" {
				var s st
				must(json.Unmarshal(js, &s))
				states = append(states, s.State)
			}
		})
	}
	if len(states) == 0 {
		infra("no schemas in %s", *gen)
	}
	rng := newRand(*seed, "check")
	stt := newStats()
	stt.Exhaustive = true
	if *sample > 0 && *sample < len(states) {
		rng.Shuffle(len(states), func(i, j int) { states[i], states[j] = states[j], states[i] })
		states = states[:*sample]
		stt.Exhaustive = false
	}
	w := newEvWriter(*out, 150000)
	emit := func(state []jType, build string) {
		// Check must not depend on (nor change) the order in which the types were added
		state = append([]jType{}, state...)
		rng.Shuffle(len(state), func(i, j int) { state[i], state[j] = state[j], state[i] })
		// whether an end is one resource or many is no matter of coherence: the flags of some cases are
		// whatever a declaration by hand may say, each side on its own
		if rng.Intn(3) == 0 {
			stt.class("flags:free")
			for i := range state {
				rels := relMap{}
				for k, r := range state[i].Rels {
					r.To1, r.Fo1 = rng.Intn(2) == 0, rng.Intn(2) == 0
					rels[k] = r
				}
				state[i].Rels = rels
			}
		}
		// a schema among many types: a coherent chain of further types, before and after
		if rng.Intn(5) == 0 {
			stt.class("among-many-types")
			n := 6 + rng.Intn(6)
			fill := make([]jType, n)
			for k := range fill {
				fill[k] = jType{Name: fmt.Sprintf("fill%02d", k), Attrs: attrMap{}, Rels: relMap{}}
			}
			for k := 0; k+1 < n; k++ {
				a, b := fill[k].Name, fill[k+1].Name
				fill[k].Rels["nx"] = jRel{FT: a, FN: "nx", To1: true, TT: b, TN: "pv", Fo1: true}
				fill[k+1].Rels["pv"] = jRel{FT: b, FN: "pv", To1: true, TT: a, TN: "nx", Fo1: true}
			}
			cut := rng.Intn(n + 1)
			state = append(append(append([]jType{}, fill[:cut]...), state...), fill[cut:]...)
		}
		c := sCase{Fam: "check", Kind: "check", Build: build, State: state}
		stt.class("build:" + build)
		w.Inflight(c)
		ev := runSchemaCase(c, nil)
		stt.Calls++
		cls := "clean"
		if ev.Obs.NErrs > 0 {
			cls = "errors"
		}
		stt.class("Check:" + cls)
		if ev.Obs.NErrs > 0 {
			b, _ := json.Marshal(state)
			stt.distinct(string(b))
		}
		w.Emit(ev, c)
	}
	for i, s := range states {
		stt.States++
		emit(s, []string{"lit", "api", "litattrs"}[i%3]) // as a literal, through AddType / RemoveType, or with attributes named like the relationships
	}

	// Larger schemas: 3..5 types, a coherent base made of two-way pairs and
	// one-way relationships, then 0..2 single faults injected.
	names := []string{"a", "b", "c", "d", "e"}
	for i := 0; i < *random; i++ {
		n := 3 + rng.Intn(3)
		ts := make([]jType, n)
		for k := range ts {
			ts[k] = jType{Name: names[k], Attrs: attrMap{}, Rels: relMap{}}
		}
		nrel := rng.Intn(6)
		for k := 0; k < nrel; k++ {
			a, b := rng.Intn(n), rng.Intn(n)
			fn := fmt.Sprintf("r%d", k)
			tn := fmt.Sprintf("i%d", k)
			if rng.Intn(3) == 0 { // one-way
				ts[a].Rels[fn] = jRel{FT: ts[a].Name, FN: fn, To1: rng.Intn(2) == 0, TT: ts[b].Name}
				continue
			}
			r := jRel{FT: ts[a].Name, FN: fn, To1: rng.Intn(2) == 0, TT: ts[b].Name, TN: tn, Fo1: rng.Intn(2) == 0}
			ts[a].Rels[fn] = r
			ts[b].Rels[tn] = jRel{FT: r.TT, FN: r.TN, To1: r.Fo1, TT: r.FT, TN: r.FN, Fo1: r.To1}
		}
		for f := rng.Intn(3); f > 0; f-- {
			t := rng.Intn(n)
			ks := sortedKeys(ts[t].Rels)
			if len(ks) == 0 {
				continue
			}
			k := ks[rng.Intn(len(ks))]
			r := ts[t].Rels[k]
			switch rng.Intn(8) {
			case 7:
				r.TT = strings.ToUpper(r.TT) // a name that differs from a type's by its case only: no such type
			case 6:
				r.FT, r.TT = "zz", "zz" // the same, with its inverse name kept
			case 5:
				r.FT = "" // declared by hand without FromType
				if rng.Intn(2) == 0 {
					r.FT, r.TT, r.TN = "zz", "zz", "" // a type that was renamed: the relationship still says zz -> zz
				}
			case 0:
				r.TT = "zz" // dangling
			case 1:
				r.TT = names[rng.Intn(n)] // retargeted: the inverse is mis-typed
			case 2:
				r.TN = "nope" // misnamed inverse
			case 3:
				r.FT = names[rng.Intn(n)] // FromType not the owner
			case 4:
				delete(ts[t].Rels, k) // the other side loses its inverse
				continue
			}
			ts[t].Rels[k] = r
		}
		emit(ts, "lit")
		emit(ts, "api")
	}
	_ = jsonapi.Schema{}
	stt.Rule = "distinct schemas for which Check reported at least one error"
	w.Close()
	stt.write(*out+"/stats.json", w)
}
