package main

// Building real resources (SoftResource, and Wrapper around run-time struct
// types made with reflect.StructOf) from abstract field definitions, writing
// abstract values into them and projecting them back.

import (
	"fmt"
	"reflect"
	"sort"
	"strings"
	"time"

	"github.com/mfcochauxlaberge/jsonapi"
)

// jDef is a field definition as the models see it.
type jDef struct {
	Kind string `json:"kind"` // attr | rel
	K    string `json:"k"`    // attribute kind name (model level)
	Null bool   `json:"null"`
	To1  bool   `json:"to1"`
	TT   string `json:"tt"`
	TN   string `json:"-"` // name of the inverse relationship (not part of what the specifications see)
}

// jVal is an abstract value: nil, a rank, or relationship ids.
type jVal struct {
	Nil bool     `json:"nil"`
	R   int      `json:"r"`
	IDs []string `json:"ids"`
}

func (v jVal) norm() jVal {
	if v.IDs == nil {
		v.IDs = []string{}
	}
	return v
}

type defMap map[string]jDef
type valMap map[string]jVal

func (m *defMap) UnmarshalJSON(b []byte) error {
	if string(b) == "[]" {
		*m = defMap{}
		return nil
	}
	var x map[string]jDef
	if err := jsonUnmarshal(b, &x); err != nil {
		return err
	}
	*m = x
	return nil
}

func (m *valMap) UnmarshalJSON(b []byte) error {
	if string(b) == "[]" {
		*m = valMap{}
		return nil
	}
	var x map[string]jVal
	if err := jsonUnmarshal(b, &x); err != nil {
		return err
	}
	for k, v := range x {
		x[k] = v.norm()
	}
	*m = x
	return nil
}

// A kindMap instantiates the model's attribute kinds with real kinds: the
// non-bool base kinds are rotated by Shift, so that one abstract case is run
// for every one of the 28 kinds over the variants.
// kindMap: Shift rotates the attribute kinds; Rev lays the fields of a struct out in reverse order
// (another Go type for the same JSON:API type name)
type kindMap struct {
	Shift   int
	Rev     bool
	NamedID bool // the ID field is of a defined string type (Check accepts it)
	// Decoy: every field is preceded (every other one: followed) by another one that shares its json name, has another Go type
	// and an api tag that is neither attr nor rel ("related"): no field of the resource at all
	Decoy bool
}

var nonBool = []int{
	jsonapi.AttrTypeString,
	jsonapi.AttrTypeInt, jsonapi.AttrTypeInt8, jsonapi.AttrTypeInt16, jsonapi.AttrTypeInt32, jsonapi.AttrTypeInt64,
	jsonapi.AttrTypeUint, jsonapi.AttrTypeUint8, jsonapi.AttrTypeUint16, jsonapi.AttrTypeUint32, jsonapi.AttrTypeUint64,
	jsonapi.AttrTypeTime, jsonapi.AttrTypeBytes,
}

func idxNonBool(k int) int {
	for i, x := range nonBool {
		if x == k {
			return i
		}
	}
	return -1
}

// real maps a model kind name to the real attribute type constant.
func (km kindMap) real(model string) int {
	k := kindOf(model)
	i := idxNonBool(k)
	if i < 0 {
		return k // bool, invalid
	}
	return nonBool[(i+km.Shift)%len(nonBool)]
}

// model maps a real attribute type constant back to the model kind name.
func (km kindMap) model(real int) string {
	i := idxNonBool(real)
	if i < 0 {
		return kindName(real)
	}
	n := len(nonBool)
	return kindName(nonBool[((i-km.Shift)%n+n)%n])
}

func (km kindMap) attr(name string, d jDef) jsonapi.Attr {
	return jsonapi.Attr{Name: name, Type: km.real(d.K), Nullable: d.Null}
}

func relOf(typeName, name string, d jDef) jsonapi.Rel {
	return jsonapi.Rel{FromType: typeName, FromName: name, ToOne: d.To1, ToType: d.TT, ToName: d.TN}
}

// softType builds a jsonapi.Type from abstract definitions.
func softType(name string, fields defMap, km kindMap) *jsonapi.Type {
	t := &jsonapi.Type{Name: name, Attrs: map[string]jsonapi.Attr{}, Rels: map[string]jsonapi.Rel{}}
	for f, d := range fields {
		if d.Kind == "attr" {
			t.Attrs[f] = km.attr(f, d)
		} else {
			t.Rels[f] = relOf(name, f, d)
		}
	}
	return t
}

var goTypes = map[int]reflect.Type{
	jsonapi.AttrTypeString: reflect.TypeOf(""),
	jsonapi.AttrTypeInt:    reflect.TypeOf(int(0)),
	jsonapi.AttrTypeInt8:   reflect.TypeOf(int8(0)),
	jsonapi.AttrTypeInt16:  reflect.TypeOf(int16(0)),
	jsonapi.AttrTypeInt32:  reflect.TypeOf(int32(0)),
	jsonapi.AttrTypeInt64:  reflect.TypeOf(int64(0)),
	jsonapi.AttrTypeUint:   reflect.TypeOf(uint(0)),
	jsonapi.AttrTypeUint8:  reflect.TypeOf(uint8(0)),
	jsonapi.AttrTypeUint16: reflect.TypeOf(uint16(0)),
	jsonapi.AttrTypeUint32: reflect.TypeOf(uint32(0)),
	jsonapi.AttrTypeUint64: reflect.TypeOf(uint64(0)),
	jsonapi.AttrTypeBool:   reflect.TypeOf(false),
	jsonapi.AttrTypeTime:   reflect.TypeOf(time.Time{}),
	jsonapi.AttrTypeBytes:  reflect.TypeOf([]byte{}),
}

var structCache = map[string]reflect.Type{}

// structType declares, at run time, the struct a user would write for the type.
func structType(name string, fields defMap, km kindMap) reflect.Type {
	names := sortedKeys(fields)
	if km.Rev {
		for i, j := 0, len(names)-1; i < j; i, j = i+1, j-1 {
			names[i], names[j] = names[j], names[i]
		}
	}
	var key strings.Builder
	fmt.Fprintf(&key, "%s|%d|%v|%v|%v", name, km.Shift, km.Rev, km.NamedID, km.Decoy)
	for _, f := range names {
		fmt.Fprintf(&key, "|%s:%+v", f, fields[f])
	}
	if t, ok := structCache[key.String()]; ok {
		return t
	}
	idType := reflect.TypeOf("")
	if km.NamedID {
		idType = reflect.TypeOf(Label(""))
	}
	sf := []reflect.StructField{{
		Name: "ID", Type: idType,
		Tag: reflect.StructTag(fmt.Sprintf(`json:"id" api:"%s"`, name)),
	}}
	for i, f := range names {
		d := fields[f]
		var typ reflect.Type
		var api string
		if d.Kind == "attr" {
			typ = goTypes[km.real(d.K)]
			if d.Null {
				typ = reflect.PointerTo(typ)
			}
			api = "attr"
		} else {
			typ = reflect.TypeOf("")
			if !d.To1 {
				typ = reflect.TypeOf([]string{})
			}
			api = "rel," + d.TT
			if d.TN != "" {
				api += "," + d.TN
			}
		}
		dt := reflect.TypeOf(0)
		if typ.Kind() == reflect.Int {
			dt = reflect.TypeOf("")
		}
		decoy := reflect.StructField{
			Name: fmt.Sprintf("D%d", i), Type: dt,
			Tag: reflect.StructTag(fmt.Sprintf(`json:"%s" api:"%s"`, f, []string{"related", "relation,tt", "attribute"}[i%3])),
		}
		if km.Decoy && i%2 == 0 {
			sf = append(sf, decoy)
		}
		sf = append(sf, reflect.StructField{
			Name: fmt.Sprintf("F%d", i), Type: typ,
			Tag: reflect.StructTag(fmt.Sprintf(`json:"%s" api:"%s"`, f, api)),
		})
		if km.Decoy && i%2 == 1 {
			sf = append(sf, decoy) // (every other decoy follows the field it shadows)
		}
	}
	t := reflect.StructOf(sf)
	structCache[key.String()] = t
	return t
}

// newRes creates a zero-valued real resource of the abstract type.
func newRes(impl, name string, fields defMap, km kindMap) jsonapi.Resource {
	if impl == "wrap" {
		return jsonapi.Wrap(reflect.New(structType(name, fields, km)).Interface())
	}
	return &jsonapi.SoftResource{Type: softType(name, fields, km)}
}

// setField writes an abstract value into a real resource.
func setField(res jsonapi.Resource, f string, d jDef, v jVal, km kindMap, tb *vtable) {
	if d.Kind == "attr" {
		res.Set(f, tb.concrete(km.real(d.K), d.Null, v.R, v.Nil))
		return
	}
	if d.To1 {
		id := ""
		if len(v.IDs) > 0 {
			id = v.IDs[0]
		}
		res.Set(f, id)
		return
	}
	res.Set(f, append([]string{}, v.IDs...))
}

// projDefs projects the type a real resource exposes through Attrs()/Rels().
func projDefs(attrs map[string]jsonapi.Attr, rels map[string]jsonapi.Rel, km kindMap) defMap {
	out := defMap{}
	for k, a := range attrs {
		out[k] = jDef{Kind: "attr", K: km.model(a.Type), Null: a.Nullable}
		if a.Name != k {
			out[k] = jDef{Kind: "attr", K: "key-differs-from-name:" + a.Name}
		}
	}
	for k, r := range rels {
		if _, dup := out[k]; dup {
			out[k] = jDef{Kind: "both"}
			continue
		}
		out[k] = jDef{Kind: "rel", To1: r.ToOne, TT: r.ToType}
		if r.FromName != k {
			out[k] = jDef{Kind: "rel", TT: "key-differs-from-name:" + r.FromName}
		}
	}
	return out
}

// projVal projects what Get returns for a field of the given definition.
// A value of the wrong Go type gets rank -1, a value outside the table -2.
func projVal(got any, d jDef, km kindMap, tb *vtable) jVal {
	if d.Kind == "attr" {
		isNil, r := tb.rankOf(km.real(d.K), d.Null, got)
		return jVal{Nil: isNil, R: r, IDs: []string{}}
	}
	if d.To1 {
		s, ok := got.(string)
		if !ok {
			return jVal{R: -1, IDs: []string{}}
		}
		if s == "" {
			return jVal{IDs: []string{}}
		}
		return jVal{IDs: []string{s}}
	}
	ss, ok := got.([]string)
	if !ok {
		return jVal{R: -1, IDs: []string{}}
	}
	return jVal{IDs: append([]string{}, ss...)}
}

// projVals reads every exposed field of a real resource; relationship ids are made ASCII tokens
// (families whose ids are concretised, like the documents, use projValsRaw and map them back themselves).
func projVals(res jsonapi.Resource, km kindMap, tb *vtable) (defMap, valMap) {
	defs, vals := projValsRaw(res, km, tb)
	for f, v := range vals {
		for i, id := range v.IDs {
			v.IDs[i] = asciiID(id)
		}
		vals[f] = v
	}
	return defs, vals
}

func projValsRaw(res jsonapi.Resource, km kindMap, tb *vtable) (defMap, valMap) {
	defs := projDefs(res.Attrs(), res.Rels(), km)
	vals := valMap{}
	for f, d := range defs {
		if d.Kind == "both" || strings.HasPrefix(d.K, "key-differs") || strings.HasPrefix(d.TT, "key-differs") {
			vals[f] = jVal{R: -3, IDs: []string{}}
			continue
		}
		vals[f] = projVal(res.Get(f), d, km, tb)
	}
	return defs, vals
}

// asciiID: ids cross the TLC boundary as ASCII tokens; anything else is shown as hex
func asciiID(s string) string {
	for _, c := range s {
		if c < 0x21 || c > 0x7e || c == '"' || c == '\\' {
			return fmt.Sprintf("?%x", s)
		}
	}
	return s
}

func sortedIDs(ids []string) []string {
	out := append([]string{}, ids...)
	sort.Strings(out)
	return out
}
