package main

// Schema family (C14, C15 in part): drives the real jsonapi.Schema through
// the states and operations TLC generated and records every call as an event.

import (
	"encoding/json"
	"flag"
	"fmt"
	"os"
	"reflect"
	"regexp"
	"sort"
	"strconv"
	"strings"

	"github.com/mfcochauxlaberge/jsonapi"
)

type jAttr struct {
	Name string `json:"name"`
	K    string `json:"k"`
	Null bool   `json:"null"`
}

type jRel struct {
	FT  string `json:"ft"`
	FN  string `json:"fn"`
	To1 bool   `json:"to1"`
	TT  string `json:"tt"`
	TN  string `json:"tn"`
	Fo1 bool   `json:"fo1"`
}

type attrMap map[string]jAttr
type relMap map[string]jRel

// TLC's ToJson renders an empty function as [] : accept it as the empty map.
func (m *attrMap) UnmarshalJSON(b []byte) error {
	if string(b) == "[]" {
		*m = attrMap{}
		return nil
	}
	var x map[string]jAttr
	if err := json.Unmarshal(b, &x); err != nil {
		return err
	}
	*m = x
	return nil
}

func (m *relMap) UnmarshalJSON(b []byte) error {
	if string(b) == "[]" {
		*m = relMap{}
		return nil
	}
	var x map[string]jRel
	if err := json.Unmarshal(b, &x); err != nil {
		return err
	}
	*m = x
	return nil
}

func (m attrMap) MarshalJSON() ([]byte, error) {
	if m == nil {
		return []byte("{}"), nil
	}
	return json.Marshal(map[string]jAttr(m))
}

func (m relMap) MarshalJSON() ([]byte, error) {
	if m == nil {
		return []byte("{}"), nil
	}
	return json.Marshal(map[string]jRel(m))
}

type jType struct {
	Name  string  `json:"name"`
	Attrs attrMap `json:"attrs"`
	Rels  relMap  `json:"rels"`
}

type sOp struct {
	Op   string `json:"op"`
	T    string `json:"t"`
	N    string `json:"n"`
	Typ  jType  `json:"typ"`
	Attr jAttr  `json:"attr"`
	Rel  jRel   `json:"rel"`
}

type sObs struct {
	Has   map[string]bool   `json:"has"`
	Get   map[string]string `json:"get"`
	NErrs int               `json:"nerrs"`
	// NextErrs: what Check says, right afterwards, of a coherent schema that holds every type name this
	// one mentions (probeSchema): what one call found missing is nothing to the next
	NextErrs int `json:"next_nerrs"`
	// Blamed: the (type, relationship) pairs that the texts of Check's errors name; Unparsed: how many of
	// the texts name none in a form this harness reads (then the monitor falls back to counting)
	Blamed   [][]string `json:"blamed"`
	Unparsed int        `json:"unparsed"`
	// DeepSame: after Check the schema is what it was before, nil maps and empty maps told apart
	DeepSame bool `json:"deep_same"`
	// the empty name, probed apart
	HasEmpty bool   `json:"has_empty"`
	GetEmpty string `json:"get_empty"`
}

type sEvent struct {
	Ev   string  `json:"ev"`
	Pre  []jType `json:"pre"`
	Op   sOp     `json:"op"`
	Post []jType `json:"post"`
	Ret  string  `json:"ret"`
	Obs  sObs    `json:"obs"`
}

type sCase struct {
	Fam   string  `json:"fam"`
	Kind  string  `json:"kind"`  // step | check
	Build string  `json:"build"` // hist | lit
	Hist  []sOp   `json:"hist"`
	State []jType `json:"state"`
	Op    sOp     `json:"op"`
	Names int     `json:"names"` // concretisation of the name tokens (0 = as they are)
}

func kindName(t int) string {
	s := jsonapi.GetAttrTypeString(t, false)
	if s == "" {
		return "invalid"
	}
	return s
}

func kindOf(name string) int {
	if name == "invalid" {
		return jsonapi.AttrTypeInvalid
	}
	if name == "invalid-high" {
		return jsonapi.AttrTypeBytes + 1 // a number that is not one of the kinds
	}
	t, _ := jsonapi.GetAttrType(name)
	return t
}

// Concretisation of names.  The specification speaks of name tokens; the real
// schema gets the names a style gives them.  Style 1 makes them confusable: type
// and field names made of the same letter and underscores, so that different
// (type, name) tuples join to the same text ("a"+"_"+"a_a" = "a_a"+"_"+"a").
// Type positions and field positions are mapped separately; a token without an
// entry (zz, the empty name) stays as it is.
var nameStyle int

var (
	confTypes  = map[string]string{"a": "a", "b": "a_a", "c": "a_a_a"}
	confFields = map[string]string{"r": "a", "s": "a_a", "x": "a_a_a"}
	confTypesR = invert(confTypes)
	confFldsR  = invert(confFields)
)

func invert(m map[string]string) map[string]string {
	out := map[string]string{}
	for k, v := range m {
		out[v] = k
	}
	return out
}

func via(m map[string]string, s string) string {
	if nameStyle == 0 {
		return s
	}
	if v, ok := m[s]; ok {
		return v
	}
	if _, ok := invert(m)[s]; ok {
		return "?" + s // a token that would collide with a concrete name: not used by the cfgs
	}
	return s
}

func ctn(tok string) string  { return via(confTypes, tok) }   // type token -> name
func cfn(tok string) string  { return via(confFields, tok) }  // field token -> name
func atn(name string) string { return via(confTypesR, name) } // type name -> token
func afn(name string) string { return via(confFldsR, name) }  // field name -> token

func toRel(r jRel) jsonapi.Rel {
	return jsonapi.Rel{FromType: ctn(r.FT), FromName: cfn(r.FN), ToOne: r.To1, ToType: ctn(r.TT), ToName: cfn(r.TN), FromOne: r.Fo1}
}

func fromRel(r jsonapi.Rel) jRel {
	return jRel{FT: atn(r.FromType), FN: afn(r.FromName), To1: r.ToOne, TT: atn(r.ToType), TN: afn(r.ToName), Fo1: r.FromOne}
}

func toAttr(a jAttr) jsonapi.Attr {
	return jsonapi.Attr{Name: cfn(a.Name), Type: kindOf(a.K), Nullable: a.Null}
}

func toType(t jType) jsonapi.Type {
	typ := jsonapi.Type{Name: ctn(t.Name)}
	if len(t.Attrs) > 0 {
		typ.Attrs = map[string]jsonapi.Attr{}
		for k, a := range t.Attrs {
			typ.Attrs[cfn(k)] = toAttr(a)
		}
	}
	if len(t.Rels) > 0 {
		typ.Rels = map[string]jsonapi.Rel{}
		for k, r := range t.Rels {
			typ.Rels[cfn(k)] = toRel(r)
		}
	}
	return typ
}

// projByName: the schema at hand was declared under keys of its author's choosing ("hand" build): a
// type is then read as the library reads it, field by field under the field's own name (a name that
// occurs twice shows as such)
var projByName bool

// projNoAttrs: the attributes of the schema at hand were put there by the build ("litattrs"), beside
// the model's state: they are left out of what the model is shown
var projNoAttrs bool

func projType(t jsonapi.Type) jType {
	jt := jType{Name: atn(t.Name), Attrs: attrMap{}, Rels: relMap{}}
	for _, k := range sortedKeys(t.Attrs) {
		if projNoAttrs {
			break
		}
		a := t.Attrs[k]
		key := afn(k)
		if projByName {
			key = afn(a.Name)
			if _, twice := jt.Attrs[key]; twice {
				key += "#twice"
			}
		}
		jt.Attrs[key] = jAttr{Name: afn(a.Name), K: kindName(a.Type), Null: a.Nullable}
	}
	for _, k := range sortedKeys(t.Rels) {
		r := t.Rels[k]
		key := afn(k)
		if projByName {
			key = afn(r.FromName)
			if _, twice := jt.Rels[key]; twice {
				key += "#twice"
			}
		}
		jt.Rels[key] = fromRel(r)
	}
	return jt
}

func projSchema(s *jsonapi.Schema) []jType {
	out := make([]jType, 0, len(s.Types))
	for _, t := range s.Types {
		out = append(out, projType(t))
	}
	return out
}

// applySchemaOp performs one edit on the real schema; ret is ok|err|panic.
func applySchemaOp(s *jsonapi.Schema, op sOp) string {
	var err error
	p, _ := catch(func() {
		switch op.Op {
		case "AddType":
			err = s.AddType(toType(op.Typ))
		case "RemoveType":
			s.RemoveType(ctn(op.T))
		case "AddAttr":
			err = s.AddAttr(ctn(op.T), toAttr(op.Attr))
		case "RemoveAttr":
			s.RemoveAttr(ctn(op.T), cfn(op.N))
		case "AddRel":
			err = s.AddRel(ctn(op.T), toRel(op.Rel))
		case "RemoveRel":
			s.RemoveRel(ctn(op.T), cfn(op.N))
		case "AddTwoWayRel":
			err = s.AddTwoWayRel(toRel(op.Rel))
		default:
			infra("unknown schema op %q", op.Op)
		}
	})
	switch {
	case p:
		return "panic"
	case err != nil:
		return "err"
	}
	return "ok"
}

func buildSchema(c sCase) *jsonapi.Schema {
	s := &jsonapi.Schema{}
	if c.Build == "lit" || c.Build == "litattrs" {
		for _, t := range c.State {
			typ := toType(t)
			if c.Build == "litattrs" {
				// every type also has attributes, named like its own relationships and like the inverses
				// they name (Type.AddAttr and AddRel each look at their own kind only): nothing to Check
				for _, r := range typ.Rels {
					for _, n := range []string{r.FromName, r.ToName} {
						if n != "" {
							if typ.Attrs == nil {
								typ.Attrs = map[string]jsonapi.Attr{}
							}
							typ.Attrs[n] = jsonapi.Attr{Name: n, Type: jsonapi.AttrTypeString}
						}
					}
				}
			}
			s.Types = append(s.Types, typ)
		}
		return s
	}
	if c.Build == "hand" {
		// the same types declared by hand, every field under a key that is not its name
		for _, t := range c.State {
			typ := toType(t)
			ha, hr := map[string]jsonapi.Attr{}, map[string]jsonapi.Rel{}
			for i, k := range sortedKeys(typ.Attrs) {
				ha[fmt.Sprintf("key%d", i)] = typ.Attrs[k]
			}
			for i, k := range sortedKeys(typ.Rels) {
				hr[fmt.Sprintf("key%d", i)] = typ.Rels[k]
			}
			if typ.Attrs != nil {
				typ.Attrs = ha
			}
			if typ.Rels != nil {
				typ.Rels = hr
			}
			s.Types = append(s.Types, typ)
		}
		return s
	}
	if c.Build == "api" {
		// the same types through the editing methods, around two types that are removed
		// again: whatever the methods keep besides Types (an index, a cache) has seen a removal
		must(s.AddType(jsonapi.Type{Name: "zq0"}))
		for i, t := range c.State {
			if i == 1 {
				must(s.AddType(jsonapi.Type{Name: "zq1"}))
			}
			must(s.AddType(toType(t)))
		}
		s.RemoveType("zq0")
		s.RemoveType("zq1")
		// ... and a dangling relationship that is checked and then removed again: what Check or
		// Rels keep from one call to the next has to follow RemoveRel too
		if len(c.State) > 0 {
			first := ctn(c.State[0].Name)
			if s.AddRel(first, jsonapi.Rel{FromType: first, FromName: "zq", ToOne: true, ToType: "zq-missing"}) == nil {
				quietly(func() { _ = s.Check() })
				quietly(func() { _ = s.Rels() })
				s.RemoveRel(first, "zq")
			}
		}
		return s
	}
	for i, op := range c.Hist {
		applySchemaOp(s, op)
		if c.Names == 1 || i%2 == 0 {
			// the queries in between the edits: whatever they keep from one call to the next
			// (an index, a memoised listing or verdict) has to follow every kind of edit
			quietly(func() { _ = s.Check() })
			quietly(func() { _ = s.Rels() })
			_ = s.HasType("zq")
			_ = s.GetType("zq")
		}
	}
	return s
}

// quietly runs a query of the set-up.  A panic there does not end the run: it is remembered, and the
// Check event of the case reports it (a Check that panics on the way to a schema panics all the same).
var setupPanicked bool

func quietly(f func()) {
	if p, _ := catch(f); p {
		setupPanicked = true
	}
}

// probeSchema: a coherent schema of its own that holds a type for every type name s mentions - its
// types, and the types its relationships point to or claim to belong to - and one more type with a
// one-way relationship to each of them
func probeSchema(s *jsonapi.Schema) *jsonapi.Schema {
	names := map[string]bool{}
	for _, t := range s.Types {
		names[t.Name] = true
		for _, r := range t.Rels {
			names[r.ToType], names[r.FromType] = true, true
		}
	}
	delete(names, "")
	delete(names, "probe-hub")
	p := &jsonapi.Schema{}
	hub := jsonapi.Type{Name: "probe-hub", Rels: map[string]jsonapi.Rel{}}
	for i, n := range sortedKeys(names) {
		p.Types = append(p.Types, jsonapi.Type{Name: n})
		rn := fmt.Sprintf("to%d", i)
		hub.Rels[rn] = jsonapi.Rel{FromType: "probe-hub", FromName: rn, ToOne: true, ToType: n}
	}
	p.Types = append(p.Types, hub)
	return p
}

func observeSchema(s *jsonapi.Schema, probes []string) sObs {
	o := sObs{Has: map[string]bool{}, Get: map[string]string{}, Blamed: [][]string{}, DeepSame: true}
	o.HasEmpty = s.HasType("")
	o.GetEmpty = s.GetType("").Name
	for _, n := range probes {
		o.Has[n] = s.HasType(ctn(n))
		o.Get[n] = atn(s.GetType(ctn(n)).Name)
	}
	return o
}

// runSchemaCase executes one case on a fresh real schema and returns the event.
func runSchemaCase(c sCase, probes []string) sEvent {
	nameStyle = c.Names
	defer func() { nameStyle = 0 }()
	setupPanicked = false
	projByName = c.Build == "hand"
	projNoAttrs = c.Build == "litattrs"
	defer func() { projByName, projNoAttrs = false, false }()
	s := buildSchema(c)
	ev := sEvent{Pre: projSchema(s), Op: c.Op}
	if c.Kind == "check" {
		ev.Ev = "check"
		ev.Op = sOp{Op: "Check"}
		var errs []error
		before := deepTypes(s.Types)
		p, _ := catch(func() { errs = s.Check() })
		deepSame := reflect.DeepEqual(before, s.Types)
		ev.Ret = "ok"
		if p || setupPanicked {
			ev.Ret = "panic"
		}
		ev.Post = projSchema(s)
		ev.Obs = observeSchema(s, nil)
		ev.Obs.NErrs = len(errs)
		ev.Obs.DeepSame = deepSame
		ev.Obs.Blamed, ev.Obs.Unparsed = blameOf(errs)
		if pr, _ := catch(func() { ev.Obs.NextErrs = len(probeSchema(s).Check()) }); pr {
			ev.Obs.NextErrs = -1
		}
		return ev
	}
	ev.Ev = "step"
	ev.Ret = applySchemaOp(s, c.Op)
	ev.Post = projSchema(s)
	if ev.Ret == "panic" {
		ev.Obs = observeSchema(&jsonapi.Schema{}, nil)
	} else {
		ev.Obs = observeSchema(s, probes)
	}
	return ev
}

func probesOf(alpha []sOp) []string {
	set := map[string]struct{}{"zz": {}}
	for _, op := range alpha {
		if op.T != "" {
			set[op.T] = struct{}{}
		}
		if op.Typ.Name != "" {
			set[op.Typ.Name] = struct{}{}
		}
	}
	return sortedKeys(set)
}

func schemaMain(args []string) {
	fs := flag.NewFlagSet("schema", flag.ExitOnError)
	gen := fs.String("gen", "", "TLC generation output (ALPHA + S lines)")
	out := fs.String("out", "", "output directory for event chunks")
	seed := fs.Int64("seed", 1, "seed")
	sample := fs.Int("sample", 0, "fan out from at most this many states (0 = all)")
	walks := fs.Int("walks", 0, "number of random walks")
	depth := fs.Int("depth", 40, "walk depth")
	lit := fs.Bool("lit", false, "also build every state as a literal Schema{Types: ...}")
	replay := fs.String("replay", "", "re-execute the case in this file and print its event")
	must(fs.Parse(args))

	if *replay != "" {
		var rf struct {
			Case   sCase    `json:"case"`
			Probes []string `json:"probes"`
		}
		b, err := os.ReadFile(*replay)
		must(err)
		must(json.Unmarshal(b, &rf))
		ev := runSchemaCase(rf.Case, rf.Probes)
		os.Stdout.Write(jsonLine(ev))
		return
	}

	rng := newRand(*seed, "schema")
	stt := newStats()
	stt.Exhaustive = true
	w := newEvWriter(*out, 200000)
	var alpha []sOp
	var probes []string
	type st struct {
		Hist  []sOp   `json:"hist"`
		State []jType `json:"state"`
	}
	emit := func(c sCase) {
		ev := runSchemaCase(c, probes)
		stt.Calls++
		stt.class(ev.Op.Op + ":" + ev.Ret)
		if ev.Ev == "step" {
			pj, _ := json.Marshal(ev.Pre)
			oj, _ := json.Marshal(ev.Op)
			if ev.Ret != "ok" || fmt.Sprint(ev.Pre) != fmt.Sprint(ev.Post) {
				stt.distinct(string(pj) + string(oj))
			}
		}
		w.Emit(ev, c)
	}
	allProbes := map[string]struct{}{}
	var allAlpha []sOp
	for _, genFile := range strings.Split(*gen, ",") {
		if genFile == "" {
			continue
		}
		alpha = nil
		var states []st
		tlcLines(genFile, func(tag string, js []byte) {
			switch tag {
			case "ALPHA":
				if alpha == nil {
					must(json.Unmarshal(js, &alpha))
				}
			case "S":
				var s st
				must(json.Unmarshal(js, &s))
				states = append(states, s)
			}
		})
		if len(alpha) == 0 || len(states) == 0 {
			infra("no alphabet or no states in %s", genFile)
		}
		allAlpha = append(allAlpha, alpha...)
		probes = probesOf(alpha)
		for _, p := range probes {
			allProbes[p] = struct{}{}
		}
		chosen := states
		if *sample > 0 && *sample < len(states) {
			// always keep the shallow states, sample the rest
			var shallow, deep []st
			for _, s := range states {
				if len(s.Hist) <= 2 {
					shallow = append(shallow, s)
				} else {
					deep = append(deep, s)
				}
			}
			rng.Shuffle(len(deep), func(i, j int) { deep[i], deep[j] = deep[j], deep[i] })
			n := *sample - len(shallow)
			if n < 0 {
				n = 0
			}
			if n > len(deep) {
				n = len(deep)
			}
			chosen = append(shallow, deep[:n]...)
			stt.Exhaustive = false
		}
		// the universe with two relationship names on two types is the one where joined
		// names can coincide: it is run under both name styles, the others alternate
		twoByTwo := false
		for _, op := range alpha {
			if op.Op == "AddTwoWayRel" && op.Rel.TT == "b" && (op.Rel.FN == "s" || op.Rel.TN == "s") {
				twoByTwo = true
			}
		}
		if twoByTwo && len(chosen) > 1200 {
			// (this universe is run under both name styles: a smaller sample keeps the run within minutes)
			chosen = chosen[:1200]
			stt.Exhaustive = false
		}
		for si, s := range chosen {
			stt.States++
			builds := []string{"hist"}
			if *lit && !twoByTwo {
				builds = append(builds, "lit")
			}
			if si%5 == 0 && !twoByTwo {
				builds = append(builds, "hand")
			}
			styles := []int{si % 2}
			if twoByTwo {
				styles = []int{0, 1}
			}
			for _, b := range builds {
				for _, ns := range styles {
					base := sCase{Fam: "schema", Build: b, Hist: s.Hist, State: s.State, Names: ns}
					for _, op := range alpha {
						c := base
						c.Kind = "step"
						c.Op = op
						emit(c)
					}
					c := base
					c.Kind = "check"
					emit(c)
					stt.class(fmt.Sprintf("names:%d", ns))
				}
			}
		}
	}
	// the probes travel with the cases so that a replay observes the same names
	probes = sortedKeys(allProbes)
	alpha = allAlpha
	pb, _ := json.Marshal(map[string]any{"probes": probes})
	must(os.WriteFile(*out+"/replay_extra.json", pb, 0o644))

	// random walks: long histories through the real methods (hidden state such
	// as shared backing arrays after a splice only shows on long histories)
	for i := 0; i < *walks; i++ {
		var hist []sOp
		for d := 0; d < *depth; d++ {
			op := alpha[rng.Intn(len(alpha))]
			// bias towards successful additions so that walks get somewhere
			if rng.Intn(3) == 0 {
				for k := 0; k < 20 && op.Op != "AddType" && op.Op != "AddTwoWayRel"; k++ {
					op = alpha[rng.Intn(len(alpha))]
				}
			}
			c := sCase{Fam: "schema", Kind: "step", Build: "hist", Hist: append([]sOp(nil), hist...), Op: op, Names: i % 2}
			ev := runSchemaCase(c, probes)
			stt.Calls++
			stt.class(ev.Op.Op + ":" + ev.Ret)
			w.Emit(ev, c)
			if ev.Ret == "panic" {
				break // the real object is no longer trustworthy
			}
			hist = append(hist, op)
			if d%8 == 7 {
				emit(sCase{Fam: "schema", Kind: "check", Build: "hist", Hist: append([]sOp(nil), hist...)})
			}
		}
	}

	stt.Rule = "distinct (projected pre-state, op) pairs whose call returned an error, panicked or changed the schema"
	w.Close()
	stt.write(*out+"/stats.json", w)
}

// deepTypes: a copy of the list of types that shares nothing with it and keeps nil maps nil
func deepTypes(ts []jsonapi.Type) []jsonapi.Type {
	if ts == nil {
		return nil
	}
	out := make([]jsonapi.Type, len(ts))
	for i, t := range ts {
		c := t
		if t.Attrs != nil {
			c.Attrs = map[string]jsonapi.Attr{}
			for k, v := range t.Attrs {
				c.Attrs[k] = v
			}
		}
		if t.Rels != nil {
			c.Rels = map[string]jsonapi.Rel{}
			for k, v := range t.Rels {
				c.Rels[k] = v
			}
		}
		out[i] = c
	}
	return out
}

var blameRe = regexp.MustCompile(`relationship ("(?:[^"\\]|\\.)*")[^"]*("(?:[^"\\]|\\.)*")`)

// blameOf: which relationship of which type each error of Check speaks of (all three texts of schema.go
// say `relationship "name"` and then the owning type's name in quotes)
func blameOf(errs []error) ([][]string, int) {
	seen := map[[2]string]bool{}
	out := [][]string{}
	unparsed := 0
	for _, e := range errs {
		m := blameRe.FindStringSubmatch(e.Error())
		if m == nil {
			unparsed++
			continue
		}
		fn, err1 := strconv.Unquote(m[1])
		tn, err2 := strconv.Unquote(m[2])
		if err1 != nil || err2 != nil {
			unparsed++
			continue
		}
		k := [2]string{atn(tn), afn(fn)}
		if !seen[k] {
			seen[k] = true
			out = append(out, []string{k[0], k[1]})
		}
	}
	sort.Slice(out, func(i, j int) bool { return out[i][0]+"\x00"+out[i][1] < out[j][0]+"\x00"+out[j][1] })
	return out, unparsed
}
