package main

// Filter family (C10): every leaf case and tree shape TLC emitted, instantiated
// for every kind of the case's class, on a soft resource and on a wrapped
// struct holding the same value; plus seeded random pairs of real values.

import (
	"bytes"
	"encoding/json"
	"flag"
	"fmt"
	"math/big"
	"os"
	"reflect"
	"time"

	"github.com/mfcochauxlaberge/jsonapi"
)

type fCaseT struct {
	Cls  string `json:"cls"`
	Null bool   `json:"null"`
	Op   string `json:"op"`
	RV   fVal   `json:"rv"`
	CV   fVal   `json:"cv"`
}

type fNode struct {
	O string  `json:"o"`
	I int     `json:"i,omitempty"`
	V bool    `json:"v"`
	C []fNode `json:"c"`
}

type fEvent struct {
	Ev   string `json:"ev"`
	Cls  string `json:"cls"`
	Kind string `json:"kind"`
	Null bool   `json:"null"`
	Impl string `json:"impl"`
	Op   string `json:"op"`
	RV   fVal   `json:"rv"`
	CV   fVal   `json:"cv"`
	Tree fNode  `json:"tree"`
	Res  bool   `json:"res"`
	Ret  string `json:"ret"`
}

// a concrete leaf: values are carried as raw material so that a replay
// rebuilds exactly the same Go values
type fLeaf struct {
	Cls   string `json:"cls"`
	Kind  int    `json:"kind"`
	Null  bool   `json:"null"`
	Op    string `json:"op"`
	RV    fVal   `json:"rv"`
	CV    fVal   `json:"cv"`
	Table int    `json:"table"`
	// Spell: which spelling the unknown operator ("nope" in the model) takes
	Spell int `json:"spell"`
	// random events carry the concrete values themselves (base64 / decimal / RFC3339)
	RawR string `json:"rawr,omitempty"`
	RawC string `json:"rawc,omitempty"`
}

type fCase struct {
	Fam    string  `json:"fam"`
	Kind   string  `json:"kind"` // leaf | tree
	Impl   string  `json:"impl"`
	Leaf   fLeaf   `json:"leaf"`
	Leaves []fLeaf `json:"leaves"`
	Shape  fNode   `json:"shape"`
}

var filterFields = defMap{
	"o": {Kind: "rel", To1: true, TT: "tt"},
	"m": {Kind: "rel", To1: false, TT: "tt"},
}

// resourceFor builds a resource of a one-attribute type (plus a to-one and a
// to-many relationship) holding the given value.
func resourceFor(impl string, kind int, null bool, field string, val any) jsonapi.Resource {
	fields := defMap{"o": filterFields["o"], "m": filterFields["m"],
		"v": {Kind: "attr", K: kindName(kind), Null: null}}
	res := newRes(impl, "ft", fields, kindMap{})
	res.Set("id", "r1")
	if b, isBytes := val.([]byte); isBytes && len(b) == 0 && field == "v" {
		// the empty byte string of a resource is the one it was born with (never written: a nil slice in
		// a struct, an empty one in a soft resource): it reads as empty either way
		return res
	}
	if val != nil {
		res.Set(field, val)
	}
	return res
}

func rawValue(kind int, raw string) any {
	switch kind {
	case jsonapi.AttrTypeString:
		return raw
	case jsonapi.AttrTypeBytes:
		return []byte(raw)
	case jsonapi.AttrTypeTime:
		return mustTime(raw)
	case jsonapi.AttrTypeBool:
		return raw == "true"
	}
	n, ok := new(big.Int).SetString(raw, 10)
	if !ok {
		infra("bad raw number %q", raw)
	}
	rt := goTypes[kind]
	v := reflect.New(rt).Elem()
	if n.Sign() < 0 || rt.Kind() >= reflect.Int && rt.Kind() <= reflect.Int64 {
		v.SetInt(n.Int64())
	} else {
		v.SetUint(n.Uint64())
	}
	return v.Interface()
}

func ptrTo(base any) any {
	p := reflect.New(reflect.TypeOf(base))
	p.Elem().Set(reflect.ValueOf(base))
	return p.Interface()
}

// realIDs: the token "e" stands for the empty id; the others for ids with commas in them, chosen so
// that two different pairs join to the same text ("1,2" + "," + "3" = "1" + "," + "2,3")
var idOfToken = map[string]string{"e": "", "a": "1,2", "b": "3", "c": "1", "d": "2,3"}

func realIDs(toks []string) []string {
	out := make([]string, len(toks))
	for i, t := range toks {
		out[i] = t
		if id, ok := idOfToken[t]; ok {
			out[i] = id
		}
	}
	return out
}

// leafValues returns the field, the value to store and the filter value.
func leafValues(lf fLeaf) (field string, rval, cval any) {
	switch lf.Cls {
	case "to1":
		field = "o"
		id := ""
		if len(lf.RV.IDs) > 0 {
			id = realIDs(lf.RV.IDs)[0]
		}
		rval = id
		if lf.Op == "in" {
			cval = realIDs(lf.CV.IDs)
		} else {
			c := ""
			if len(lf.CV.IDs) > 0 {
				c = realIDs(lf.CV.IDs)[0]
			}
			cval = c
		}
	case "toN":
		field = "m"
		rval = realIDs(lf.RV.IDs)
		if lf.Op == "has" {
			cval = realIDs(lf.CV.IDs)[0]
		} else {
			cval = realIDs(lf.CV.IDs)
		}
		// the empty list has two spellings in Go: the same empty set of ids
		if lf.Table%3 == 1 && len(lf.RV.IDs) == 0 {
			rval = nil // never assigned: a wrapped struct then holds a nil slice
		}
		if lf.Table%3 == 2 && lf.Op != "has" && len(lf.CV.IDs) == 0 {
			cval = []string(nil)
		}
	default:
		field = "v"
		if lf.RawR != "" || lf.RawC != "" {
			rb, cb := rawValue(lf.Kind, lf.RawR), rawValue(lf.Kind, lf.RawC)
			if lf.Null {
				rval, cval = ptrTo(rb), ptrTo(cb)
			} else {
				rval, cval = rb, cb
			}
			if lf.RV.Nil {
				rval = jsonapi.GetZeroValue(lf.Kind, true)
			}
			if lf.CV.Nil {
				cval = jsonapi.GetZeroValue(lf.Kind, true)
			}
			return
		}
		rval = ordValue(lf.Kind, lf.Null, lf.RV, lf.Table)
		cval = ordValue(lf.Kind, lf.Null, lf.CV, lf.Table)

		// the same instant written in another zone is the same value
		if lf.Kind == jsonapi.AttrTypeTime && !lf.CV.Nil {
			zone := time.FixedZone("", 3600*(lf.Table%23-11)+1800)
			if t, ok := cval.(time.Time); ok {
				cval = t.In(zone)
			} else if p, ok := cval.(*time.Time); ok {
				t2 := p.In(zone)
				cval = &t2
			}
		}
	}
	return
}

// the unknown operator has many spellings: no operator at all, near misses of the known ones
// ... and over a list of filters: words a reader may expect to mean something
var groupSpells = []string{"nope", "xor", "not", "", "AND", "Or", "nor", "&&"}

var unknownOps = []string{"nope", "", "==", "eq", "=<", " =", "AND", "~", "!", "<>", "IN", "Has"}

func realOp(lf fLeaf) string {
	if lf.Op == "nope" {
		return unknownOps[lf.Spell%len(unknownOps)]
	}
	return lf.Op
}

func evalLeaf(impl string, lf fLeaf) (res bool, ret string) {
	ret = "ok"
	p, _ := catch(func() {
		field, rval, cval := leafValues(lf)
		r := resourceFor(impl, lf.Kind, lf.Null, field, rval)
		f := &jsonapi.Filter{Field: field, Op: realOp(lf), Val: cval}
		if ids, ok := cval.([]string); ok {
			// a filter object is a value: it was applied with another list before, then given this one
			f.Val = append([]string{"~other"}, ids...)[:1]
			_ = f.IsAllowed(r)
			f.Val = cval
		}
		res = f.IsAllowed(r)
		// ... and a verdict does not wear off: the same object on the same resource again
		for i := 0; i < 2; i++ {
			if f.IsAllowed(r) != res {
				ret = "verdict-changes-when-asked-again"
			}
		}
		if lf.Null && !lf.RV.Nil && reflect.DeepEqual(lf.RV, lf.CV) {
			// the same comparison with the very pointer the resource holds (a value read from it
			// earlier): where a value lives does not change the verdict
			f2 := &jsonapi.Filter{Field: field, Op: realOp(lf), Val: r.Get(field)}
			if f2.IsAllowed(r) != res {
				ret = "verdict-depends-on-the-address"
			}
		}
	})
	if p {
		ret = "panic"
	}
	return
}

func runFilterCase(c fCase) fEvent {
	zero := fVal{}.norm()
	if c.Kind == "leaf" {
		lf := c.Leaf
		res, ret := evalLeaf(c.Impl, lf)
		return fEvent{Ev: "leaf", Cls: lf.Cls, Kind: kindName(lf.Kind), Null: lf.Null, Impl: c.Impl, Op: lf.Op,
			RV: lf.RV.norm(), CV: lf.CV.norm(), Tree: fNode{O: "leaf", C: []fNode{}}, Res: res, Ret: ret}
	}
	// tree: all leaves are evaluated on ONE resource (the leaves share kind and rv)
	ev := fEvent{Ev: "tree", Impl: c.Impl, RV: zero, CV: zero, Ret: "ok"}
	p, _ := catch(func() {
		lf0 := c.Leaves[0]
		field, rval, _ := leafValues(lf0)
		r := resourceFor(c.Impl, lf0.Kind, lf0.Null, field, rval)
		verdicts := make([]bool, len(c.Leaves))
		filters := make([]*jsonapi.Filter, len(c.Leaves))
		for i, lf := range c.Leaves {
			_, _, cval := leafValues(lf)
			filters[i] = &jsonapi.Filter{Field: field, Op: realOp(lf), Val: cval}
			verdicts[i] = filters[i].IsAllowed(r)
		}
		var build func(n fNode) (*jsonapi.Filter, fNode)
		build = func(n fNode) (*jsonapi.Filter, fNode) {
			if n.O == "leaf" {
				return filters[n.I-1], fNode{O: "leaf", V: verdicts[n.I-1], C: []fNode{}}
			}
			kids := []*jsonapi.Filter{}
			out := fNode{O: n.O, C: []fNode{}}
			for _, ch := range n.C {
				f, o := build(ch)
				kids = append(kids, f)
				out.C = append(out.C, o)
			}
			op := n.O
			if op != "and" && op != "or" {
				// the model's unknown operator over a list of filters, in one of its spellings
				op = groupSpells[(len(kids)+len(c.Leaves)+int(c.Leaves[0].Kind))%len(groupSpells)]
			}
			return &jsonapi.Filter{Op: op, Val: kids}, out
		}
		f, tree := build(c.Shape)
		ev.Tree = tree
		ev.Res = f.IsAllowed(r)
		// the tree is the caller's: asked again (as Range does for the next resource), it says the same, and
		// every leaf still says on its own what it said before
		for i := 0; i < 2; i++ {
			if f.IsAllowed(r) != ev.Res {
				ev.Ret = "verdict-changes-when-asked-again"
			}
		}
		for i, lfF := range filters {
			if lfF.IsAllowed(r) != verdicts[i] {
				ev.Ret = "a-leaf-changed-after-its-group-was-evaluated"
			}
		}
	})
	if p {
		ev.Ret = "panic"
		ev.Tree = fNode{O: "leaf", C: []fNode{}}
	}
	return ev
}

// independent comparison of two base values of one kind: -1, 0, 1
func cmpBase(kind int, a, b any) int {
	switch kind {
	case jsonapi.AttrTypeString:
		x, y := a.(string), b.(string)
		return bytes.Compare([]byte(x), []byte(y))
	case jsonapi.AttrTypeBytes:
		return bytes.Compare(a.([]byte), b.([]byte))
	case jsonapi.AttrTypeTime:
		return a.(time.Time).Compare(b.(time.Time))
	case jsonapi.AttrTypeBool:
		x, y := a.(bool), b.(bool)
		switch {
		case x == y:
			return 0
		case !x:
			return -1
		}
		return 1
	}
	x, _ := new(big.Int).SetString(fmt.Sprint(a), 10)
	y, _ := new(big.Int).SetString(fmt.Sprint(b), 10)
	return x.Cmp(y)
}

// selfCheckOrdered verifies the ordered tables against the independent order.
func selfCheckOrdered() {
	for ti := range numTables {
		for kind, vs := range numTables[ti] {
			for i := 0; i+1 < len(vs); i++ {
				if cmpBase(kind, vs[i], vs[i+1]) >= 0 {
					infra("ordered table %d of kind %d is not increasing at %d", ti, kind, i)
				}
			}
		}
	}
	for _, m := range strSymbols {
		for i := 0; i+1 < len(m); i++ {
			if bytes.Compare([]byte(m[i]), []byte(m[i+1])) >= 0 {
				infra("string symbol map not increasing")
			}
		}
	}
	for _, m := range byteSymbols {
		for i := 0; i+1 < len(m); i++ {
			if m[i] >= m[i+1] {
				infra("byte symbol map not increasing")
			}
		}
	}
}

func bytesToSeq(b []byte) []int {
	out := make([]int, len(b))
	for i, x := range b {
		out[i] = int(x)
	}
	return out
}

func filterMain(args []string) {
	fs := flag.NewFlagSet("filter", flag.ExitOnError)
	gen := fs.String("gen", "", "TLC generation output (LEAVES, TREES)")
	out := fs.String("out", "", "output directory")
	seed := fs.Int64("seed", 1, "seed")
	tables := fs.Int("tables", 1, "concretisation tables per case")
	random := fs.Int("random", 0, "random value pairs per kind")
	replay := fs.String("replay", "", "replay file")
	must(fs.Parse(args))
	selfCheckOrdered()
	if *replay != "" {
		var rf struct {
			Case fCase `json:"case"`
		}
		b, err := os.ReadFile(*replay)
		must(err)
		must(json.Unmarshal(b, &rf))
		os.Stdout.Write(jsonLine(runFilterCase(rf.Case)))
		return
	}
	var leaves []fCaseT
	var shapes []fNode
	tlcLines(*gen, func(tag string, js []byte) {
		switch tag {
		case "LEAVES":
			if leaves == nil {
				must(json.Unmarshal(js, &leaves))
			}
		case "TREES":
			if shapes == nil {
				must(json.Unmarshal(js, &shapes))
			}
		}
	})
	if len(leaves) == 0 || len(shapes) == 0 {
		infra("incomplete generation output %s", *gen)
	}
	rng := newRand(*seed, "filter")
	stt := newStats()
	stt.Exhaustive = true
	w := newEvWriter(*out, 150000)
	emit := func(c fCase) {
		ev := runFilterCase(c)
		stt.Calls++
		if ev.Ev == "leaf" {
			stt.class("leaf:" + ev.Cls + ":" + c.Impl)
			stt.class("op:" + ev.Op)
			if ev.Res {
				stt.class("verdict:true")
			} else {
				stt.class("verdict:false")
			}
			b, _ := json.Marshal([]any{ev.Cls, ev.Null, ev.Op, ev.RV, ev.CV})
			stt.distinct(string(b))
		} else {
			stt.class("tree:" + c.Impl)
			b, _ := json.Marshal(ev.Tree)
			stt.distinct(string(b))
		}
		w.Emit(ev, c)
	}
	for _, lc := range leaves {
		kinds := []int{jsonapi.AttrTypeString}
		if lc.Cls == "num" || lc.Cls == "seq" || lc.Cls == "bool" {
			kinds = kindsOfClass(lc.Cls)
		}
		nt := *tables
		if (lc.Cls == "to1" || lc.Cls == "toN") && nt < 3 {
			nt = 3 // the three spellings of the empty list
		}
		for _, k := range kinds {
			for t := 0; t < nt; t++ {
				lf := fLeaf{Cls: lc.Cls, Kind: k, Null: lc.Null, Op: lc.Op, RV: lc.RV.norm(), CV: lc.CV.norm(), Table: t + int(*seed)}
				spells := 1
				if lc.Op == "nope" && t == 0 {
					spells = len(unknownOps) // every spelling of the unknown operator, on the first table
				}
				for sp := 0; sp < spells; sp++ {
					lf.Spell = sp
					for _, impl := range []string{"soft", "wrap"} {
						emit(fCase{Fam: "filter", Kind: "leaf", Impl: impl, Leaf: lf})
					}
				}
			}
		}
	}
	// trees over three leaves on one resource; leaves drawn from the num cases
	var numLeaves []fCaseT
	for _, lc := range leaves {
		if lc.Cls == "num" && !lc.Null && lc.Op != "nope" {
			numLeaves = append(numLeaves, lc)
		}
	}
	for _, sh := range shapes {
		for rep := 0; rep < 3; rep++ {
			base := numLeaves[rng.Intn(len(numLeaves))]
			kind := kindsOfClass("num")[rng.Intn(11)]
			ls := make([]fLeaf, 3)
			for i := range ls {
				o := numLeaves[rng.Intn(len(numLeaves))]
				ls[i] = fLeaf{Cls: "num", Kind: kind, Op: o.Op, RV: base.RV.norm(), CV: o.CV.norm(), Table: int(*seed)}
			}
			impl := "soft"
			if rng.Intn(2) == 0 {
				impl = "wrap"
			}
			emit(fCase{Fam: "filter", Kind: "tree", Impl: impl, Leaves: ls, Shape: sh})
			if rep == 0 {
				// the same tree far down: under 9, 17 or 64 levels of and / or nodes with one child each, and
				// once more next to a sibling that decides nothing (and-ed with an empty and, or-ed with an empty or)
				deep := sh
				for k := []int{9, 17, 64}[rng.Intn(3)]; k > 0; k-- {
					o := []string{"and", "or"}[k%2]
					kids := []fNode{deep}
					if k%5 == 0 {
						kids = []fNode{{O: o, C: []fNode{}}, deep}
					}
					deep = fNode{O: o, C: kids}
				}
				stt.class("tree:deep")
				emit(fCase{Fam: "filter", Kind: "tree", Impl: impl, Leaves: ls, Shape: deep})
			}
		}
	}
	// random pairs of real values: the abstract value is the real byte
	// sequence (strings, byte strings) or a rank from the independent order
	ops := []string{"=", "!=", "<", "<=", ">", ">="}
	if *random > 0 {
		stt.Exhaustive = false
	}
	for _, kind := range baseKinds {
		if kind == jsonapi.AttrTypeBool {
			continue
		}
		for i := 0; i < *random; i++ {
			a, b := randomBase(rng, kind), randomBase(rng, kind)
			if rng.Intn(4) == 0 {
				b = mutateNear(rng, kind, a)
			}
			lf := fLeaf{Cls: classOf(kind), Kind: kind, Null: rng.Intn(2) == 0, Op: ops[rng.Intn(len(ops))]}
			lf.RawR, lf.RawC = rawOf(kind, a), rawOf(kind, b)
			if lf.Cls == "seq" {
				lf.RV = fVal{S: bytesToSeq(rawBytes(kind, a))}.norm()
				lf.CV = fVal{S: bytesToSeq(rawBytes(kind, b))}.norm()
			} else {
				ra, rb := 1, 1
				switch cmpBase(kind, a, b) {
				case -1:
					ra = 0
				case 1:
					rb = 0
				}
				lf.RV = fVal{S: []int{ra}}.norm()
				lf.CV = fVal{S: []int{rb}}.norm()
			}
			if lf.Null && rng.Intn(6) == 0 {
				lf.RV = fVal{Nil: true}.norm()
			}
			if lf.Null && rng.Intn(6) == 0 {
				lf.CV = fVal{Nil: true}.norm()
			}
			impl := "soft"
			if rng.Intn(2) == 0 {
				impl = "wrap"
			}
			stt.class("random")
			emit(fCase{Fam: "filter", Kind: "leaf", Impl: impl, Leaf: lf})
		}
	}
	stt.Rule = "distinct abstract leaf cases (class, nullable, operator, value pair) and distinct evaluated trees"
	w.Close()
	stt.write(*out+"/stats.json", w)
}

func rawBytes(kind int, v any) []byte {
	if kind == jsonapi.AttrTypeString {
		return []byte(v.(string))
	}
	return v.([]byte)
}

func rawOf(kind int, v any) string {
	switch kind {
	case jsonapi.AttrTypeString:
		return v.(string)
	case jsonapi.AttrTypeBytes:
		return string(v.([]byte))
	case jsonapi.AttrTypeTime:
		return v.(time.Time).Format(time.RFC3339Nano)
	}
	return fmt.Sprint(v)
}
