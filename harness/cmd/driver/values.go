package main

// Concretisation tables: the TLA+ models speak about abstract values (a rank,
// or nil); the driver maps a rank to a concrete Go value of each of the 28
// attribute kinds and maps observed values back to ranks.  Expected values are
// never computed with the library under test.

import (
	"bytes"
	"fmt"
	"math"
	"math/rand"
	"reflect"
	"time"

	"github.com/mfcochauxlaberge/jsonapi"
)

var baseKinds = []int{
	jsonapi.AttrTypeString,
	jsonapi.AttrTypeInt, jsonapi.AttrTypeInt8, jsonapi.AttrTypeInt16, jsonapi.AttrTypeInt32, jsonapi.AttrTypeInt64,
	jsonapi.AttrTypeUint, jsonapi.AttrTypeUint8, jsonapi.AttrTypeUint16, jsonapi.AttrTypeUint32, jsonapi.AttrTypeUint64,
	jsonapi.AttrTypeBool, jsonapi.AttrTypeTime, jsonapi.AttrTypeBytes,
}

// A vtable gives, per base kind, the concrete (non-pointer) values of ranks
// 0..n-1.  In "zero-first" tables rank 0 is the kind's zero value and the other
// ranks are arbitrary distinct values; in "ordered" tables ranks follow the
// kind's natural order.
type vtable struct {
	name string
	vals map[int][]any
}

// processStart: one reading of the clock per process
var processStart = time.Now()

func mustTime(s string) time.Time {
	t, err := time.Parse(time.RFC3339Nano, s)
	must(err)
	return t
}

// zeroFirstTable(0) is fixed and boundary-heavy; others are seeded.
func zeroFirstTable(n int, seed int64) *vtable {
	t := &vtable{name: fmt.Sprintf("zero-first-%d", n), vals: map[int][]any{}}
	if n == 7 {
		// table 0 with two ranks of the time kind that are the same instant in two zones (for the
		// families whose values never leave memory: there the zone is part of the value)
		base := zeroFirstTable(0, seed)
		for k, v := range base.vals {
			t.vals[k] = v
		}
		// (rank 3 is read from the clock: such a value carries a monotonic reading next to the wall time)
		t.vals[jsonapi.AttrTypeTime] = []any{time.Time{}, mustTime("2001-02-03T12:00:00.5Z"), mustTime("2001-02-03T14:00:00.5+02:00"),
			processStart.Add(-3 * time.Hour)}
		return t
	}
	if n == 0 {
		t.vals[jsonapi.AttrTypeString] = []any{"", "a\\u0026b\\u003c\\u003e", "\x00<&>\"\\é漢\U0001F600\uFFFD", "null"} // rank 2 ends in U+FFFD itself (valid UTF-8: what a decoder writes for bad bytes is also a character); rank 1: a literal backslash before u0026: the text of a JSON escape; rank 3: a text that spells a JSON literal
		t.vals[jsonapi.AttrTypeInt] = []any{int(0), int(-1), int(math.MaxInt64), int(math.MinInt64)}
		t.vals[jsonapi.AttrTypeInt8] = []any{int8(0), int8(math.MinInt8), int8(math.MaxInt8), int8(1)}
		t.vals[jsonapi.AttrTypeInt16] = []any{int16(0), int16(math.MinInt16), int16(math.MaxInt16), int16(-1)}
		t.vals[jsonapi.AttrTypeInt32] = []any{int32(0), int32(math.MinInt32), int32(math.MaxInt32), int32(1)}
		t.vals[jsonapi.AttrTypeInt64] = []any{int64(0), int64(math.MinInt64), int64(math.MaxInt64), int64(-1)}
		t.vals[jsonapi.AttrTypeUint] = []any{uint(0), uint(1), uint(math.MaxUint64), uint(1 << 63)}
		t.vals[jsonapi.AttrTypeUint8] = []any{uint8(0), uint8(1), uint8(math.MaxUint8), uint8(128)}
		t.vals[jsonapi.AttrTypeUint16] = []any{uint16(0), uint16(1), uint16(math.MaxUint16), uint16(1 << 15)}
		t.vals[jsonapi.AttrTypeUint32] = []any{uint32(0), uint32(1), uint32(math.MaxUint32), uint32(1 << 31)}
		t.vals[jsonapi.AttrTypeUint64] = []any{uint64(0), uint64(1), uint64(math.MaxUint64), uint64(1<<63 + 1)}
		t.vals[jsonapi.AttrTypeBool] = []any{false, true}
		t.vals[jsonapi.AttrTypeTime] = []any{time.Time{}, mustTime("2001-02-03T04:05:06.789012345Z"),
			mustTime("9999-12-31T23:59:59.999999999-00:30"), mustTime("0000-01-01T00:00:00.000000001+07:30")} // ranks 2, 3: the last and first local instants RFC 3339 can write; read in UTC their years are 10000 and -1
		t.vals[jsonapi.AttrTypeBytes] = []any{[]byte{}, []byte{1, 2, 3}, []byte{3, 2, 1}, []byte{0x9e, 0xe9, 0x65}} // ranks 1..3: same length (in-place overwrite); rank 3 reads "null" in base64
		return t
	}
	r := rand.New(rand.NewSource(seed*1000 + int64(n)))
	distinct := func(zero any, gen func() any) []any {
		out := []any{zero}
		for len(out) < 4 {
			v := gen()
			dup := false
			for _, o := range out {
				if sameValue(o, v) {
					dup = true
				}
			}
			if !dup {
				out = append(out, v)
			}
		}
		return out
	}
	t.vals[jsonapi.AttrTypeString] = distinct("", func() any { return randString(r) })
	t.vals[jsonapi.AttrTypeInt] = distinct(int(0), func() any { return int(r.Uint64()) })
	t.vals[jsonapi.AttrTypeInt8] = distinct(int8(0), func() any { return int8(r.Uint64()) })
	t.vals[jsonapi.AttrTypeInt16] = distinct(int16(0), func() any { return int16(r.Uint64()) })
	t.vals[jsonapi.AttrTypeInt32] = distinct(int32(0), func() any { return int32(r.Uint64()) })
	t.vals[jsonapi.AttrTypeInt64] = distinct(int64(0), func() any { return int64(r.Uint64()) })
	t.vals[jsonapi.AttrTypeUint] = distinct(uint(0), func() any { return uint(r.Uint64()) })
	t.vals[jsonapi.AttrTypeUint8] = distinct(uint8(0), func() any { return uint8(r.Uint64()) })
	t.vals[jsonapi.AttrTypeUint16] = distinct(uint16(0), func() any { return uint16(r.Uint64()) })
	t.vals[jsonapi.AttrTypeUint32] = distinct(uint32(0), func() any { return uint32(r.Uint64()) })
	t.vals[jsonapi.AttrTypeUint64] = distinct(uint64(0), func() any { return r.Uint64() })
	t.vals[jsonapi.AttrTypeBool] = []any{false, true}
	t.vals[jsonapi.AttrTypeTime] = distinct(time.Time{}, func() any { return randTime(r) })
	blen := 1 + r.Intn(8)
	t.vals[jsonapi.AttrTypeBytes] = distinct([]byte{}, func() any { return randBytes(r, blen) })
	return t
}

func randString(r *rand.Rand) string {
	if r.Intn(10) == 0 { // texts that spell something else in JSON
		return []string{"null", "true", "false", "0", "-1", "[]", "{}", "\"\"", "1e3", "nul"}[r.Intn(10)]
	}
	alphabet := []rune("ab \x00<>&\"\\/é漢\U0001F600z%+#?\uFFFD")
	n := 1 + r.Intn(6)
	out := make([]rune, n)
	for i := range out {
		out[i] = alphabet[r.Intn(len(alphabet))]
	}
	return string(out)
}

func randBytes(r *rand.Rand, n int) []byte {
	b := make([]byte, n)
	for i := range b {
		b[i] = byte(r.Intn(256))
	}
	return b
}

// randTime: an instant in years 1..9999 with a fixed zone and nanoseconds.
func randTime(r *rand.Rand) time.Time {
	year := 1 + r.Intn(9999)
	off := (r.Intn(57) - 28) * 30 * 60 // -14h..+14h in half hours
	zone := time.FixedZone("", off)
	if r.Intn(12) == 0 {
		// the local years at both ends of what RFC 3339 can write, whatever the instant is called in UTC
		year = []int{0, 9999}[r.Intn(2)]
	}
	return time.Date(year, time.Month(1+r.Intn(12)), 1+r.Intn(28), r.Intn(24), r.Intn(60), r.Intn(60), r.Intn(1e9), zone)
}

// sameValue: equality of two base (non-pointer) values the way the properties
// mean it: instants for times, bytes for byte strings (nil == empty).
// timeStrict: the families that never leave memory (resource, soft collection) also want
// the zone offset back; a round trip through JSON is judged on the instant (C01).
var timeStrict bool

func zoneOffset(t time.Time) int {
	_, off := t.Zone()
	return off
}

func sameValue(a, b any) bool {
	switch x := a.(type) {
	case time.Time:
		y, ok := b.(time.Time)
		return ok && x.Equal(y) && (!timeStrict || zoneOffset(x) == zoneOffset(y))
	case []byte:
		y, ok := b.([]byte)
		return ok && bytes.Equal(x, y)
	}
	return reflect.TypeOf(a) == reflect.TypeOf(b) && a == b
}

func (t *vtable) nranks(kind int) int { return len(t.vals[kind]) }

// concrete returns the Go value of (kind, nullable) for a rank, or the typed
// nil pointer when isNil.  Slices are fresh copies.
func (t *vtable) concrete(kind int, nullable bool, rank int, isNil bool) any {
	if isNil {
		if !nullable {
			infra("nil for a non-nullable kind")
		}
		return jsonapi.GetZeroValue(kind, true)
	}
	vs := t.vals[kind]
	if rank < 0 || rank >= len(vs) {
		infra("rank %d out of table for kind %d", rank, kind)
	}
	v := vs[rank]
	if b, ok := v.([]byte); ok {
		v = append([]byte{}, b...)
	}
	if !nullable {
		return v
	}
	p := reflect.New(reflect.TypeOf(v))
	p.Elem().Set(reflect.ValueOf(v))
	return p.Interface()
}

// rankOf maps an observed value back: (isNil, rank).  rank = -1 when the value
// is not of the kind's Go type, -2 when it is but is not in the table.
func (t *vtable) rankOf(kind int, nullable bool, v any) (bool, int) {
	if v == nil {
		if nullable {
			return true, 0 // untyped nil reads as nil (the properties grant this)
		}
		return false, -1
	}
	rv := reflect.ValueOf(v)
	want := reflect.TypeOf(jsonapi.GetZeroValue(kind, nullable))
	if rv.Type() != want {
		return false, -1
	}
	if nullable {
		if rv.IsNil() {
			return true, 0
		}
		v = rv.Elem().Interface()
	}
	for i, c := range t.vals[kind] {
		if sameValue(c, v) {
			return false, i
		}
	}
	return false, -2
}

func kindIsOrdered(kind int) bool { return kind != jsonapi.AttrTypeBool }

// randomBase draws a random base value of a kind (full range).
func randomBase(r *rand.Rand, kind int) any {
	switch kind {
	case jsonapi.AttrTypeString:
		return randString(r)
	case jsonapi.AttrTypeBytes:
		return randBytes(r, r.Intn(6))
	case jsonapi.AttrTypeTime:
		return randTime(r)
	case jsonapi.AttrTypeBool:
		return r.Intn(2) == 0
	}
	u := r.Uint64()
	if r.Intn(3) == 0 {
		u >>= uint(r.Intn(64)) // small magnitudes too
	}
	rv := reflect.New(goTypes[kind]).Elem()
	if rv.Kind() >= reflect.Int && rv.Kind() <= reflect.Int64 {
		rv.SetInt(int64(u) >> (64 - rv.Type().Bits()))
	} else {
		rv.SetUint(u >> (64 - rv.Type().Bits()))
	}
	return rv.Interface()
}

// mutateNear returns a value close to v (equal, adjacent, prefix, extension).
func mutateNear(r *rand.Rand, kind int, v any) any {
	switch x := v.(type) {
	case string:
		switch r.Intn(3) {
		case 0:
			return x
		case 1:
			return x + "a"
		}
		if len(x) > 0 {
			return x[:len(x)-1]
		}
		return x
	case []byte:
		switch r.Intn(4) {
		case 0:
			return append([]byte{}, x...)
		case 1:
			return append(append([]byte{}, x...), 0)
		case 2:
			if len(x) > 1 { // swap two bytes: same multiset, other order
				y := append([]byte{}, x...)
				y[0], y[len(y)-1] = y[len(y)-1], y[0]
				return y
			}
		}
		if len(x) > 0 {
			return append([]byte{}, x[:len(x)-1]...)
		}
		return x
	case bool:
		return x
	case time.Time:
		switch r.Intn(3) {
		case 0:
			return x.In(time.FixedZone("", 3600*(r.Intn(25)-12))) // same instant, other zone
		case 1:
			return x.Add(time.Nanosecond)
		}
		return x.Add(-time.Nanosecond)
	}
	rv := reflect.New(goTypes[kind]).Elem()
	rv.Set(reflect.ValueOf(v))
	if r.Intn(3) == 0 {
		return v
	}
	if rv.Kind() >= reflect.Int && rv.Kind() <= reflect.Int64 {
		rv.SetInt(rv.Int() + 1) // wraps at the maximum: still a value of the kind
	} else {
		rv.SetUint(rv.Uint() + 1)
	}
	return rv.Interface()
}
