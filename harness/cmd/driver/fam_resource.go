package main

// Resource family (C17, C18): a store of live real objects (SoftResource,
// Wrapper, copied Type) driven through TLC-generated histories; after every
// step ALL live objects are projected, so shared state between two objects
// shows as a change in an object that was not acted on.

import (
	"encoding/json"
	"flag"
	"fmt"
	"os"
	"reflect"
	"sort"
	"strings"

	"github.com/mfcochauxlaberge/jsonapi"
)

type rEntry struct {
	Impl   string `json:"impl"`
	TName  string `json:"tname"`
	Fields defMap `json:"fields"`
	ID     string `json:"id"`
	Vals   valMap `json:"vals"`
}

type rOp struct {
	Op      string `json:"op"`
	H       int    `json:"h"`
	Impl    string `json:"impl"`
	TName   string `json:"tname"`
	Fields  defMap `json:"fields"`
	F       string `json:"f"`
	V       jVal   `json:"v"`
	ID      string `json:"id"`
	Def     jDef   `json:"def"`
	Untyped bool   `json:"untyped"`
}

type rEqObs struct {
	EqAB bool `json:"eq_ab"`
	EqBA bool `json:"eq_ba"`
	StAB bool `json:"st_ab"`
	StBA bool `json:"st_ba"`
	EqAA bool `json:"eq_aa"`
	StAA bool `json:"st_aa"`
	EqBB bool `json:"eq_bb"`
	StBB bool `json:"st_bb"`
}

type rEvent struct {
	Ev   string   `json:"ev"`
	Pre  []rEntry `json:"pre"`
	Op   rOp      `json:"op"`
	Post []rEntry `json:"post"`
	Ret  string   `json:"ret"`
	A    rEntry   `json:"a"`
	B    rEntry   `json:"b"`
	Obs  rEqObs   `json:"obs"`
}

type rCase struct {
	Fam  string   `json:"fam"`
	Kind string   `json:"kind"` // step | eq
	Hist []rOp    `json:"hist"`
	Op   rOp      `json:"op"`
	A    rEntry   `json:"a"`
	B    rEntry   `json:"b"`
	Var  cVariant `json:"var"`
	Seed int64    `json:"seed"`
}

type rObj struct {
	impl string
	res  jsonapi.Resource
	typ  *jsonapi.Type
}

type rWorld struct {
	objs   []rObj
	km     kindMap
	tb     *vtable
	noFrom bool
	built  bool
	held   []heldPtr // pointers handed to Set earlier, with what they pointed to then
}

// heldPtr: the caller keeps the variable whose address it gave to Set; nothing done to any
// resource later may change it
type heldPtr struct {
	ptr  any
	want any
}

func (w *rWorld) project() []rEntry {
	out := []rEntry{}
	for _, o := range w.objs {
		if o.impl == "type" {
			out = append(out, rEntry{Impl: "type", TName: o.typ.Name, Fields: projDefs(o.typ.Attrs, o.typ.Rels, w.km), Vals: valMap{}})
			continue
		}
		defs, vals := projVals(o.res, w.km, w.tb)
		id, _ := o.res.Get("id").(string)
		out = append(out, rEntry{Impl: o.impl, TName: o.res.GetType().Name, Fields: defs, ID: id, Vals: vals})
	}
	return out
}

func allFieldsOf(res jsonapi.Resource) ([]string, map[string][]string) {
	fields := []string{}
	rels := []string{}
	for k := range res.Attrs() {
		fields = append(fields, k)
	}
	for k := range res.Rels() {
		fields = append(fields, k)
		rels = append(rels, k)
	}
	sort.Strings(fields)
	sort.Strings(rels)
	return fields, map[string][]string{res.GetType().Name: rels}
}

// apply performs op; applicable=false when the op makes no sense on the real
// object (for instance MutSlice on a field whose real kind is not a slice).
func (w *rWorld) apply(op rOp) (ret string, applicable bool) {
	if op.Op != "New" && op.Op != "ZeroNew" && (op.H < 1 || op.H > len(w.objs)) {
		return "", false
	}
	var o rObj
	if op.Op != "New" && op.Op != "ZeroNew" {
		o = w.objs[op.H-1]
		needRes := op.Op != "AddField" && op.Op != "RemoveField"
		if needRes && o.impl == "type" {
			return "", false
		}
		if op.Op == "TypeRename" && o.impl != "soft" {
			return "", false
		}
		if !needRes && o.impl == "wrap" {
			return "", false
		}
	}
	applicable = true
	sameDefs, leak, nilForm := true, false, true
	p, _ := catch(func() {
		switch op.Op {
		case "New":
			res := newRes(op.Impl, op.TName, op.Fields, w.km)
			if op.Impl == "soft" && op.TName == "" && len(op.Fields) == 0 {
				res = &jsonapi.SoftResource{} // no type at all: the zero value of the Go type
			}
			loose := false // (a relationship without a target type cannot be written as a struct tag)
			for _, d := range op.Fields {
				loose = loose || (d.Kind == "rel" && d.TT == "")
			}
			if op.Impl == "soft" && w.built && op.TName != "" && !loose {
				// a soft resource over a type that BuildType made from the struct with the same fields
				bt, err := jsonapi.BuildType(reflect.New(structType(op.TName, op.Fields, w.km)).Interface())
				must(err)
				res = &jsonapi.SoftResource{Type: &bt}
			}
			if sr, ok := res.(*jsonapi.SoftResource); ok && w.noFrom && sr.Type != nil {
				for k, r := range sr.Type.Rels {
					r.FromType = ""
					sr.Type.Rels[k] = r
				}
			}
			w.objs = append(w.objs, rObj{impl: op.Impl, res: res})
		case "ZeroNew":
			// the zero value of the Go type, asked for a new resource before any other method has run
			z := &jsonapi.SoftResource{}
			nw := z.New()
			w.objs = append(w.objs, rObj{impl: "soft", res: z}, rObj{impl: implOf(nw, "soft"), res: nw})
		case "Set":
			defs := projDefs(o.res.Attrs(), o.res.Rels(), w.km)
			d, ok := defs[op.F]
			if !ok {
				applicable = false
				return
			}
			if op.Untyped && op.V.Nil {
				o.res.Set(op.F, nil)
			} else if op.Untyped && d.Kind == "attr" && !d.Null && w.km.real(d.K) == jsonapi.AttrTypeBytes {
				o.res.Set(op.F, []byte(nil)) // an empty byte string given as a nil slice
			} else if op.Untyped {
				applicable = false
				return
			} else {
				if d.Kind == "attr" && !op.V.Nil && op.V.R >= w.tb.nranks(w.km.real(d.K)) {
					applicable = false
					return
				}
				if d.Kind == "attr" && d.Null && !op.V.Nil {
					val := w.tb.concrete(w.km.real(d.K), true, op.V.R, false)
					o.res.Set(op.F, val)
					want := reflect.ValueOf(val).Elem().Interface()
					if _, isBytes := want.([]byte); !isBytes { // (a byte slice is shared by nature: MutSlice writes through it)
						w.held = append(w.held, heldPtr{ptr: val, want: want})
					}
				} else {
					if cur, isList := o.res.Get(op.F).([]string); isList && d.Kind == "rel" && !d.To1 && w.km.Shift%2 == 0 {
						// lists are handled the way callers often do: an empty one is a slice with room to
						// grow, and ids are appended to the empty list the resource hands out
						switch {
						case len(op.V.IDs) == 0:
							o.res.Set(op.F, make([]string, 0, 8))
						case len(cur) == 0:
							o.res.Set(op.F, append(cur, op.V.IDs...))
						default:
							setField(o.res, op.F, d, op.V, w.km, w.tb)
						}
					} else {
						setField(o.res, op.F, d, op.V, w.km, w.tb)
					}
				}
			}
		case "SetID":
			o.res.Set("id", op.ID)
		case "Copy":
			cp := o.res.(jsonapi.Copier).Copy()
			sameDefs = reflect.DeepEqual(normDefs(o.res.Attrs(), o.res.Rels()), normDefs(cp.Attrs(), cp.Rels()))
			// where the source answers with a value (a nil pointer of the attribute's type is one) the copy
			// does not answer with no value at all, and the other way round
			for f := range o.res.Attrs() {
				if (o.res.Get(f) == nil) != (cp.Get(f) == nil) {
					nilForm = false
				}
			}
			w.objs = append(w.objs, rObj{impl: implOf(cp, o.impl), res: cp})
		case "NewLike":
			nw := o.res.(jsonapi.Copier).New()
			sameDefs = reflect.DeepEqual(normDefs(o.res.Attrs(), o.res.Rels()), normDefs(nw.Attrs(), nw.Rels()))
			w.objs = append(w.objs, rObj{impl: implOf(nw, o.impl), res: nw})
		case "DerivedNew":
			sr, ok := o.res.(*jsonapi.SoftResource)
			if !ok {
				applicable = false
				return
			}
			base := sr.GetType() // the object's type, by value
			if base.NewFunc != nil {
				// (a type that carries its own constructor creates what the constructor says)
				applicable = false
				return
			}
			_ = base.New() // the original type has created a resource
			derived := base.Copy()
			derived.Name += "x"
			nw := derived.New()
			sameDefs = reflect.DeepEqual(normDefs(derived.Attrs, derived.Rels), normDefs(nw.Attrs(), nw.Rels()))
			w.objs = append(w.objs, rObj{impl: implOf(nw, "soft"), res: nw})
		case "TypeCopy":
			src := o.res.GetType()
			t := src.Copy()
			sameDefs = reflect.DeepEqual(normDefs(src.Attrs, src.Rels), normDefs(t.Attrs, t.Rels)) && t.Name == src.Name
			// the same type declared by hand under keys of its author's choosing (a Type literal is free
			// to do so, and the library reads fields by their names): its copy has the same maps
			hand := jsonapi.Type{Name: src.Name, Attrs: map[string]jsonapi.Attr{}, Rels: map[string]jsonapi.Rel{}}
			for k, a := range src.Attrs {
				hand.Attrs["key-"+k] = a
			}
			for k, r := range src.Rels {
				hand.Rels["key-"+k] = r
			}
			hc := hand.Copy()
			if !reflect.DeepEqual(normDefs(hand.Attrs, hand.Rels), normDefs(hc.Attrs, hc.Rels)) || hc.Name != hand.Name {
				sameDefs = false
			}
			w.objs = append(w.objs, rObj{impl: "type", typ: &t})
		case "TypeEdit":
			// edit the maps of the Type value returned by GetType(), look at everybody else, undo
			before := w.projectOthers(op.H)
			t := o.res.GetType()
			if t.Attrs == nil || t.Rels == nil {
				applicable = false
				return
			}
			t.Attrs["zz9"] = jsonapi.Attr{Name: "zz9", Type: jsonapi.AttrTypeBool}
			t.Rels["zz8"] = jsonapi.Rel{FromName: "zz8", FromType: t.Name, ToType: "tt"}
			after := w.projectOthers(op.H)
			delete(t.Attrs, "zz9")
			delete(t.Rels, "zz8")
			leak = !reflect.DeepEqual(before, after)
		case "MutSlice":
			if _, ok := o.res.Attrs()[op.F]; !ok {
				if _, ok := o.res.Rels()[op.F]; !ok {
					applicable = false
					return
				}
			}
			switch g := o.res.Get(op.F).(type) {
			case []string:
				if len(g) == 0 {
					applicable = false
					return
				}
				g[0] = "zz"
			case []byte:
				nb := w.tb.vals[jsonapi.AttrTypeBytes][op.V.R].([]byte)
				if len(g) != len(nb) {
					applicable = false
					return
				}
				copy(g, nb)
			case *[]byte:
				nb := w.tb.vals[jsonapi.AttrTypeBytes][op.V.R].([]byte)
				if g == nil || len(*g) != len(nb) {
					applicable = false
					return
				}
				copy(*g, nb)
			default:
				applicable = false
			}
		case "Marshal":
			f, rd := allFieldsOf(o.res)
			_ = jsonapi.MarshalResource(o.res, "/p", f, rd)
		case "Filter":
			ids, ok := o.res.Get(op.F).([]string)
			if !ok {
				applicable = false
				return
			}
			flt := &jsonapi.Filter{Field: op.F, Op: "=", Val: sortedIDs(ids)}
			_ = flt.IsAllowed(o.res)
		case "AddField":
			if o.impl == "type" {
				if op.Def.Kind == "attr" {
					_ = o.typ.AddAttr(w.km.attr(op.F, op.Def))
				} else {
					_ = o.typ.AddRel(relOf(o.typ.Name, op.F, op.Def))
				}
				return
			}
			sr := o.res.(*jsonapi.SoftResource)
			if op.Def.Kind == "attr" {
				sr.AddAttr(w.km.attr(op.F, op.Def))
			} else {
				sr.AddRel(relOf(sr.GetType().Name, op.F, op.Def))
			}
		case "TypeRename":
			// the type itself is edited, twice; no method of the resource runs in between
			typ := o.res.(*jsonapi.SoftResource).Type
			if typ == nil {
				applicable = false
				return
			}
			_, isA := typ.Attrs[op.F]
			_, isR := typ.Rels[op.F]
			_, hasA := typ.Attrs[op.ID]
			_, hasR := typ.Rels[op.ID]
			if !(isA || isR) || hasA || hasR {
				applicable = false // (the model offers the edit for a field the type has and a name it lacks)
				return
			}
			typ.RemoveAttr(op.F)
			typ.RemoveRel(op.F)
			if op.Def.Kind == "attr" {
				if err := typ.AddAttr(w.km.attr(op.ID, op.Def)); err != nil {
					panic(err)
				}
			} else {
				if err := typ.AddRel(relOf(typ.Name, op.ID, op.Def)); err != nil {
					panic(err)
				}
			}
		case "RemoveField":
			if o.impl == "type" {
				o.typ.RemoveAttr(op.F)
				o.typ.RemoveRel(op.F)
				return
			}
			o.res.(*jsonapi.SoftResource).RemoveField(op.F)
		default:
			infra("unknown resource op %q", op.Op)
		}
	})
	callerChanged := false
	{
		for _, h := range w.held {
			if !sameValue(reflect.ValueOf(h.ptr).Elem().Interface(), h.want) {
				callerChanged = true
			}
		}
	}
	switch {
	case p:
		return "panic", applicable
	case callerChanged:
		return "caller-value-changed", applicable // a variable whose address was given to Set earlier was written to
	case !sameDefs:
		return "defs-differ", applicable // the copy / new instance does not have the source's definitions
	case leak:
		return "leak", applicable // an edit of this object's type maps showed in another object
	case !nilForm:
		return "copy-answers-nil-differently", applicable
	}
	return "ok", applicable
}

// normDefs: the full attribute and relationship definitions (nil and empty maps alike)
func normDefs(a map[string]jsonapi.Attr, r map[string]jsonapi.Rel) [2]any {
	aa, rr := map[string]jsonapi.Attr{}, map[string]jsonapi.Rel{}
	for k, v := range a {
		aa[k] = v
	}
	for k, v := range r {
		rr[k] = v
	}
	return [2]any{aa, rr}
}

// projectOthers: every live object but h, by exposed definitions
var makesObject = map[string]bool{"Copy": true, "NewLike": true, "TypeCopy": true, "DerivedNew": true}

func (w *rWorld) projectOthers(h int) []any {
	var out []any
	for i, o := range w.objs {
		if i == h-1 {
			continue
		}
		if o.impl == "type" {
			out = append(out, normDefs(o.typ.Attrs, o.typ.Rels))
		} else {
			out = append(out, normDefs(o.res.Attrs(), o.res.Rels()))
		}
	}
	return out
}

func buildEntry(e rEntry, impl string, km kindMap, tb *vtable) jsonapi.Resource {
	res := newRes(impl, e.TName, e.Fields, km)
	res.Set("id", e.ID)
	for f, v := range e.Vals {
		setField(res, f, e.Fields[f], v, km, tb)
	}
	return res
}

func runResourceCase(c rCase) (ev rEvent, ok bool) {
	km := kindMap{Shift: c.Var.Shift, NamedID: c.Var.NamedID, Decoy: c.Var.Decoy}
	tb := tableFor(c.Var.Table, c.Seed)
	zero := rEntry{Fields: defMap{}, Vals: valMap{}}
	if c.Kind == "eq" {
		ev = rEvent{Ev: "eq", Pre: []rEntry{}, Post: []rEntry{}, A: c.A, B: c.B, Ret: "ok",
			Op: rOp{Op: "Equal", Fields: defMap{}, V: jVal{IDs: []string{}}}}
		implA, implB := "soft", "soft"
		switch c.Var.Impl {
		case "soft-wrap":
			implB = "wrap"
		case "wrap-soft":
			implA = "wrap"
		case "wrap-wrap":
			implA, implB = "wrap", "wrap"
		}
		ev.A.Impl, ev.B.Impl = implA, implB
		p, _ := catch(func() {
			a := buildEntry(c.A, implA, km, tb)
			b := buildEntry(c.B, implB, km, tb)
			ev.Obs = rEqObs{
				EqAB: jsonapi.Equal(a, b), EqBA: jsonapi.Equal(b, a),
				StAB: jsonapi.EqualStrict(a, b), StBA: jsonapi.EqualStrict(b, a),
				EqAA: jsonapi.Equal(a, a), StAA: jsonapi.EqualStrict(a, a),
				EqBB: jsonapi.Equal(b, b), StBB: jsonapi.EqualStrict(b, b),
			}
		})
		if p {
			ev.Ret = "panic"
		}
		return ev, true
	}
	w := &rWorld{km: km, tb: tb, noFrom: c.Var.NoFrom, built: c.Var.Built}
	for i, op := range c.Hist {
		ret, app := w.apply(op)
		if !app {
			return ev, false // the history itself is not realisable under this variant
		}
		if ret != "ok" {
			// a call of the history does not go the way the model says every call goes: that call is
			// the one to judge (the event is the one of the shorter case; a replay gets here again)
			return runResourceCase(rCase{Fam: c.Fam, Kind: c.Kind, Hist: c.Hist[:i], Op: op, Var: c.Var, Seed: c.Seed})
		}
	}
	ev = rEvent{Ev: "step", Op: c.Op, A: zero, B: zero}
	if ev.Op.Fields == nil {
		ev.Op.Fields = defMap{}
	}
	ev.Op.V = ev.Op.V.norm()
	p, _ := catch(func() { ev.Pre = w.project() })
	if p {
		return ev, false
	}
	ret, app := w.apply(c.Op)
	if !app {
		return ev, false
	}
	ev.Ret = ret
	p, _ = catch(func() { ev.Post = w.project() })
	if p {
		ev.Ret = "panic"
		ev.Post = ev.Pre
	}
	return ev, true
}

// implOf: which implementation a copy or a new resource really is (a copy of a soft resource is a
// soft resource, of a wrapped struct a wrapped struct)
func implOf(r jsonapi.Resource, dflt string) string {
	switch r.(type) {
	case *jsonapi.SoftResource:
		return "soft"
	case *jsonapi.Wrapper:
		return "wrap"
	}
	return dflt
}

func resourceMain(args []string) {
	timeStrict = true // values stay in memory: a time comes back with its zone offset
	fs := flag.NewFlagSet("resource", flag.ExitOnError)
	gen := fs.String("gen", "", "TLC generation outputs (ALPHA, EQ, S, W lines), comma separated")
	out := fs.String("out", "", "output directory")
	seed := fs.Int64("seed", 1, "seed")
	sample := fs.Int("sample", 0, "fan out from at most this many states")
	variants := fs.Int("variants", 1, "variants per state / walk")
	replay := fs.String("replay", "", "replay file")
	must(fs.Parse(args))
	if *replay != "" {
		var rf struct {
			Case rCase `json:"case"`
		}
		b, err := os.ReadFile(*replay)
		must(err)
		must(json.Unmarshal(b, &rf))
		ev, ok := runResourceCase(rf.Case)
		if !ok {
			infra("replay case is not applicable")
		}
		os.Stdout.Write(jsonLine(ev))
		return
	}
	var alpha []rOp
	var eqs [][2]rEntry
	var hists, walks [][]rOp
	for _, g := range splitList(*gen) {
		tlcLines(g, func(tag string, js []byte) {
			switch tag {
			case "ALPHA":
				if alpha == nil {
					must(json.Unmarshal(js, &alpha))
				}
			case "EQ":
				if eqs == nil {
					must(json.Unmarshal(js, &eqs))
				}
			case "S", "W":
				var s struct {
					Hist []rOp `json:"hist"`
				}
				must(json.Unmarshal(js, &s))
				if tag == "S" {
					hists = append(hists, s.Hist)
				} else {
					walks = append(walks, s.Hist)
				}
			}
		})
	}
	if len(alpha) == 0 || len(hists) == 0 || len(eqs) == 0 {
		infra("incomplete generation output %s", *gen)
	}
	rng := newRand(*seed, "resource")
	stt := newStats()
	stt.Exhaustive = true
	if *sample > 0 && *sample < len(hists) {
		// the histories of the small seeds (a type without any field) are few: they are all kept; the
		// others are sampled class by class - the class of a history is the set of operations in it that
		// make a new object - so that the rare classes (a resource made by New() of another) are never
		// lost to the size of the common ones
		var rare, rest [][]rOp
		classes := map[string][][]rOp{}
		for _, h := range hists {
			if len(h) > 0 && h[0].TName == "rt0" {
				rare = append(rare, h)
				continue
			}
			made := map[string]bool{}
			for _, op := range h {
				switch op.Op {
				case "Copy", "NewLike", "TypeCopy", "DerivedNew":
					made[op.Op] = true
				}
			}
			k := strings.Join(sortedKeys(made), "+")
			if len(h) > 0 {
				k = h[0].TName + ":" + k // ... and the type the history starts with
			}
			classes[k] = append(classes[k], h)
		}
		total := len(hists) - len(rare)
		for _, k := range sortedKeys(classes) {
			hs := classes[k]
			rng.Shuffle(len(hs), func(i, j int) { hs[i], hs[j] = hs[j], hs[i] })
			quota := *sample * len(hs) / total
			if quota < 12 {
				quota = 12
			}
			if quota > len(hs) {
				quota = len(hs)
			}
			rest = append(rest, hs[:quota]...)
		}
		hists = append(rest, rare...)
		stt.Exhaustive = false
	}
	w := newEvWriter(*out, 40000)
	variant := func() cVariant {
		v := cVariant{Shift: rng.Intn(len(nonBool)), Table: []int{0, 1, 2, 7}[rng.Intn(4)], NoFrom: rng.Intn(3) == 0, Built: rng.Intn(4) == 0, NamedID: rng.Intn(4) == 0, Decoy: rng.Intn(4) == 0}
		if rng.Intn(2) == 0 {
			v.Shift = 0 // the byte-string kinds sit at shift 0
		}
		return v
	}
	emit := func(c rCase) (rEvent, bool) {
		ev, ok := runResourceCase(c)
		if !ok {
			stt.class("skipped-not-applicable")
			return ev, false
		}
		stt.Calls++
		if c.Kind == "eq" {
			stt.Calls += 7
			stt.class("Equal:" + c.Var.Impl)
		} else {
			stt.class(ev.Op.Op + ":" + ev.Ret)
		}
		b, _ := json.Marshal([]any{ev.Pre, ev.Op, ev.A, ev.B})
		stt.distinct(string(b))
		w.Emit(ev, c)
		return ev, true
	}
	for _, h := range hists {
		stt.States++
		for k := 0; k < *variants; k++ {
			v := variant()
			for _, op := range alpha {
				ev, ok := emit(rCase{Fam: "resource", Kind: "step", Hist: h, Op: op, Var: v, Seed: *seed})
				// A state of the model is reached by many histories and TLC hands over one of them, rarely one
				// in which an object was made out of another (two objects made one by one look the same).
				// What was just made is therefore exercised on the spot: the type of each object is edited,
				// and the source and the new object gain, lose and overwrite a field, the others being watched.
				if !ok || ev.Ret != "ok" || !makesObject[op.Op] {
					continue
				}
				h2 := append(append([]rOp{}, h...), op)
				if op.Op == "Copy" && op.H >= 1 && op.H <= len(ev.Post) {
					// a to-many list that is empty when the copy is taken grows on both sides afterwards,
					// each side appending to the list it was handed out: first the source, then the copy
					src := ev.Post[op.H-1]
					for _, f := range sortedKeys(src.Fields) {
						if d := src.Fields[f]; d.Kind == "rel" && !d.To1 && len(src.Vals[f].IDs) == 0 {
							grow := rOp{Op: "Set", H: op.H, F: f, V: jVal{IDs: []string{"a"}}, Fields: defMap{}}
							h3 := append(append([]rOp{}, h2...), grow)
							if _, ok := emit(rCase{Fam: "resource", Kind: "step", Hist: h3,
								Op: rOp{Op: "Set", H: len(ev.Post), F: f, V: jVal{IDs: []string{"b", "a"}}, Fields: defMap{}}, Var: v, Seed: *seed}); ok {
								stt.class("after-making:both-sides-grow")
							}
						}
					}
				}
				seen := map[string]bool{}
				for _, op2 := range alpha {
					switch op2.Op {
					case "TypeEdit":
					case "AddField", "RemoveField", "MutSlice", "TypeRename":
						if op2.H != op.H && op2.H != len(ev.Post) {
							continue
						}
					default:
						continue
					}
					if k := fmt.Sprint(op2.Op, op2.H); !seen[k] {
						seen[k] = true
						if _, ok := emit(rCase{Fam: "resource", Kind: "step", Hist: h2, Op: op2, Var: v, Seed: *seed}); ok {
							stt.class("after-making:" + op.Op)
						}
					}
				}
			}
		}
	}
	// TLC's simulated behaviours, replayed step by step
	for _, wk := range walks {
		for k := 0; k < *variants; k++ {
			v := variant()
			for d := range wk {
				ev, ok := emit(rCase{Fam: "resource", Kind: "step", Hist: wk[:d], Op: wk[d], Var: v, Seed: *seed})
				if !ok || ev.Ret == "panic" {
					break
				}
			}
		}
	}
	// equality pairs in the four implementation combinations
	for _, pr := range eqs {
		for _, impl := range []string{"soft-soft", "soft-wrap", "wrap-soft", "wrap-wrap"} {
			v := variant()
			v.Impl = impl
			emit(rCase{Fam: "resource", Kind: "eq", A: pr[0], B: pr[1], Var: v, Seed: *seed})
		}
	}
	stt.Rule = "distinct (projected store, operation) pairs and distinct equality pairs"
	w.Close()
	stt.write(*out+"/stats.json", w)
}
