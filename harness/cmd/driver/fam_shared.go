package main

// SharedSchema family (C12).
//  footprint mode: each read-only operation runs alone between two deep
//    snapshots of the schema that record content AND identity (pointer, len,
//    cap of the Types slice, pointer of every map, including the unexported
//    rels); every difference is a write the footprint table must contain.
//  sched mode: every schedule TLC generated is replayed in a child process
//    built with -race: a controller releases and awaits one goroutine per
//    process through channels in the order of the schedule, so two operations
//    are unordered by happens-before exactly when they overlap in the
//    schedule, and the race detector answers the model's question.

import (
	"bufio"
	"bytes"
	"encoding/json"
	"flag"
	"fmt"
	neturl "net/url"
	"os"
	"os/exec"
	"reflect"
	"sort"
	"strings"
	"sync"
	"unsafe"

	"github.com/mfcochauxlaberge/jsonapi"
)

type hStep struct {
	P  int    `json:"p"`
	Op string `json:"op"`
	Ph string `json:"ph"`
}

type hEvent struct {
	Ev      string   `json:"ev"`
	Op      string   `json:"op"`
	Writes  []string `json:"writes"`
	Sched   []hStep  `json:"sched"`
	Races   int      `json:"races"`
	Fatal   bool     `json:"fatal"`
	Changed bool     `json:"changed"`
	Ret     string   `json:"ret"`
}

type hCase struct {
	Fam   string  `json:"fam"`
	Mode  string  `json:"mode"`
	Op    string  `json:"op"`
	Sched []hStep `json:"sched"`
}

var sharedOps = []string{"ParseURL", "UnmarshalDocument", "UnmarshalPartial", "NewResource", "MarshalOwnDoc",
	"GetType", "HasType", "Check", "Rels"}

// sharedSchema: a struct-backed type and two soft types, coherent.
func sharedSchema() *jsonapi.Schema {
	s := &jsonapi.Schema{}
	// the types are registered in an order that is not the alphabetical one
	must(s.AddType(*softType("t3", defMap{"c": {Kind: "attr", K: "bytes", Null: true}}, kindMap{})))
	typ, err := jsonapi.BuildType(reflect.New(structType("t1", docFields["t1"], kindMap{})).Interface())
	must(err)
	must(s.AddType(typ))
	// a type without any field: both maps nil
	must(s.AddType(jsonapi.Type{Name: "t5"}))
	must(s.AddType(*softType("t2", docFields["t2"], kindMap{})))
	// a type declared by hand: its relationship does not say which type it belongs to (FromType empty)
	must(s.AddType(jsonapi.Type{Name: "t6", Attrs: map[string]jsonapi.Attr{},
		Rels: map[string]jsonapi.Rel{"up": {FromName: "up", ToOne: true, ToType: "t2"}}}))
	// a type declared the short way: AddType(Type{Name}) then AddAttr leaves its Rels map nil
	must(s.AddType(jsonapi.Type{Name: "t4"}))
	must(s.AddAttr("t4", jsonapi.Attr{Name: "d", Type: jsonapi.AttrTypeString}))
	// a struct-backed type that has nothing but its ID
	typ7, err := jsonapi.BuildType(reflect.New(structType("t7", defMap{}, kindMap{})).Interface())
	must(err)
	must(s.AddType(typ7))
	// a pair that does not point back properly (t9.y names another inverse): the integrity
	// check has something to report, on the shared schema as well
	must(s.AddType(jsonapi.Type{Name: "t8", Rels: map[string]jsonapi.Rel{
		"x": {FromType: "t8", FromName: "x", ToOne: true, ToType: "t9", ToName: "y"}}}))
	must(s.AddType(jsonapi.Type{Name: "t9", Rels: map[string]jsonapi.Rel{
		"y": {FromType: "t9", FromName: "y", ToOne: true, ToType: "t8", ToName: "other"}}}))
	// a type declared by hand whose NewFunc wraps a struct: nothing has wrapped that struct type
	// before the requests do (a Go type of its own for every schema built in this process)
	sharedSchemaSeq++
	fields10 := defMap{fmt.Sprintf("d%d", sharedSchemaSeq): {Kind: "attr", K: "string"}}
	st10 := structType("t10", fields10, kindMap{})
	t10 := softType("t10", fields10, kindMap{})
	t10.NewFunc = func() jsonapi.Resource { return jsonapi.Wrap(reflect.New(st10).Interface()) }
	must(s.AddType(*t10))
	// a struct-backed type with a two-way relationship to itself, as BuildType leaves it (the
	// cardinality of the far side is not filled in)
	typ13, err := jsonapi.BuildType(reflect.New(structType("t13", defMap{
		"boss":    {Kind: "rel", To1: true, TT: "t13", TN: "reports"},
		"reports": {Kind: "rel", To1: false, TT: "t13", TN: "boss"}}, kindMap{})).Interface())
	must(err)
	must(s.AddType(typ13))
	// a type declared by hand, every field under a key that is not its name
	must(s.AddType(jsonapi.Type{Name: "t12",
		Attrs: map[string]jsonapi.Attr{"k0": {Name: "a12", Type: jsonapi.AttrTypeString}, "k1": {Name: "b12", Type: jsonapi.AttrTypeInt}},
		Rels:  map[string]jsonapi.Rel{"k2": {FromType: "t12", FromName: "r12", ToOne: true, ToType: "t1"}}}))
	// a soft type in which an attribute and a relationship carry the same name (Schema.AddAttr and
	// AddRel build it without complaint): a schema like any other for the read-only operations
	must(s.AddType(jsonapi.Type{Name: "t11"}))
	must(s.AddAttr("t11", jsonapi.Attr{Name: "dup", Type: jsonapi.AttrTypeString}))
	must(s.AddAttr("t11", jsonapi.Attr{Name: "k", Type: jsonapi.AttrTypeInt}))
	if err := s.AddRel("t11", jsonapi.Rel{FromType: "t11", FromName: "dup", ToOne: true, ToType: "t1"}); err != nil {
		// (a library that refuses the second declaration has no such type: nothing to share)
		s.RemoveAttr("t11", "dup")
	}
	// a struct-backed type that serves fewer fields than its struct has: one attribute was taken out
	// of the schema when it was built (the resources its NewFunc makes still have the Go field)
	typ14, err := jsonapi.BuildType(reflect.New(structType("t14", defMap{"pub": {Kind: "attr", K: "string"}, "token": {Kind: "attr", K: "string"}}, kindMap{})).Interface())
	must(err)
	must(s.AddType(typ14))
	s.RemoveAttr("t14", "token")
	return s
}

var sharedSchemaSeq int

// snapshot: location -> description (content and identity)
func schemaSnapshot(s *jsonapi.Schema) map[string]string {
	out := map[string]string{}
	tv := reflect.ValueOf(s).Elem().FieldByName("Types")
	out["TypesSlice"] = fmt.Sprintf("%x/%d/%d", tv.Pointer(), tv.Len(), tv.Cap())
	var rec, am, rm []string
	for i := range s.Types {
		t := &s.Types[i]
		rec = append(rec, fmt.Sprintf("%s/%x", t.Name, reflect.ValueOf(t.NewFunc).Pointer()))
		am = append(am, fmt.Sprintf("%x:%v", reflect.ValueOf(t.Attrs).Pointer(), sortedMapString(t.Attrs)))
		rm = append(rm, fmt.Sprintf("%x:%v", reflect.ValueOf(t.Rels).Pointer(), sortedMapString(t.Rels)))
	}
	out["TypeRec"] = strings.Join(rec, ";")
	out["AttrMap"] = strings.Join(am, ";")
	out["RelMap"] = strings.Join(rm, ";")
	// every other field of the Schema struct (unexported caches such as rels), by content and identity
	sv := reflect.ValueOf(s).Elem()
	var cache []string
	for i := 0; i < sv.NumField(); i++ {
		if sv.Type().Field(i).Name == "Types" {
			continue
		}
		f := sv.Field(i)
		fv := reflect.NewAt(f.Type(), unsafe.Pointer(f.UnsafeAddr())).Elem()
		id := ""
		switch fv.Kind() {
		case reflect.Map, reflect.Slice, reflect.Ptr, reflect.Func, reflect.Chan:
			id = fmt.Sprintf("%x", fv.Pointer())
		}
		desc := fmt.Sprintf("%+v", fv.Interface())
		if fv.Kind() == reflect.Map {
			desc = sortedMapString(fv.Interface())
		}
		cache = append(cache, fmt.Sprintf("%s@%s:%s", sv.Type().Field(i).Name, id, desc))
	}
	out["RelsCache"] = strings.Join(cache, ";")
	return out
}

// freshProbe: what every type creates is part of the type - a fresh resource, by its readable
// content.  Taken only AFTER the requests (creating a resource before them would do the lazy
// initialisations on their behalf) and compared with the same probe of a schema built the same way
// that served nobody.
func freshProbe(s *jsonapi.Schema) string {
	var out []string
	for i := range s.Types {
		t := &s.Types[i]
		if t.NewFunc == nil || t.Name == "t10" { // (t10 differs from one schema to the next by construction)
			continue
		}
		r := t.New()
		fresh := fmt.Sprintf("%s:id=%q", t.Name, r.Get("id"))
		for _, f := range sortedKeys(r.Attrs()) {
			fresh += fmt.Sprintf(",%s=%#v", f, derefAny(r.Get(f)))
		}
		for _, f := range sortedKeys(r.Rels()) {
			fresh += fmt.Sprintf(",%s=%#v", f, r.Get(f))
		}
		out = append(out, fresh)
	}
	return strings.Join(out, ";")
}

// derefAny: the value behind a pointer (the address itself differs from one resource to the next)
func derefAny(v any) any {
	rv := reflect.ValueOf(v)
	if rv.IsValid() && rv.Kind() == reflect.Ptr {
		if rv.IsNil() {
			return nil
		}
		return rv.Elem().Interface()
	}
	return v
}

func sortedMapString(m any) string {
	rv := reflect.ValueOf(m)
	var parts []string
	for _, k := range rv.MapKeys() {
		parts = append(parts, fmt.Sprintf("%v=%+v", k, rv.MapIndex(k)))
	}
	sort.Strings(parts)
	return strings.Join(parts, ",")
}

// commonSU: one SimpleURL that every request hands to NewURL (see ParseURL)
var commonSU struct {
	once    sync.Once
	su      jsonapi.SimpleURL
	include []string
}

// one operation with inputs owned by the caller (p distinguishes the inputs)
func sharedOp(s *jsonapi.Schema, op string, p int) {
	id := fmt.Sprintf("i%d", p)
	switch op {
	case "ParseURL":
		u, err := jsonapi.NewURLFromRaw(s, "/t1?include=o.p,m&fields[t1]=a,o,m&sort=-a,n&page[size]=2&filter=lbl-"+id)
		must(err)
		if str := u.String(); !strings.Contains(str, "filter=lbl-"+id+"&") && !strings.HasSuffix(str, "filter=lbl-"+id) {
			panic("the text of the URL carries another request's filter label: " + str)
		}
		// requests that name the hand-declared type and its fields (whatever the answer, a question)
		for _, raw := range []string{"/t12?fields[t12]=b12,a12,r12&sort=-b12", "/t12/1/r12", "/t12?include=r12&fields[t1]=a",
			"/t13/1/reports", "/t13/1/relationships/boss", "/t13/1/boss?include=reports.boss", "/t1/1/relationships/m", "/t2/x/p"} {
			if u, err := jsonapi.NewURLFromRaw(s, raw); err == nil {
				_ = u.String()
			}
		}
		// the very same text as every other request sends (field names not in alphabetical order): what
		// is parsed from it is nevertheless this request's own
		uc, err := jsonapi.NewURLFromRaw(s, "/t1?fields[t1]=o,m,a&fields[t2]=p,b&page[size]=3&sort=n")
		must(err)
		// (printing it puts its field lists in order, in place: a write to what must be the request's own)
		if str := uc.String(); !strings.Contains(str, "a%2Cm%2Co") {
			panic("the text of a URL parsed from a common text: " + str)
		}
		// a URL that was split into its parts once, for every request alike (a SimpleURL is handed over by
		// value: what it lists stays the caller's, to read as often and from as many goroutines as it likes)
		commonSU.once.Do(func() {
			pu, err := neturl.Parse("/t1?include=o.p,m,o&fields[t1]=o,a")
			must(err)
			commonSU.su, err = jsonapi.NewSimpleURL(pu)
			must(err)
			commonSU.include = append([]string{}, commonSU.su.Include...)
		})
		if _, err := jsonapi.NewURL(s, commonSU.su); err != nil {
			panic("a URL split beforehand is refused: " + err.Error())
		}
		if !reflect.DeepEqual(commonSU.su.Include, commonSU.include) {
			panic(fmt.Sprintf("NewURL rewrote the inclusions of the SimpleURL it was given: %v", commonSU.su.Include))
		}
		// a filter that is a tree of conditions, three levels deep, with this request's own value in it
		tree := `{"o":"and","v":[{"f":"a","o":"=","v":"` + id + `"},{"o":"or","v":[{"f":"a","o":"!=","v":"q"},{"o":"and","v":[{"o":"or","v":[]}]}]}]}`
		u2, err := jsonapi.NewURLFromRaw(s, "/t1?filter="+neturl.QueryEscape(tree))
		must(err)
		if u2.Params.Filter == nil || u2.Params.Filter.Op != "and" || !strings.Contains(u2.String(), id) {
			panic("the filter tree of the URL is not the request's own")
		}
	case "UnmarshalDocument":
		pl := `{"data":[{"type":"t1","id":"` + id + `","meta":{"owner":"` + id + `"},"attributes":{"a":"x","n":3},"relationships":{"o":{"data":{"type":"t2","id":"u"}},"m":{"data":[{"type":"t2","id":"v"}]}}}],` +
			`"included":[{"type":"t2","id":"u","attributes":{"b":"y"}},{"type":"t3","id":"w","attributes":{"c":null}},` +
			`{"type":"t4","id":"q","attributes":{"d":"z"}},{"type":"t5","id":"e"}]}`
		doc, err := jsonapi.UnmarshalDocument([]byte(pl), s)
		must(err)
		// what this request read stays its own while the next payload is read (by anybody)
		_, err = jsonapi.UnmarshalResource([]byte(`{"type":"t1","id":"other","meta":{"owner":"other","more":1},"attributes":{"a":"y"}}`), s)
		must(err)
		// a collection several of whose members are refused: an error, whichever way the members are read
		bad := `{"data":[{"type":"t1","id":"b1","attributes":{"n":"x"}},{"type":"t2","id":"b2","attributes":{"b":7}},` +
			`{"type":"t1","id":"b3","attributes":{"zz":1}},{"type":"t1","id":"b4","attributes":{"a":"ok"}}]}`
		if d, err := jsonapi.UnmarshalDocument([]byte(bad), s); err == nil || d != nil {
			panic("a collection with refused members was accepted")
		}
		// the document that was read is sent back with a self link of its own; the next document read
		// starts empty
		if u, err := jsonapi.NewURLFromRaw(s, "/t1?filter=echo-"+id); err == nil {
			_, err = jsonapi.MarshalDocument(doc, u)
			must(err)
			next, err := jsonapi.UnmarshalDocument([]byte(`{"data":null}`), s)
			must(err)
			if len(next.Links) != 0 || len(next.Meta) != 0 || len(next.RelData) != 0 {
				panic("a document just read already carries links, meta or relationship data of another one")
			}
		}
		// a body that names a field its type does not have: the error says which, and keeps saying it
		// while other bodies are refused (by anybody)
		_, e1 := jsonapi.UnmarshalResource([]byte(`{"type":"t1","id":"x","attributes":{"zz`+id+`":1}}`), s)
		je1, ok1 := e1.(jsonapi.Error)
		if !ok1 || je1.Meta["unknown-field"] != "zz"+id || je1.Meta["type"] != "t1" {
			panic("the error of a refused body does not name the body's own field")
		}
		_, e2 := jsonapi.UnmarshalPartialResource([]byte(`{"type":"t2","id":"x","relationships":{"yy`+id+`":{"data":null}}}`), s)
		je2, ok2 := e2.(jsonapi.Error)
		if !ok2 || je2.Meta["unknown-field"] != "yy"+id || je2.Meta["type"] != "t2" {
			panic("the error of a refused partial body does not name the body's own field")
		}
		je2.Source["pointer"] = "/data/relationships/yy" + id // (a handler completes the error it passes on)
		if je1.Meta["unknown-field"] != "zz"+id || je1.Meta["type"] != "t1" || !strings.Contains(je1.Detail, "zz"+id) || je1.Source["pointer"] != "" {
			panic("an error kept from an earlier refusal changed when another body was refused")
		}
		// a body that names the attribute its type no longer serves: refused like any unknown field
		if r14, err := jsonapi.UnmarshalResource([]byte(`{"type":"t14","id":"`+id+`","attributes":{"pub":"p","token":"s3cret"}}`), s); err == nil || r14 != nil {
			panic("a body that names an attribute the schema does not serve was accepted")
		}
		if r14, err := jsonapi.UnmarshalResource([]byte(`{"type":"t14","id":"`+id+`","attributes":{"pub":"p"}}`), s); err != nil || r14.Get("pub") != "p" {
			panic("a body of the narrowed type was refused")
		}
		first := doc.Data.(jsonapi.Collection).At(0)
		if mh, ok := first.(jsonapi.MetaHolder); !ok || len(mh.Meta()) != 1 || mh.Meta()["owner"] != id ||
			first.Get("id") != id || first.Get("a") != "x" {
			panic("a resource read earlier changed when another payload was read")
		}
	case "UnmarshalPartial":
		pl := `{"type":"t2","id":"` + id + `","attributes":{"b":"z"},"relationships":{"p":{"data":{"type":"t1","id":"x"}}}}`
		r, err := jsonapi.UnmarshalPartialResource([]byte(pl), s)
		must(err)
		_ = r.Get("b")
		pl = `{"type":"t1","id":"` + id + `","attributes":{"n":null}}`
		_, err = jsonapi.UnmarshalPartialResource([]byte(pl), s)
		must(err)
		pl = `{"type":"t4","id":"` + id + `","attributes":{"d":"v"}}`
		r4, err := jsonapi.UnmarshalResource([]byte(pl), s)
		must(err)
		_ = r4.Get("d")
		// a body that names every attribute of its type, read partially; what comes back is the
		// request's own and may be cut down by it
		p4, err := jsonapi.UnmarshalPartialResource([]byte(pl), s)
		must(err)
		if p4.Get("d") != "v" {
			panic("partial value lost")
		}
		p4.RemoveField("d")
		if len(s.GetType("t4").Attrs) != 1 {
			panic("cutting down a partial resource reached the schema")
		}
	case "NewResource":
		for _, name := range []string{"t1", "t2", "t3", "t4", "t5", "t7", "t11"} {
			typ := s.GetType(name)
			r := typ.New()
			r.Set("id", id)
			for f := range r.Attrs() {
				_ = r.Get(f)
			}
			if name == "t2" {
				r.Set("b", "own")
				r.Set("p", "x")
			}
			if name == "t1" {
				r.Set("a", "own")
				r.Set("m", []string{"b", "a"})
			}
		}
		// ... and straight from the schema's own elements (no copy of the Type in between).  Such a
		// soft resource has the schema's element as its Type (that is what Type.New documents), so
		// it is only created here, never used: creating it is the read-only operation
		for i := range s.Types {
			_ = s.Types[i].New()
		}
	case "MarshalOwnDoc":
		t1 := s.GetType("t1")
		t2 := s.GetType("t2")
		r1, r2 := t1.New(), t2.New()
		r1.Set("id", id)
		r1.Set("m", []string{"v", "u"})
		r2.Set("id", "u")
		u, err := jsonapi.NewURLFromRaw(s, "/t1/"+id+"?include=m&filter=own-"+id)
		must(err)
		doc := &jsonapi.Document{Data: r1, RelData: map[string][]string{"t1": {"m", "o"}}}
		doc.Include(r2)
		out, err := jsonapi.MarshalDocument(doc, u)
		must(err)
		if !strings.Contains(string(out), "filter=own-"+id+"\"") {
			panic("the self link carries another request's filter label: " + string(out))
		}
		// a collection of the request's own, marshaled twice; what the first call returned is read
		// again after the second (the bytes are the caller's from the moment they are returned)
		col := &jsonapi.Resources{}
		for k := 0; k < 3; k++ {
			rk := t1.New()
			rk.Set("id", fmt.Sprintf("%s-%d", id, k))
			rk.Set("a", "own-"+id)
			col.Add(rk)
		}
		uc, err := jsonapi.NewURLFromRaw(s, "/t1?fields[t1]=a")
		must(err)
		first, err := jsonapi.MarshalDocument(&jsonapi.Document{Data: col}, uc)
		must(err)
		kept := string(first)
		other := &jsonapi.Resources{}
		for k := 0; k < 2; k++ {
			rk := t1.New()
			rk.Set("id", fmt.Sprintf("other-%d", k))
			rk.Set("a", "somebody else's")
			other.Add(rk)
		}
		_, err = jsonapi.MarshalDocument(&jsonapi.Document{Data: other}, uc)
		must(err)
		if string(first) != kept || strings.Count(kept, "own-"+id) != 3 || !json.Valid(first) {
			panic("the payload of a collection changed after it was returned, or holds another request's members")
		}
		// ... and the same with the collection marshaler called on its own (a handler that writes the
		// members itself): the bytes it returned stay what they were while the next collection is marshaled
		sel := map[string][]string{"t1": {"a"}}
		direct := jsonapi.MarshalCollection(col, "/p", sel, nil)
		keptD := string(direct)
		second := jsonapi.MarshalCollection(other, "/p", sel, nil)
		if string(direct) != keptD || strings.Count(keptD, "own-"+id) != 3 || !json.Valid(direct) ||
			strings.Count(string(second), "somebody else's") != 2 || !json.Valid(second) {
			panic("the bytes MarshalCollection returned changed when it was called again, or hold another collection's members")
		}
	case "GetType":
		if s.GetType("t2").Name != "t2" || s.GetType("zz").Name != "" {
			panic("GetType")
		}
	case "HasType":
		if !s.HasType("t3") || s.HasType("zz") {
			panic("HasType")
		}
	case "Check":
		if len(s.Check()) == 0 {
			panic("the pair t8/t9 is not reported")
		}
	case "Rels":
		if len(s.Rels()) == 0 {
			panic("no relationships")
		}
	default:
		infra("unknown shared op %q", op)
	}
}

func runFootprint(op string) hEvent {
	s := sharedSchema()
	ev := hEvent{Ev: "footprint", Op: op, Writes: []string{}, Sched: []hStep{}, Ret: "ok"}
	before := schemaSnapshot(s)
	if p, _ := catch(func() { sharedOp(s, op, 1) }); p {
		ev.Ret = "panic"
	}
	after := schemaSnapshot(s)
	if freshProbe(s) != freshProbe(sharedSchema()) {
		after["TypeRec"] += " (what a type creates has changed)"
	}
	for _, loc := range sortedKeys(before) {
		if before[loc] != after[loc] {
			ev.Writes = append(ev.Writes, loc)
		}
	}
	return ev
}

// ---- child (built with -race): replays schedules ----

func replaySched(s *jsonapi.Schema, sched []hStep) {
	start := map[int]chan string{}
	done := map[int]chan struct{}{}
	for _, st := range sched {
		if _, ok := start[st.P]; !ok {
			start[st.P] = make(chan string)
			done[st.P] = make(chan struct{})
		}
	}
	for p := range start {
		p, in, out := p, start[p], done[p]
		go func() {
			for op := range in {
				sharedOp(s, op, p)
				out <- struct{}{}
			}
		}()
	}
	for _, st := range sched {
		if st.Ph == "B" {
			start[st.P] <- st.Op
		} else {
			<-done[st.P]
		}
	}
	for _, c := range start {
		close(c)
	}
}

func sharedChild(path string) {
	b, err := os.ReadFile(path)
	must(err)
	var scheds [][]hStep
	must(json.Unmarshal(b, &scheds))
	for i, sc := range scheds {
		// a freshly built schema for every schedule: writes that only happen on first use
		// (lazily created maps, caches) must meet the concurrent operations of the schedule
		s := sharedSchema()
		fmt.Fprintf(os.Stderr, "\nSCHED %d\n", i)
		before := schemaSnapshot(s)
		replaySched(s, sc)
		after := schemaSnapshot(s)
		if !reflect.DeepEqual(before, after) || freshProbe(s) != freshProbe(sharedSchema()) {
			fmt.Fprintf(os.Stderr, "\nCHANGED %d\n", i)
		}
	}
	fmt.Fprintf(os.Stderr, "\nEND\n")
}

// runBatch runs the schedules in one child process; per schedule: races, fatal, changed
func runBatch(raceBin, dir string, scheds [][]hStep) (races []int, changed []bool, fatal bool) {
	f, err := os.CreateTemp(dir, "scheds-*.json")
	must(err)
	b, _ := json.Marshal(scheds)
	_, err = f.Write(b)
	must(err)
	must(f.Close())
	defer os.Remove(f.Name())
	cmd := exec.Command(raceBin, "shared", "-mode", "child", "-scheds", f.Name())
	cmd.Env = append(os.Environ(), "GORACE=halt_on_error=0 exitcode=0 atexit_sleep_ms=0")
	var stderr bytes.Buffer
	cmd.Stderr = &stderr
	rerr := cmd.Run()
	races = make([]int, len(scheds))
	changed = make([]bool, len(scheds))
	cur := -1
	ended := false
	inReport, libFrames := false, false
	sc := bufio.NewScanner(&stderr)
	sc.Buffer(make([]byte, 1<<20), 1<<26)
	for sc.Scan() {
		line := sc.Text()
		var n int
		switch {
		case strings.HasPrefix(line, "SCHED "):
			fmt.Sscanf(line, "SCHED %d", &n)
			cur = n
		case strings.HasPrefix(line, "CHANGED "):
			fmt.Sscanf(line, "CHANGED %d", &n)
			changed[n] = true
		case strings.HasPrefix(line, "WARNING: DATA RACE"):
			inReport, libFrames = true, false
		case strings.HasPrefix(line, "=================="):
			if inReport {
				if !libFrames {
					infra("data race without a frame of the library (a race of the harness):\n%s", stderr.String())
				}
				if cur >= 0 {
					races[cur]++
				}
			}
			inReport = false
		case inReport && strings.Contains(line, "github.com/mfcochauxlaberge/jsonapi."):
			libFrames = true
		case strings.HasPrefix(line, "fatal error:") || strings.HasPrefix(line, "panic:"):
			fatal = true
		case line == "END":
			ended = true
		}
	}
	if rerr != nil || !ended {
		fatal = true
	}
	return
}

func sharedMain(args []string) {
	fs := flag.NewFlagSet("shared", flag.ExitOnError)
	mode := fs.String("mode", "run", "run | child")
	gen := fs.String("gen", "", "TLC generation outputs (SCHED lines), comma separated")
	out := fs.String("out", "", "output directory")
	seed := fs.Int64("seed", 1, "seed")
	raceBin := fs.String("racebin", "", "path of the driver built with -race")
	scheds := fs.String("scheds", "", "child: schedules file")
	sample := fs.Int("sample", 0, "use at most this many schedules")
	reps := fs.Int("reps", 1, "repetitions of the whole set")
	replay := fs.String("replay", "", "replay file")
	must(fs.Parse(args))
	if *mode == "child" {
		sharedChild(*scheds)
		return
	}
	if *raceBin == "" {
		*raceBin = os.Getenv("VERIF_RACE_DRIVER")
	}
	if *replay != "" {
		var rf struct {
			Case hCase `json:"case"`
		}
		b, err := os.ReadFile(*replay)
		must(err)
		must(json.Unmarshal(b, &rf))
		if rf.Case.Mode == "footprint" {
			os.Stdout.Write(jsonLine(runFootprint(rf.Case.Op)))
			return
		}
		dir, _ := os.MkdirTemp("", "shared")
		defer os.RemoveAll(dir)
		worst := hEvent{Ev: "sched", Sched: rf.Case.Sched, Writes: []string{}, Ret: "ok"}
		for i := 0; i < 5; i++ { // a race needs the accesses to fall into the detector's window: a few attempts
			r, c, fatal := runBatch(*raceBin, dir, [][]hStep{rf.Case.Sched})
			if r[0] > worst.Races {
				worst.Races = r[0]
			}
			worst.Changed = worst.Changed || c[0]
			worst.Fatal = worst.Fatal || fatal
		}
		os.Stdout.Write(jsonLine(worst))
		return
	}
	if *raceBin == "" {
		infra("no -racebin")
	}
	var all [][]hStep
	for _, g := range splitList(*gen) {
		tlcLines(g, func(tag string, js []byte) {
			if tag == "SCHED" {
				var s struct {
					Sched []hStep `json:"sched"`
				}
				must(json.Unmarshal(js, &s))
				all = append(all, s.Sched)
			}
		})
	}
	if len(all) == 0 {
		infra("no schedules in %s", *gen)
	}
	rng := newRand(*seed, "shared")
	stt := newStats()
	stt.Exhaustive = true
	if *sample > 0 && *sample < len(all) {
		rng.Shuffle(len(all), func(i, j int) { all[i], all[j] = all[j], all[i] })
		all = all[:*sample]
		stt.Exhaustive = false
	}
	w := newEvWriter(*out, 100000)
	for _, op := range sharedOps {
		ev := runFootprint(op)
		stt.Calls++
		stt.class("footprint:" + op)
		w.Emit(ev, hCase{Fam: "shared", Mode: "footprint", Op: op})
	}
	const batch = 40
	for rep := 0; rep < *reps; rep++ {
		for i := 0; i < len(all); i += batch {
			j := i + batch
			if j > len(all) {
				j = len(all)
			}
			races, changed, fatal := runBatch(*raceBin, *out, all[i:j])
			dirty := fatal
			for k := range races {
				if races[k] > 0 || changed[k] {
					dirty = true
				}
			}
			if dirty {
				// the detector reports a given pair of stacks once per process: run each
				// schedule of the batch in its own process for an exact attribution
				for k := i; k < j; k++ {
					r, c, f := runBatch(*raceBin, *out, [][]hStep{all[k]})
					races[k-i], changed[k-i] = r[0], c[0]
					if f {
						races[k-i] = -1
					}
				}
			}
			for k := i; k < j; k++ {
				ev := hEvent{Ev: "sched", Sched: all[k], Writes: []string{}, Races: races[k-i], Changed: changed[k-i], Ret: "ok"}
				if ev.Races < 0 {
					ev.Races, ev.Fatal = 0, true
				}
				stt.Calls += len(all[k]) / 2
				overl := false
				open := map[int]bool{}
				for _, st := range all[k] {
					if st.Ph == "B" {
						if len(open) > 0 {
							overl = true
						}
						open[st.P] = true
					} else {
						delete(open, st.P)
					}
				}
				if overl {
					stt.class("sched:overlapping")
				} else {
					stt.class("sched:sequential")
				}
				b, _ := json.Marshal(all[k])
				stt.distinct(string(b))
				w.Emit(ev, hCase{Fam: "shared", Mode: "sched", Sched: all[k]})
			}
		}
	}
	stt.Rule = "distinct schedules (sequences of Begin / End of operations per process) replayed under the race detector"
	w.Close()
	stt.write(*out+"/stats.json", w)
}
