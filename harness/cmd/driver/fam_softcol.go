package main

// SoftCollection family (C19).

import (
	"encoding/json"
	"flag"
	"os"

	"github.com/mfcochauxlaberge/jsonapi"
)

type cType struct {
	Name   string `json:"name"`
	Fields defMap `json:"fields"`
}

type cSrc struct {
	ID     string `json:"id"`
	Name   string `json:"name"`
	Shared bool   `json:"shared"`
	Fields defMap `json:"fields"`
	Vals   valMap `json:"vals"`
}

type cItem struct {
	ID   string `json:"id"`
	Vals valMap `json:"vals"`
}

type cState struct {
	CType cType   `json:"ctype"`
	Items []cItem `json:"items"`
	Srcs  []cSrc  `json:"srcs"`
}

type cOp struct {
	Op   string `json:"op"`
	Typ  cType  `json:"typ"`
	Mid  cType  `json:"mid"` // SetTypeTwice: the type set first
	Src  int    `json:"src"`
	ID   string `json:"id"`
	Name string `json:"name"`
	Def  jDef   `json:"def"`
	Val  jVal   `json:"val"`
}

type cObs struct {
	Len      int            `json:"len"`
	At       []string       `json:"at"`
	ByID     map[string]int `json:"byid"`
	ItemDefs []defMap       `json:"itemdefs"`
	PreDefs  []defMap       `json:"preitemdefs"`
}

type cEvent struct {
	Ev   string `json:"ev"`
	Pre  cState `json:"pre"`
	Op   cOp    `json:"op"`
	Post cState `json:"post"`
	Ret  string `json:"ret"`
	Obs  cObs   `json:"obs"`
}

type cVariant struct {
	Impl    string `json:"impl"`
	Shift   int    `json:"shift"`
	Table   int    `json:"table"`
	NoFrom  bool   `json:"nofrom"`  // soft types declared by hand: relationships without FromType
	Built   bool   `json:"built"`   // resource family: a soft resource is given a copy of a type made by BuildType (it carries a NewFunc)
	NamedID bool   `json:"namedid"` // resource family: wrapped structs have an ID field of a defined string type
	Decoy   bool   `json:"decoy"`   // resource family: wrapped structs carry decoy fields (see kindMap)
}

type cCase struct {
	Fam  string   `json:"fam"`
	Init cState   `json:"init"`
	Hist []cOp    `json:"hist"`
	Op   cOp      `json:"op"`
	Var  cVariant `json:"var"`
	Seed int64    `json:"seed"`
}

type cWorld struct {
	col  *jsonapi.SoftCollection
	srcs []jsonapi.Resource
	defs []cSrc
	km   kindMap
	tb   *vtable
}

var tableCache = map[[2]int64]*vtable{}

func tableFor(n int, seed int64) *vtable {
	k := [2]int64{int64(n), seed}
	if t, ok := tableCache[k]; ok {
		return t
	}
	t := zeroFirstTable(n, seed)
	tableCache[k] = t
	return t
}

func newCWorld(init cState, v cVariant, seed int64) *cWorld {
	w := &cWorld{km: kindMap{Shift: v.Shift}, tb: tableFor(v.Table, seed), defs: init.Srcs}
	w.col = &jsonapi.SoftCollection{}
	w.col.SetType(softType(init.CType.Name, init.CType.Fields, w.km))
	for _, s := range init.Srcs {
		var res jsonapi.Resource
		if s.Shared {
			// a soft resource living on the collection's own *Type (whatever the variant)
			sr := &jsonapi.SoftResource{}
			sr.SetType(w.col.Type)
			res = sr
		} else {
			res = newRes(v.Impl, s.Name, s.Fields, w.km)
		}
		res.Set("id", cID(s.ID))
		for f, val := range s.Vals {
			setField(res, f, s.Fields[f], val, w.km, w.tb)
		}
		w.srcs = append(w.srcs, res)
	}
	return w
}

func (w *cWorld) apply(op cOp) string {
	var err error
	p, _ := catch(func() {
		switch op.Op {
		case "SetType":
			w.col.SetType(softType(op.Typ.Name, op.Typ.Fields, w.km))
		case "SetTypeTwice":
			w.col.SetType(softType(op.Mid.Name, op.Mid.Fields, w.km))
			w.col.SetType(softType(op.Typ.Name, op.Typ.Fields, w.km))
		case "Add":
			w.col.Add(w.srcs[op.Src-1])
		case "Remove":
			w.col.Remove(cID(op.ID))
		case "AddAttr":
			err = w.col.AddAttr(w.km.attr(op.Name, op.Def))
		case "AddRel":
			err = w.col.AddRel(relOf(w.col.GetType().Name, op.Name, op.Def))
		case "SetSrc":
			setField(w.srcs[op.Src-1], op.Name, w.defs[op.Src-1].Fields[op.Name], op.Val, w.km, w.tb)
		default:
			infra("unknown softcol op %q", op.Op)
		}
	})
	switch {
	case p:
		return "panic"
	case err != nil:
		return "err"
	}
	return "ok"
}

// cID / aID: the model's id "0" is the empty id (a resource that was never given one)
func cID(tok string) string {
	if tok == "0" {
		return ""
	}
	return tok
}

func aID(id string) string {
	if id == "" {
		return "0"
	}
	return id
}

func (w *cWorld) project() (cState, cObs) {
	st := cState{Items: []cItem{}, Srcs: []cSrc{}}
	obs := cObs{At: []string{}, ByID: map[string]int{}, ItemDefs: []defMap{}}
	t := w.col.GetType()
	st.CType = cType{Name: t.Name, Fields: projDefs(t.Attrs, t.Rels, w.km)}
	n := w.col.Len()
	obs.Len = n
	for i := -1; i <= n+1; i++ {
		r := w.col.At(i)
		if r == nil {
			obs.At = append(obs.At, "nil")
			continue
		}
		if reflectIsNil(r) {
			// a nil pointer inside a non-nil interface value: `At(i) == nil` is false for the caller
			obs.At = append(obs.At, "typed-nil")
			continue
		}
		id, _ := r.Get("id").(string)
		id = aID(id)
		obs.At = append(obs.At, id)
		if i >= 0 && i < n {
			defs, vals := projVals(r, w.km, w.tb)
			st.Items = append(st.Items, cItem{ID: id, Vals: vals})
			obs.ItemDefs = append(obs.ItemDefs, defs)
		}
	}
	for _, id := range []string{"1", "2", "3", "9", "0"} {
		r := w.col.Resource(cID(id), nil)
		obs.ByID[id] = 0
		if r != nil && reflectIsNil(r) {
			obs.ByID[id] = -2 // a typed nil
		} else if r != nil {
			for i := 0; i < n; i++ {
				if w.col.At(i) == r {
					obs.ByID[id] = i + 1
					break
				}
			}
			if obs.ByID[id] == 0 {
				obs.ByID[id] = -1 // a resource that is not an element
			}
		}
	}
	for i, s := range w.srcs {
		defs, vals := projVals(s, w.km, w.tb)
		id, _ := s.Get("id").(string)
		id = aID(id)
		shared := false
		if sr, ok := s.(*jsonapi.SoftResource); ok && sr.Type == w.col.Type {
			shared = true
		}
		st.Srcs = append(st.Srcs, cSrc{ID: id, Name: w.defs[i].Name, Shared: shared, Fields: defs, Vals: vals})
	}
	return st, obs
}

func runSoftColCase(c cCase) (ev cEvent) {
	w := newCWorld(c.Init, c.Var, c.Seed)
	for _, op := range c.Hist {
		w.apply(op)
	}
	ev.Ev = "step"
	ev.Op = c.Op
	p, _ := catch(func() {
		var po cObs
		ev.Pre, po = w.project()
		ev.Ret = w.apply(c.Op)
		ev.Post, ev.Obs = w.project()
		ev.Obs.PreDefs = po.ItemDefs
	})
	if p {
		ev.Ret = "panic"
		if ev.Pre.Items == nil || ev.Pre.Srcs == nil || ev.Pre.CType.Fields == nil {
			// the panic came while the state before the step was being read
			ev.Pre = cState{CType: cType{Fields: defMap{}}, Items: []cItem{}, Srcs: []cSrc{}}
			ev.Post = cState{}
		}
		if ev.Post.Items == nil {
			ev.Post = ev.Pre
			ev.Obs = cObs{At: []string{}, ByID: map[string]int{}, ItemDefs: []defMap{}}
		}
		if ev.Obs.PreDefs == nil {
			ev.Obs.PreDefs = []defMap{}
		}
	}
	return ev
}

func softColMain(args []string) {
	timeStrict = true // values stay in memory: a time comes back with its zone offset
	fs := flag.NewFlagSet("softcol", flag.ExitOnError)
	gen := fs.String("gen", "", "TLC generation output")
	out := fs.String("out", "", "output directory")
	seed := fs.Int64("seed", 1, "seed")
	sample := fs.Int("sample", 0, "fan out from at most this many states")
	variants := fs.Int("variants", 1, "variants (impl, kind shift, value table) per state")
	walks := fs.Int("walks", 0, "random walks")
	depth := fs.Int("depth", 40, "walk depth")
	replay := fs.String("replay", "", "replay file")
	must(fs.Parse(args))
	if *replay != "" {
		var rf struct {
			Case cCase `json:"case"`
		}
		b, err := os.ReadFile(*replay)
		must(err)
		must(json.Unmarshal(b, &rf))
		os.Stdout.Write(jsonLine(runSoftColCase(rf.Case)))
		return
	}
	var alpha []cOp
	var init cState
	var hists, always [][]cOp // always: the histories of the further (small) universes, never sampled away
	for gi, genFile := range splitList(*gen) {
		tlcLines(genFile, func(tag string, js []byte) {
			switch tag {
			case "ALPHA":
				if alpha == nil {
					must(json.Unmarshal(js, &alpha))
				}
			case "INIT":
				must(json.Unmarshal(js, &init))
			case "S":
				var s struct {
					Hist []cOp `json:"hist"`
				}
				must(json.Unmarshal(js, &s))
				if gi == 0 {
					hists = append(hists, s.Hist)
				} else {
					always = append(always, s.Hist)
				}
			}
		})
	}
	if len(alpha) == 0 || len(hists) == 0 || len(init.Srcs) == 0 {
		infra("incomplete generation output %s", *gen)
	}
	init.Items = []cItem{}
	rng := newRand(*seed, "softcol")
	stt := newStats()
	stt.Exhaustive = true
	if *sample > 0 && *sample < len(hists) {
		rng.Shuffle(len(hists), func(i, j int) { hists[i], hists[j] = hists[j], hists[i] })
		hists = hists[:*sample]
		stt.Exhaustive = false
	}
	hists = append(hists, always...)
	w := newEvWriter(*out, 40000)
	variant := func() cVariant {
		v := cVariant{Impl: "soft", Shift: rng.Intn(len(nonBool)), Table: rng.Intn(3)}
		if rng.Intn(2) == 0 {
			v.Impl = "wrap"
		}
		return v
	}
	emit := func(c cCase) cEvent {
		ev := runSoftColCase(c)
		stt.Calls++
		stt.class(ev.Op.Op + ":" + ev.Ret)
		if ev.Op.Op == "Add" {
			stt.class("Add:" + c.Var.Impl)
		}
		b, _ := json.Marshal([]any{ev.Pre.CType, ev.Pre.Items, ev.Op})
		stt.distinct(string(b))
		w.Emit(ev, c)
		return ev
	}
	for _, h := range hists {
		stt.States++
		for k := 0; k < *variants; k++ {
			v := variant()
			for _, op := range alpha {
				emit(cCase{Fam: "softcol", Init: init, Hist: h, Op: op, Var: v, Seed: *seed})
			}
		}
	}
	for i := 0; i < *walks; i++ {
		v := variant()
		var hist []cOp
		for d := 0; d < *depth; d++ {
			op := alpha[rng.Intn(len(alpha))]
			ev := emit(cCase{Fam: "softcol", Init: init, Hist: append([]cOp(nil), hist...), Op: op, Var: v, Seed: *seed})
			if ev.Ret == "panic" {
				break
			}
			hist = append(hist, op)
		}
	}
	stt.Rule = "distinct (collection type, stored items, operation) triples"
	w.Close()
	stt.write(*out+"/stats.json", w)
}
