package main

// Codec family: decoding of attribute literals (C06), resource payloads (C06,
// C13), round trips (C01) and robustness (C05).  Expected values are read
// independently: math/big for integers, encoding/base64, time.Parse.

import (
	"bytes"
	"encoding/base64"
	"encoding/json"
	"flag"
	"fmt"
	"math/big"
	"math/rand"
	"os"
	"reflect"
	"regexp"
	"runtime/debug"
	"strings"
	"time"

	"github.com/mfcochauxlaberge/jsonapi"
)

type jInt struct {
	T   int    `json:"t"`
	O   int    `json:"o"`
	Far bool   `json:"far"`
	ID  string `json:"id"`
}

var (
	bigOne  = big.NewInt(1)
	anchors = []*big.Int{
		nil, // tiers are 1-based
		new(big.Int).Neg(new(big.Int).Lsh(bigOne, 63)),         // 1 min64
		big.NewInt(-1 << 31),                                   // 2 min32
		big.NewInt(0),                                          // 3 zero
		big.NewInt(1<<31 - 1),                                  // 4 max32
		big.NewInt(1<<32 - 1),                                  // 5 umax32
		new(big.Int).Sub(new(big.Int).Lsh(bigOne, 63), bigOne), // 6 max64
		new(big.Int).Sub(new(big.Int).Lsh(bigOne, 64), bigOne), // 7 umax64
		new(big.Int).Lsh(bigOne, 70),                           // 8 two70
	}
)

// classifyInt maps an integer to the (tier, offset) representation of Codec.tla.
func classifyInt(n *big.Int) jInt {
	for t := 1; t <= 8; t++ {
		d := new(big.Int).Sub(n, anchors[t])
		lim := int64(2)
		if t == 3 {
			lim = 70000
		}
		if d.IsInt64() && d.Int64() >= -lim && d.Int64() <= lim {
			return jInt{T: t, O: int(d.Int64())}
		}
	}
	// far: the greatest anchor below n (0 = below min64)
	t := 0
	for k := 1; k <= 8; k++ {
		if anchors[k].Cmp(n) < 0 {
			t = k
		}
	}
	return jInt{T: t, Far: true, ID: n.String()}
}

type jLit struct {
	Cls   string `json:"cls"`
	N     jInt   `json:"n"`
	IsInt bool   `json:"isint"`
	Canon bool   `json:"canon"`
	Text  string `json:"text"` // the raw JSON (ASCII; non-ASCII is \u-escaped)
}

type jDec struct {
	Out    string `json:"out"` // accept | reject | panic
	IsNil  bool   `json:"isnil"`
	N      jInt   `json:"n"`
	Same   bool   `json:"same"`
	TypeOK bool   `json:"typeok"`
	Both   bool   `json:"both"`
	// ReOK: the accepted resource, marshaled again, carries the attribute as the same JSON value
	// (the same number, the same string, the same instant, null for null); true when there is no resource
	ReOK bool `json:"remarshal_ok"`
	// Again: the value handed out is the caller's own - written over through the pointer a nullable kind
	// gives, it leaves the next decoding of the same literal what the first one was (true when not tried)
	Again bool `json:"again_same"`
}

type decEvent struct {
	Ev   string `json:"ev"`
	Via  string `json:"via"` // attr | soft | wrap
	Kind string `json:"kind"`
	Null bool   `json:"null"`
	Lit  jLit   `json:"lit"`
	R    jDec   `json:"r"`
}

type decCase struct {
	Fam  string `json:"fam"`
	Mode string `json:"mode"`
	Via  string `json:"via"`
	Kind int    `json:"kind"`
	Null bool   `json:"null"`
	Lit  jLit   `json:"lit"`
}

// asciiJSON renders a Go string as a JSON string literal with \u escapes only.
func asciiJSON(s string) string {
	var b strings.Builder
	b.WriteByte('"')
	for _, r := range s {
		switch {
		case r == '"' || r == '\\':
			b.WriteByte('\\')
			b.WriteRune(r)
		case r < 0x20 || r > 0x7e:
			if r > 0xffff {
				r -= 0x10000
				fmt.Fprintf(&b, "\\u%04x\\u%04x", 0xd800+(r>>10), 0xdc00+(r&0x3ff))
			} else {
				fmt.Fprintf(&b, "\\u%04x", r)
			}
		default:
			b.WriteRune(r)
		}
	}
	b.WriteByte('"')
	return b.String()
}

// reference reading of a string literal: undo asciiJSON (independent of the library)
func refString(lit string) (string, bool) {
	var s string
	if err := json.Unmarshal([]byte(lit), &s); err != nil {
		return "", false
	}
	return s, true
}

func intLit(n *big.Int) jLit {
	return jLit{Cls: "int", N: classifyInt(n), IsInt: true, Canon: true, Text: n.String()}
}

// observeDecoded projects a decoded Go value.
func observeDecoded(kind int, null bool, lit jLit, v any) jDec {
	r := jDec{Out: "accept", N: jInt{T: 3}}
	want := reflect.TypeOf(jsonapi.GetZeroValue(kind, null))
	if v == nil {
		r.IsNil = null
		r.TypeOK = null // an untyped nil is tolerated for nullable kinds only
		return r
	}
	rv := reflect.ValueOf(v)
	r.TypeOK = rv.Type() == want
	if !r.TypeOK {
		return r
	}
	if null {
		if rv.IsNil() {
			r.IsNil = true
			return r
		}
		rv = rv.Elem()
	}
	base := rv.Interface()
	switch kind {
	case jsonapi.AttrTypeString:
		ref, ok := refString(lit.Text)
		r.Same = ok && base.(string) == ref
	case jsonapi.AttrTypeBool:
		r.Same = (lit.Text == "true") == base.(bool) && (lit.Text == "true" || lit.Text == "false")
	case jsonapi.AttrTypeTime:
		ref, ok := refString(lit.Text)
		if ok {
			t, err := time.Parse(time.RFC3339Nano, ref)
			r.Same = err == nil && t.Equal(base.(time.Time))
		}
	case jsonapi.AttrTypeBytes:
		ref, ok := refString(lit.Text)
		if ok {
			b, err := base64.StdEncoding.DecodeString(ref)
			if err != nil {
				b, err = base64.RawStdEncoding.DecodeString(strings.TrimRight(ref, "="))
			}
			r.Same = err == nil && string(b) == string(base.([]byte))
		}
	default:
		n, _ := new(big.Int).SetString(fmt.Sprint(base), 10)
		r.N = classifyInt(n)
		r.Same = true
	}
	return r
}

func runDecodeCase(c decCase) decEvent {
	ev := decEvent{Ev: "decode", Via: c.Via, Kind: kindName(c.Kind), Null: c.Null, Lit: c.Lit}
	attr := jsonapi.Attr{Name: "v", Type: c.Kind, Nullable: c.Null}
	var (
		v   any
		err error
	)
	var back jsonapi.Resource
	decode := func() {
		if c.Via == "attr" {
			v, err = attr.UnmarshalToType([]byte(c.Lit.Text))
			return
		}
		fields := defMap{"v": {Kind: "attr", K: kindName(c.Kind), Null: c.Null}}
		schema := &jsonapi.Schema{}
		if c.Via == "wrap" {
			typ, terr := jsonapi.BuildType(reflect.New(structType("dt", fields, kindMap{})).Interface())
			must(terr)
			must(schema.AddType(typ))
		} else {
			must(schema.AddType(*softType("dt", fields, kindMap{})))
		}
		payload := `{"id":"1","type":"dt","attributes":{"v":` + c.Lit.Text + `}}`
		var res jsonapi.Resource
		res, err = jsonapi.UnmarshalResource([]byte(payload), schema)
		if err == nil {
			v = res.Get("v")
			back = res
		} else if res != nil {
			v = res
		}
	}
	p, _ := catch(decode)
	switch {
	case p:
		ev.R = jDec{Out: "panic", N: jInt{T: 3}}
	case err != nil:
		ev.R = jDec{Out: "reject", N: jInt{T: 3}, Both: v != nil}
	default:
		ev.R = observeDecoded(c.Kind, c.Null, c.Lit, v)
	}
	ev.R.ReOK, ev.R.Again = true, true
	if rv := reflect.ValueOf(v); ev.R.Out == "accept" && v != nil && rv.Kind() == reflect.Ptr && !rv.IsNil() && rv.Elem().Kind() != reflect.Slice {
		first := ev.R
		scribble(rv.Elem())
		p2, _ := catch(decode) // (the resource marshaled below is this second, untouched one)
		o2 := jDec{}
		if !p2 && err == nil {
			o2 = observeDecoded(c.Kind, c.Null, c.Lit, v)
			o2.ReOK, o2.Again = true, true
		}
		if o2 != first {
			ev.R.Again = false
			back = nil
		}
	}
	if ev.R.Out == "accept" && back != nil {
		catch(func() {
			var ske struct {
				Attributes map[string]json.RawMessage `json:"attributes"`
			}
			out := jsonapi.MarshalResource(back, "", []string{"v"}, nil)
			ev.R.ReOK = json.Unmarshal(out, &ske) == nil && sameJSONValue(json.RawMessage(c.Lit.Text), ske.Attributes["v"])
		})
	}
	return ev
}

// scribble writes another value into a variable of one of the attribute kinds.
func scribble(e reflect.Value) {
	z := reflect.Zero(e.Type())
	if !reflect.DeepEqual(e.Interface(), z.Interface()) {
		e.Set(z)
		return
	}
	switch e.Kind() {
	case reflect.Bool:
		e.SetBool(true)
	case reflect.Int, reflect.Int8, reflect.Int16, reflect.Int32, reflect.Int64:
		e.SetInt(1)
	case reflect.Uint, reflect.Uint8, reflect.Uint16, reflect.Uint32, reflect.Uint64:
		e.SetUint(1)
	case reflect.String:
		e.SetString("x")
	case reflect.Struct:
		if _, ok := e.Interface().(time.Time); ok {
			e.Set(reflect.ValueOf(time.Unix(1, 0).UTC()))
		}
	}
}

// sameJSONValue: the same number (whatever its spelling), the same string - or, for two strings that
// are both RFC 3339 times, the same instant -, the same literal.
func sameJSONValue(a, b json.RawMessage) bool {
	var x, y any
	da, db := json.NewDecoder(bytes.NewReader(a)), json.NewDecoder(bytes.NewReader(b))
	da.UseNumber()
	db.UseNumber()
	if da.Decode(&x) != nil || db.Decode(&y) != nil {
		return false
	}
	switch xv := x.(type) {
	case json.Number:
		yv, ok := y.(json.Number)
		if !ok {
			return false
		}
		rx, ok1 := new(big.Rat).SetString(xv.String())
		ry, ok2 := new(big.Rat).SetString(yv.String())
		return ok1 && ok2 && rx.Cmp(ry) == 0
	case string:
		yv, ok := y.(string)
		if !ok {
			return false
		}
		if xv == yv {
			return true
		}
		tx, e1 := time.Parse(time.RFC3339Nano, xv)
		ty, e2 := time.Parse(time.RFC3339Nano, yv)
		return e1 == nil && e2 == nil && tx.Equal(ty)
	}
	return reflect.DeepEqual(x, y)
}

var rfc3339Text = regexp.MustCompile(`^\d{4}-\d{2}-\d{2}T\d{2}:\d{2}:\d{2}(?:\.\d+)?(?:Z|[+-](\d{2}):(\d{2}))$`)

// classifyString: the literal class of a JSON string, by independent decoders.
func classifyString(s string) string {
	if _, err := time.Parse(time.RFC3339Nano, s); err == nil {
		// RFC 3339 itself: two digits everywhere, a full stop before the fraction, an offset below 24:00
		// with minutes below 60 (Go's parser takes more)
		if m := rfc3339Text.FindStringSubmatch(s); m != nil && (m[1] == "" || (m[1] <= "23" && m[2] <= "59")) {
			return "time"
		}
		return "timelax"
	}
	if b, err := base64.StdEncoding.Strict().DecodeString(s); err == nil && base64.StdEncoding.EncodeToString(b) == s {
		return "b64"
	}
	if _, err := base64.StdEncoding.DecodeString(s); err == nil {
		return "b64nc"
	}
	if _, err := base64.RawStdEncoding.DecodeString(strings.TrimRight(s, "=")); err == nil {
		return "b64nc"
	}
	return "str"
}

func b64(s string) string { return base64.StdEncoding.EncodeToString([]byte(s)) }

// nonIntLits: the literal vocabulary other than plain integers.
func nonIntLits() []jLit {
	z := jInt{T: 3}
	str := func(_ string, s string) jLit { return jLit{Cls: classifyString(s), N: z, Text: asciiJSON(s)} }
	num := func(cls, text string, isint bool, n int64) jLit {
		l := jLit{Cls: cls, N: z, IsInt: isint, Text: text}
		if isint {
			l.N = classifyInt(big.NewInt(n))
		}
		return l
	}
	lits := []jLit{
		{Cls: "null", N: z, Text: "null"}, {Cls: "true", N: z, Text: "true"}, {Cls: "false", N: z, Text: "false"},
		num("frac", "1.0", true, 1), num("frac", "1.5", false, 0), num("frac", "-0.0", true, 0), num("frac", "300.0", true, 300),
		num("exp", "1e2", true, 100), num("exp", "1E-2", false, 0), num("exp", "3e2", true, 300), num("exp", "1e400", false, 0),
		num("exp", "2.5e1", true, 25), num("frac", "0.1", false, 0),
		// whole numbers beyond 2^53 spelled with a fraction / exponent: a float64 detour cannot hold them
		num("frac", "9007199254740993.0", true, 9007199254740993), num("exp", "1234567890123456789e0", true, 1234567890123456789),
		num("exp", "9.223372036854775807e18", true, 9223372036854775807), num("frac", "-9007199254740993.0", true, -9007199254740993),
		num("exp", "9223372036854775807e0", true, 9223372036854775807), num("frac", "4294967295.0", true, 4294967295),
		{Cls: "arr", N: z, Text: "[]"}, {Cls: "arr", N: z, Text: "[1]"}, {Cls: "arr", N: z, Text: `["a"]`},
		{Cls: "obj", N: z, Text: "{}"}, {Cls: "obj", N: z, Text: `{"a":1}`},
		str("str", "abc"), str("str", "a b"), str("str", "\x00<&>\"\\é漢\U0001F600"), str("str", "caf\uFFFD"), str("str", "12"), str("str", "true"),
		str("str", "not base64!"), str("str", "2020-13-01T00:00:00Z"), str("str", "2020-01-01"), str("str", "é"),
		str("time", "2001-02-03T04:05:06Z"), str("time", "2001-02-03T04:05:06.789012345+02:00"),
		str("time", "0001-01-01T00:00:00Z"), str("time", "9999-12-31T23:59:59.999999999-14:00"),
		str("time", "2020-02-29T12:00:00.5-07:30"),
		// texts Go's parser takes although RFC 3339 does not define them (refusing them is fine; an accepted one
		// is the instant it spells and can be written back)
		str("timelax", "2001-02-03T4:05:06Z"), str("timelax", "2001-02-03T04:05:06,5Z"), str("timelax", "2001-02-03T04:05:06-00:60"),
		str("timelax", "2001-02-03T04:05:06+24:00"), str("timelax", "2001-02-03T04:05:06.25-24:00"),
		str("b64", b64("")), str("b64", b64("a")), str("b64", b64("ab")), str("b64", b64("abc")),
		str("b64", b64("\x00\xff\x80binary")), str("b64", "AAAA"),
		str("b64nc", "YQ"), str("b64nc", "YR=="), str("b64nc", "YWI"),
	}
	// "" is both a plain string and the canonical base64 of nothing
	return lits
}

func codecMain(args []string) {
	fs := flag.NewFlagSet("codec", flag.ExitOnError)
	mode := fs.String("mode", "decode", "decode | payload | roundtrip | robust | partial")
	out := fs.String("out", "", "output directory")
	seed := fs.Int64("seed", 1, "seed")
	span := fs.Int("span", 300, "exhaustive integer literals -span..span for the 8/16-bit kinds (70000 = all)")
	random := fs.Int("random", 200, "random magnitudes per integer kind")
	n := fs.Int("n", 1000, "cases for the other modes")
	replay := fs.String("replay", "", "replay file")
	_ = fs.String("gen", "", "TLC generation output (payload modes)")
	must(fs.Parse(args))
	// an unbounded recursion in the code under test ends the process (a stack overflow cannot be
	// recovered): let it end at 256 MB rather than at the default gigabyte
	debug.SetMaxStack(256 << 20)
	if *replay != "" {
		codecReplay(*replay)
		return
	}
	rng := newRand(*seed, "codec-"+*mode)
	stt := newStats()
	w := newEvWriter(*out, 150000)
	switch *mode {
	case "decode":
		decodeMode(rng, stt, w, *span, *random)
		rule := stt.Rule
		codecOtherModes("partial", rng, stt, w, *n, *seed, "") // the relationship / absent-field half of C06
		stt.Rule = rule + "; distinct resource payloads"
	default:
		codecOtherModes(*mode, rng, stt, w, *n, *seed, fs.Lookup("gen").Value.String())
	}
	w.Close()
	stt.write(*out+"/stats.json", w)
}

func decodeMode(rng *rand.Rand, stt *stats, w *evWriter, span, random int) {
	emit := func(c decCase) {
		ev := runDecodeCase(c)
		stt.Calls++
		stt.class(ev.R.Out)
		stt.class("via:" + c.Via)
		stt.class("cls:" + c.Lit.Cls)
		b, _ := json.Marshal([]any{ev.Kind, ev.Null, ev.Lit.Cls, ev.Lit.N, ev.Lit.Text})
		stt.distinct(string(b))
		w.Emit(ev, c)
	}
	others := nonIntLits()
	intKinds := []int{jsonapi.AttrTypeInt, jsonapi.AttrTypeInt8, jsonapi.AttrTypeInt16, jsonapi.AttrTypeInt32, jsonapi.AttrTypeInt64,
		jsonapi.AttrTypeUint, jsonapi.AttrTypeUint8, jsonapi.AttrTypeUint16, jsonapi.AttrTypeUint32, jsonapi.AttrTypeUint64}
	small := map[int]bool{jsonapi.AttrTypeInt8: true, jsonapi.AttrTypeInt16: true, jsonapi.AttrTypeUint8: true, jsonapi.AttrTypeUint16: true}
	for _, kind := range baseKinds {
		for _, null := range []bool{false, true} {
			for _, l := range others {
				for _, via := range []string{"attr", "soft", "wrap"} {
					emit(decCase{Fam: "codec", Mode: "decode", Via: via, Kind: kind, Null: null, Lit: l})
				}
			}
			// every anchor +-2, and the 8/16-bit edges, for every kind (so that
			// integers offered to string / bool / time / bytes are covered too)
			var ints []*big.Int
			for t := 1; t <= 8; t++ {
				for o := int64(-2); o <= 2; o++ {
					ints = append(ints, new(big.Int).Add(anchors[t], big.NewInt(o)))
				}
			}
			for _, e := range []int64{-32770, -32769, -32768, -32767, -130, -129, -128, -127, 126, 127, 128, 129, 254, 255, 256, 257,
				32766, 32767, 32768, 32769, 65534, 65535, 65536, 65537, -70000, 70000} {
				ints = append(ints, big.NewInt(e))
			}
			for _, n := range ints {
				for _, via := range []string{"attr", "soft", "wrap"} {
					emit(decCase{Fam: "codec", Mode: "decode", Via: via, Kind: kind, Null: null, Lit: intLit(n)})
				}
			}
			emit(decCase{Fam: "codec", Mode: "decode", Via: "attr", Kind: kind, Null: null,
				Lit: jLit{Cls: "int", N: jInt{T: 3}, IsInt: true, Text: "-0"}})
		}
	}
	for _, kind := range intKinds {
		for _, null := range []bool{false, true} {
			if small[kind] {
				for i := -span; i <= span; i++ {
					emit(decCase{Fam: "codec", Mode: "decode", Via: "attr", Kind: kind, Null: null, Lit: intLit(big.NewInt(int64(i)))})
				}
			}
			for i := 0; i < random; i++ {
				n := new(big.Int).SetUint64(rng.Uint64())
				n.Lsh(n, uint(rng.Intn(8)))
				n.Rsh(n, uint(rng.Intn(70)))
				if rng.Intn(2) == 0 {
					n.Neg(n)
				}
				via := []string{"attr", "soft", "wrap"}[rng.Intn(3)]
				emit(decCase{Fam: "codec", Mode: "decode", Via: via, Kind: kind, Null: null, Lit: intLit(n)})
			}
		}
	}
	stt.Exhaustive = span >= 70000
	stt.Rule = "distinct (kind, nullable, literal) triples"
}

func codecReplay(path string) {
	var rf struct {
		Case    json.RawMessage   `json:"case"`
		Prelude []json.RawMessage `json:"prelude"`
	}
	b, err := os.ReadFile(path)
	must(err)
	must(json.Unmarshal(b, &rf))
	one := func(raw json.RawMessage, print bool) {
		var head struct {
			Mode string `json:"mode"`
		}
		must(json.Unmarshal(raw, &head))
		var ev any
		switch head.Mode {
		case "decode":
			var c decCase
			must(json.Unmarshal(raw, &c))
			ev = runDecodeCase(c)
		default:
			ev = codecRunOther(head.Mode, raw)
		}
		if print {
			os.Stdout.Write(jsonLine(ev))
		}
	}
	for _, p := range rf.Prelude { // the calls made just before in the same process
		one(p, false)
	}
	one(rf.Case, true)
}

func base64Decode(s string) ([]byte, error) { return base64.StdEncoding.DecodeString(s) }
