package main

// Document family (C02, C03, C04, C11): abstract documents over the fixed
// two-type schema of Document.tla are built with the real library, marshaled
// (repeatedly, and in permuted variants), parsed with encoding/json, projected
// and unmarshaled back; TLC judges structure, selection, round trip and
// determinism of every recorded document.

import (
	"bytes"
	"encoding/base64"
	"encoding/json"
	"flag"
	"fmt"
	"hash/fnv"
	"math"
	"math/big"
	"math/rand"
	neturl "net/url"
	"os"
	"reflect"
	"sort"
	"strings"
	"sync"
	"time"

	"github.com/mfcochauxlaberge/jsonapi"
)

var docFields = map[string]defMap{
	"t1": {"a": {Kind: "attr", K: "string"}, "n": {Kind: "attr", K: "int", Null: true},
		"o": {Kind: "rel", To1: true, TT: "t2"}, "m": {Kind: "rel", To1: false, TT: "t2"},
		"o2": {Kind: "rel", To1: true, TT: "t2"}, "m2": {Kind: "rel", To1: false, TT: "t1"}}, // (m2 leads to t1 itself: the same id under m and m2 names two different resources)
	"t2": {"b": {Kind: "attr", K: "string"}, "p": {Kind: "rel", To1: true, TT: "t1"},
		"o": {Kind: "rel", To1: true, TT: "t1"}, // the same name as a relationship of t1
		// eight more attributes: a selection for t2 can name more than eight fields
		"c1": {Kind: "attr", K: "string"}, "c2": {Kind: "attr", K: "int", Null: true}, "c3": {Kind: "attr", K: "string"},
		"c4": {Kind: "attr", K: "string"}, "c5": {Kind: "attr", K: "int"}, "c6": {Kind: "attr", K: "string", Null: true},
		"c7": {Kind: "attr", K: "string"}, "c8": {Kind: "attr", K: "string"},
		// ... and nine more: a selection for t2 can name more than sixteen
		"d1": {Kind: "attr", K: "string"}, "d2": {Kind: "attr", K: "int"}, "d3": {Kind: "attr", K: "string"},
		"d4": {Kind: "attr", K: "string"}, "d5": {Kind: "attr", K: "int", Null: true}, "d6": {Kind: "attr", K: "string"},
		"d7": {Kind: "attr", K: "string"}, "d8": {Kind: "attr", K: "string"}, "d9": {Kind: "attr", K: "string"},
		// ... a name that differs from another one by its case only, and fourteen more: thirty-five fields in all
		"C1": {Kind: "attr", K: "string"},
		"e01": {Kind: "attr", K: "string"}, "e02": {Kind: "attr", K: "string"}, "e03": {Kind: "attr", K: "int"}, "e04": {Kind: "attr", K: "string"},
		"e05": {Kind: "attr", K: "string"}, "e06": {Kind: "attr", K: "string", Null: true}, "e07": {Kind: "attr", K: "string"}, "e08": {Kind: "attr", K: "string"},
		"e09": {Kind: "attr", K: "string"}, "e10": {Kind: "attr", K: "string"}, "e11": {Kind: "attr", K: "int", Null: true}, "e12": {Kind: "attr", K: "string"},
		"e13": {Kind: "attr", K: "string"}, "e14": {Kind: "attr", K: "string"}},
}

type dRes struct {
	Type string `json:"type"`
	ID   string `json:"id"`
	Vals valMap `json:"vals"`
	// Extra: the resource is a soft resource on a type of its own that has the schema type's name and
	// one more attribute, "ex" (a copy that was given a field later)
	Extra bool `json:"extra"`
}

type dDoc struct {
	Kind     string              `json:"kind"`
	Coll     string              `json:"coll"`
	Primary  []dRes              `json:"primary"`
	Included []dRes              `json:"included"`
	NErrors  int                 `json:"nerrors"`
	Fields   map[string][]string `json:"fields"`
	RelData  map[string][]string `json:"reldata"`
	// HandDup: the included list, filled by hand, also holds a resource that is primary data (nothing
	// forbids it; the Include operation is what refuses to build such a list)
	HandDup bool `json:"handdup"`
	// Unenc: the primary resource carries a meta value no JSON can hold (an infinite number): the
	// resource cannot be encoded.  Whatever the library makes of that, the output is well-formed.
	Unenc bool `json:"unenc"`
	// Links: the document carries a link of its handler's own next to the self link (1: with meta
	// information; 2: with meta information no JSON can hold - a refusal is an outcome then, a
	// document without its self link is not)
	Links int `json:"links"`
}

type dRelObj struct {
	SelfOK    bool     `json:"selfok"`
	RelatedOK bool     `json:"relatedok"`
	Data      string   `json:"data"`
	IDs       []string `json:"ids"`
	TypesOK   bool     `json:"typesok"`
}

type dObj struct {
	Type    string             `json:"type"`
	ID      string             `json:"id"`
	TypeStr bool               `json:"typestr"`
	IDStr   bool               `json:"idstr"`
	SelfOK  bool               `json:"selfok"`
	Attrs   valMap             `json:"attrs"`
	Rels    map[string]dRelObj `json:"rels"`
}

type dOut struct {
	Valid       bool   `json:"valid"`
	TopObject   bool   `json:"topobject"`
	HasJSONAPI  bool   `json:"hasjsonapi"`
	SelfLink    bool   `json:"selflink"`
	HasData     bool   `json:"hasdata"`
	HasErrors   bool   `json:"haserrors"`
	HasIncluded bool   `json:"hasincluded"`
	Data        []dObj `json:"data"`
	Included    []dObj `json:"included"`
}

type dBack struct {
	OK         bool   `json:"ok"`
	Kind       string `json:"kind"`
	Primary    []dRes `json:"primary"`
	Included   []dRes `json:"included"`
	MetaSame   bool   `json:"meta_same"`
	ErrorsSame bool   `json:"errors_same"`
}

type dDet struct {
	AllSame  bool `json:"allsame"`
	PermSame bool `json:"permsame"`
	FrameOK  bool `json:"frameok"`
}

type dEvent struct {
	Ev   string `json:"ev"`
	Doc  dDoc   `json:"doc"`
	Out  dOut   `json:"out"`
	Back dBack  `json:"back"`
	Det  dDet   `json:"det"`
	Ret  string `json:"ret"`
}

type dVariant struct {
	Impl   string `json:"impl"`   // soft | wrap (resources and schema flavour)
	Shift  int    `json:"shift"`  // kind rotation
	Table  int    `json:"table"`  // value table
	Prefix string `json:"prefix"` // path prefix
	Meta   int    `json:"meta"`   // meta class
	IDMap  int    `json:"idmap"`  // id concretisation (0 = tokens as they are)
	NoFrom bool   `json:"nofrom"` // soft types declared by hand: relationships without FromType
	Reps   int    `json:"reps"`   // repeated marshals
	// EmptyTok: the token that stands for the empty id inside to-many relationships ("" = none does)
	EmptyTok string `json:"emptytok"`
	Query    int    `json:"query"` // query string of the request URL
	Wire     bool   `json:"wire"`  // include mode: the document is what UnmarshalDocument returned for the built one
	// Served: the document object has been marshaled once before, for a request that selected fewer fields
	Served bool `json:"served"`
	// Busy: while the judged calls run, other goroutines marshal documents of their own (their own
	// schema, resources and URL): callers that share nothing do not disturb each other
	Busy bool `json:"busy"`
	// OddRoute: a collection is answered under the URL of one resource (and one resource under the URL
	// of a collection): the URL is the caller's, whatever it says
	OddRoute bool `json:"oddroute"`
	// NamedID: the wrapped structs of this world have an ID field of a defined string type (Check accepts it)
	NamedID bool `json:"namedid"`
}

type dCase struct {
	Fam  string   `json:"fam"`
	Mode string   `json:"mode"` // doc | include
	Doc  dDoc     `json:"doc"`
	Var  dVariant `json:"var"`
	Seed int64    `json:"seed"`
	// include mode
	Calls [][2]string `json:"calls"`
	// Final: after the calls the document is marshaled and the pairs of the output are looked at
	Final bool `json:"final"`
}

// ---- concretisation of ids: tokens stay ASCII across the TLC boundary ----

var idMaps = [][2]string{
	{"", ""},                   // identity
	{"", " \"q\"<&>\\/\t"},     // characters JSON must escape
	{"é漢\U0001F600-", ""},      // non-ASCII prefix
	{"%2F?#&=+", ".x"},         // URL-reserved
	{"\x01\x1f", "\x7f\u2028"}, // control characters, DEL, line separator
	{"\\u003c", "\\u0026"},     // a literal backslash before u003c: the text of a JSON escape
	{" ", "\n"},                // white space at the edges
	{"./../", "//.."},          // dot segments and doubled slashes: an id is not a path to be cleaned
	{"", "/"},                  // an id that ends in a slash: its links end in one too, and are links all the same
	{"#numeric", ""},           // numbers, several of them equal as numbers ("7", "07", "007"): see numericIDs
}

// numericIDs: ids that are numbers, several of them the same number written differently
var numericIDs = map[string]string{"x": "7", "y": "07", "z": "007", "u": "10", "v": "9", "w": "010"}

func (v dVariant) numeric() bool {
	m := idMaps[v.IDMap%len(idMaps)]
	return m[0] == "#numeric"
}

func (v dVariant) id(tok string) string {
	if tok == "" {
		return ""
	}
	m := idMaps[v.IDMap%len(idMaps)]
	if v.numeric() {
		if n, ok := numericIDs[tok]; ok {
			return n
		}
		return "0" + tok
	}
	return m[0] + tok + m[1]
}

func (v dVariant) tok(id string) string {
	m := idMaps[v.IDMap%len(idMaps)]
	if id == "" {
		return ""
	}
	if v.numeric() {
		for t, n := range numericIDs {
			if n == id {
				return t
			}
		}
		if strings.HasPrefix(id, "0") {
			return id[1:]
		}
		return "?" + fmt.Sprintf("%x", id)
	}
	if strings.HasPrefix(id, m[0]) && strings.HasSuffix(id, m[1]) && len(id) >= len(m[0])+len(m[1]) {
		return id[len(m[0]) : len(id)-len(m[1])]
	}
	return "?" + fmt.Sprintf("%x", id)
}

// idIn / tokIn: inside a to-many relationship one token may stand for the empty id
func (v dVariant) idIn(tok string, to1 bool) string {
	if !to1 && v.EmptyTok != "" && tok == v.EmptyTok {
		return ""
	}
	return v.id(tok)
}

func (v dVariant) tokIn(id string, to1 bool) string {
	if !to1 && v.EmptyTok != "" && id == "" {
		return v.EmptyTok
	}
	return v.tok(id)
}

func (v dVariant) toks(ids []string, to1 bool) []string {
	out := make([]string, len(ids))
	for i, id := range ids {
		out[i] = v.tokIn(id, to1)
	}
	return out
}

// docQueries: what the request URL may carry besides the path; all of it ends up in the self link
var docQueries = []string{"", "", "?page%5Bsize%5D=2&page%5Bnumber%5D=1",
	"?page%5Bcursor%5D=c&page%5Bafter%5D=a&page%5Bbefore%5D=b&page%5Bsize%5D=3&page%5Bx%5D=d&page%5By%5D=e",
	"?sort=-a,n&filter=lbl", "?include=o,m&sort=id",
	"?sort=a,-a,n,a&filter=lbl%20two", "?sort=-n,a,n&include=o"} // (rules that name a field twice: the URL keeps what it was given)

var metaClasses = []string{``, `{}`, `{"s":"x"}`, `{"i":1}`, `{"f":1.5}`, `{"b":true}`, `{"n":null}`,
	`{"o":{"k":[1,"two",{"z":null}]}}`, `{"a":[]}`, `{"big":12345678901234567890,"e":"é<>&"}`}

// ---- building ----

type docWorld struct {
	v      dVariant
	km     kindMap
	tb     *vtable
	schema *jsonapi.Schema
}

func newDocWorld(v dVariant, seed int64) *docWorld {
	w := &docWorld{v: v, km: kindMap{Shift: v.Shift, NamedID: v.NamedID && v.Impl == "wrap"}, tb: tableFor(v.Table, seed), schema: &jsonapi.Schema{}}
	// the schema object has a history: a type stood in front of the others and one behind them for a
	// while, were looked up, and the one in front went away again (the others moved up)
	must(w.schema.AddType(jsonapi.Type{Name: "aa0"}))
	defer func() {
		catch(func() {
			for _, n := range []string{"aa0", "t1", "t2", "zz9"} {
				_, _ = w.schema.HasType(n), w.schema.GetType(n)
			}
		})
		// (one type leaves and another one comes: as many types as before, every one in another place)
		w.schema.RemoveType("aa0")
		must(w.schema.AddType(jsonapi.Type{Name: "zz9"}))
	}()
	for _, name := range []string{"t1", "t2"} {
		if v.Impl == "wrap" {
			typ, err := jsonapi.BuildType(reflect.New(structType(name, docFields[name], w.km)).Interface())
			must(err)
			must(w.schema.AddType(typ))
		} else {
			must(w.schema.AddType(*w.soft(name)))
		}
	}
	return w
}

// soft: the soft type; with NoFrom its relationships lack FromType, as a type declared by hand may
func (w *docWorld) soft(name string) *jsonapi.Type {
	t := softType(name, docFields[name], w.km)
	if w.v.NoFrom {
		for k, r := range t.Rels {
			r.FromType = ""
			t.Rels[k] = r
		}
	}
	return t
}

func (w *docWorld) res(r dRes) jsonapi.Resource {
	var res jsonapi.Resource
	if w.v.Impl == "soft" {
		res = &jsonapi.SoftResource{Type: w.soft(r.Type)}
	} else {
		res = newRes(w.v.Impl, r.Type, docFields[r.Type], w.km)
	}
	res.Set("id", w.v.id(r.ID))
	if sr, ok := res.(*jsonapi.SoftResource); ok && r.Extra {
		sr.AddAttr(jsonapi.Attr{Name: "ex", Type: w.km.real("string")})
	}
	for f, val := range r.Vals {
		d := docFields[r.Type][f]
		if f == "ex" {
			d = jDef{Kind: "attr", K: "string"}
		}
		if d.Kind == "rel" {
			ids := make([]string, len(val.IDs))
			for i, x := range val.IDs {
				ids[i] = w.v.idIn(x, d.To1)
			}
			val = jVal{IDs: ids}
		}
		setField(res, f, d, val, w.km, w.tb)
	}
	// some resources come with meta information of their own, with a member that holds nothing
	// (which resources is a matter of the content: type and id)
	if mh, ok := res.(jsonapi.MetaHolder); ok {
		h := fnv.New32a()
		h.Write([]byte(r.Type + "/" + r.ID))
		switch h.Sum32() % 5 {
		case 1:
			mh.SetMeta(jsonapi.Meta{"k": r.ID, "n": nil})
		case 2:
			mh.SetMeta(jsonapi.Meta{"n": nil})
		}
	}
	return res
}

func testErrors(n int) []jsonapi.Error {
	var out []jsonapi.Error
	for i := 0; i < n; i++ {
		e := jsonapi.NewError()
		switch i % 9 {
		case 7: // members that say the same thing twice: each one is a member of its own
			e.Status, e.Title, e.Detail = "400", "Invalid request", "Invalid request"
		case 8:
			e.ID, e.Code, e.Status, e.Title, e.Detail = "404", "404", "404", "404", "404"
			e.Source["pointer"], e.Meta["pointer"], e.Links["about"] = "/data", "/data", "/data"
		case 4: // the library's own errors, as a handler passes them on (one has an empty source pointer)
			e = jsonapi.NewErrUnknownFieldInBody("t1", "zz")
		case 5:
			e = jsonapi.NewErrMalformedFilterParameter("{\"f\":")
			e.Links["about"] = ""
			e.Meta["empty"] = ""
			e.Meta["nested"] = map[string]any{"a": []any{}, "b": map[string]any{}}
		case 6:
			e.Status = "999" // not an HTTP status
			e.Source["pointer"] = ""
			e.Source["parameter"] = ""
		case 0:
			e.ID, e.Code, e.Status, e.Title, e.Detail = "e1", "c", "400", "T \"q\"", "d<>&é"
			e.Links["about"] = "https://x.org/e?a=1&b=2"
			e.Source["pointer"] = "/data/attributes/a"
			e.Meta["k"] = "v"
		case 1:
			e.Status = "500"
		case 2:
			e.Title = "only title"
			e.Meta["n"] = float64(3)
		case 3:
			e.Code = "only-code"
			e.Source["parameter"] = "sort"
		}
		out = append(out, e)
	}
	return out
}

func (w *docWorld) build(d dDoc) (*jsonapi.Document, *jsonapi.URL, []jsonapi.Resource) {
	doc := &jsonapi.Document{PrePath: w.v.Prefix, RelData: map[string][]string{}}
	var live []jsonapi.Resource
	for t, names := range d.RelData {
		doc.RelData[t] = append([]string{}, names...)
	}
	mk := func(rs []dRes) []jsonapi.Resource {
		out := []jsonapi.Resource{}
		for _, r := range rs {
			res := w.res(r)
			out = append(out, res)
			live = append(live, res)
		}
		return out
	}
	prim := mk(d.Primary)
	if d.Unenc && len(prim) > 0 {
		if mh, ok := prim[0].(jsonapi.MetaHolder); ok {
			mh.SetMeta(jsonapi.Meta{"inf": math.Inf(1)})
		}
	}
	switch d.Kind {
	case "one":
		doc.Data = prim[0]
	case "many":
		switch d.Coll {
		case "soft":
			sc := &jsonapi.SoftCollection{}
			sc.SetType(w.soft("t1"))
			for _, r := range prim {
				sc.Add(r)
			}
			doc.Data = sc
		case "wrapcol":
			wc := jsonapi.WrapCollection(newRes("wrap", "t1", docFields["t1"], w.km))
			for _, r := range prim {
				wc.Add(r)
			}
			doc.Data = wc
		case "resval":
			// a Resources value, not a pointer to one: none of the kinds of primary data the library knows
			col := jsonapi.Resources{}
			for _, r := range prim {
				col = append(col, r)
			}
			doc.Data = col
		default:
			col := &jsonapi.Resources{}
			for _, r := range prim {
				col.Add(r)
			}
			doc.Data = col
		}
	case "ident":
		doc.Data = jsonapi.Identifier{Type: d.Primary[0].Type, ID: w.v.id(d.Primary[0].ID)}
	case "idents":
		ids := jsonapi.Identifiers{}
		for _, r := range d.Primary {
			ids = append(ids, jsonapi.Identifier{Type: r.Type, ID: w.v.id(r.ID)})
		}
		doc.Data = ids
	case "errors":
		doc.Errors = testErrors(d.NErrors)
		if d.Coll == "ident" && len(prim) > 0 { // ... or on one whose data is linkage
			doc.Data = jsonapi.Identifier{Type: d.Primary[0].Type, ID: w.v.id(d.Primary[0].ID)}
		} else if d.Coll == "idents" {
			ids := jsonapi.Identifiers{}
			for _, r := range d.Primary {
				ids = append(ids, jsonapi.Identifier{Type: r.Type, ID: w.v.id(r.ID)})
			}
			doc.Data = ids
		} else if len(prim) == 1 { // a handler that reports errors on a document it had started to fill
			doc.Data = prim[0]
		} else if len(prim) > 1 {
			col := &jsonapi.Resources{}
			for _, r := range prim {
				col.Add(r)
			}
			doc.Data = col
		}
	}
	doc.Included = mk(d.Included)
	switch d.Links {
	case 1:
		doc.Links = map[string]jsonapi.Link{"about": {HRef: "https://x.org/about?a=1&b=2", Meta: map[string]any{"k": 1, "s": "<&>"}}, "plain": {HRef: "/p"}}
	case 2:
		doc.Links = map[string]jsonapi.Link{"about": {HRef: "/about", Meta: map[string]any{"bad": math.NaN()}}}
	}
	if mc := metaClasses[w.v.Meta%len(metaClasses)]; mc != "" {
		m := map[string]any{}
		dec := json.NewDecoder(strings.NewReader(mc))
		must(dec.Decode(&m))
		doc.Meta = m
	}
	raw := "/t1"
	if (d.Kind == "one" || d.Kind == "ident") != w.v.OddRoute {
		raw = "/t1/x"
		if id := w.v.id("x"); !strings.Contains(id, "/") {
			raw = "/t1/" + neturl.PathEscape(id) // the id as the variant spells it: the path may need escaping
		}
	}
	raw += docQueries[w.v.Query%len(docQueries)]
	url, err := jsonapi.NewURLFromRaw(w.schema, raw)
	if err != nil {
		must(fmt.Errorf("the request URL %q of the case: %w", raw, err))
	}
	url.Params.Fields = map[string][]string{}
	for t, names := range d.Fields {
		url.Params.Fields[t] = append([]string{}, names...)
	}
	if w.v.Meta%3 == 1 && url.Params.Filter == nil && url.Params.FilterLabel == "" {
		// a filter built by the handler itself (lists of ids as Go slices, not in any order), as Range takes it
		url.Params.Filter = &jsonapi.Filter{Op: "and", Val: []*jsonapi.Filter{
			{Field: "m", Op: "has", Val: "u"},
			{Op: "or", Val: []*jsonapi.Filter{{Field: "id", Op: "in", Val: []string{"u3", "u1", "u2"}}, {Field: "a", Op: "=", Val: "x"}}},
		}}
	}
	return doc, url, live
}

// ---- projection of the output ----

func expectedSelf(prefix, typ, id string) string {
	link := prefix
	if !strings.HasSuffix(prefix, "/") {
		link += "/"
	}
	return link + typ + "/" + id
}

// indepValue reads a JSON attribute value as the Go value of the kind, without the library.
func indepValue(kind int, null bool, raw json.RawMessage) (any, bool) {
	s := strings.TrimSpace(string(raw))
	if s == "null" {
		if null {
			return jsonapi.GetZeroValue(kind, true), true
		}
		if kind == jsonapi.AttrTypeBytes {
			return []byte{}, true // an unset byte string of a wrapped struct (known finding of C06)
		}
		return nil, false
	}
	var base any
	switch kind {
	case jsonapi.AttrTypeString:
		var x string
		if json.Unmarshal(raw, &x) != nil {
			return nil, false
		}
		base = x
	case jsonapi.AttrTypeBool:
		if s != "true" && s != "false" {
			return nil, false
		}
		base = s == "true"
	case jsonapi.AttrTypeTime:
		var x string
		if json.Unmarshal(raw, &x) != nil {
			return nil, false
		}
		t, err := time.Parse(time.RFC3339Nano, x)
		if err != nil {
			return nil, false
		}
		base = t
	case jsonapi.AttrTypeBytes:
		var x string
		if json.Unmarshal(raw, &x) != nil {
			return nil, false
		}
		b, err := base64.StdEncoding.DecodeString(x)
		if err != nil {
			return nil, false
		}
		base = b
	default:
		n, ok := new(big.Int).SetString(s, 10) // a JSON number with all its digits
		if !ok {
			return nil, false
		}
		rv := reflect.New(goTypes[kind]).Elem()
		if rv.Kind() >= reflect.Int && rv.Kind() <= reflect.Int64 {
			if !n.IsInt64() || rv.OverflowInt(n.Int64()) {
				return nil, false
			}
			rv.SetInt(n.Int64())
		} else {
			if !n.IsUint64() || rv.OverflowUint(n.Uint64()) {
				return nil, false
			}
			rv.SetUint(n.Uint64())
		}
		base = rv.Interface()
	}
	if null {
		return ptrTo(base), true
	}
	return base, true
}

func (w *docWorld) projObj(raw json.RawMessage, isIdent bool) dObj {
	o := dObj{Attrs: valMap{}, Rels: map[string]dRelObj{}}
	var m map[string]json.RawMessage
	if json.Unmarshal(raw, &m) != nil {
		return o
	}
	var typ, id string
	o.TypeStr = json.Unmarshal(m["type"], &typ) == nil && len(m["type"]) > 0 && m["type"][0] == '"'
	o.IDStr = json.Unmarshal(m["id"], &id) == nil && len(m["id"]) > 0 && m["id"][0] == '"'
	o.Type, o.ID = typ, w.v.tok(id)
	if isIdent {
		o.SelfOK = true
	} else {
		var links map[string]json.RawMessage
		var self string
		if json.Unmarshal(m["links"], &links) == nil && json.Unmarshal(links["self"], &self) == nil {
			o.SelfOK = self == expectedSelf(w.v.Prefix, typ, id)
		}
	}
	defs := docFields[typ]
	var attrs map[string]json.RawMessage
	_ = json.Unmarshal(m["attributes"], &attrs)
	for name, rv := range attrs {
		d, ok := defs[name]
		if name == "ex" { // the attribute of a member's own wider type
			d, ok = jDef{Kind: "attr", K: "string"}, true
		}
		if !ok || d.Kind != "attr" {
			o.Attrs[name] = jVal{R: -9, IDs: []string{}}
			continue
		}
		kind := w.km.real(d.K)
		v, ok := indepValue(kind, d.Null, rv)
		if !ok {
			o.Attrs[name] = jVal{R: -8, IDs: []string{}}
			continue
		}
		isNil, r := w.tb.rankOf(kind, d.Null, v)
		o.Attrs[name] = jVal{Nil: isNil, R: r, IDs: []string{}}
	}
	var rels map[string]json.RawMessage
	_ = json.Unmarshal(m["relationships"], &rels)
	for name, rv := range rels {
		ro := dRelObj{Data: "bad", IDs: []string{}, TypesOK: true}
		var rm map[string]json.RawMessage
		if json.Unmarshal(rv, &rm) == nil {
			var links map[string]string
			if json.Unmarshal(rm["links"], &links) == nil {
				self := expectedSelf(w.v.Prefix, typ, id)
				ro.SelfOK = links["self"] == self+"/relationships/"+name
				ro.RelatedOK = links["related"] == self+"/"+name
			}
			data, has := rm["data"]
			target := defs[name].TT
			switch {
			case !has:
				ro.Data = "absent"
			case strings.TrimSpace(string(data)) == "null":
				ro.Data = "null"
			case len(data) > 0 && data[0] == '{':
				var iden map[string]string
				if json.Unmarshal(data, &iden) == nil && len(iden) == 2 {
					ro.Data = "one"
					ro.IDs = []string{w.v.tok(iden["id"])}
					ro.TypesOK = iden["type"] == target
				}
			case len(data) > 0 && data[0] == '[':
				var idens []map[string]string
				if json.Unmarshal(data, &idens) == nil {
					ro.Data = "many"
					for _, iden := range idens {
						ro.IDs = append(ro.IDs, w.v.tokIn(iden["id"], false))
						if iden["type"] != target || len(iden) != 2 {
							ro.TypesOK = false
						}
					}
				}
			}
		}
		o.Rels[name] = ro
	}
	return o
}

func (w *docWorld) projOut(d dDoc, payload []byte, url *jsonapi.URL) dOut {
	out := dOut{Data: []dObj{}, Included: []dObj{}}
	out.Valid = json.Valid(payload)
	var top map[string]json.RawMessage
	if json.Unmarshal(payload, &top) != nil {
		return out
	}
	out.TopObject = true
	var ja map[string]any
	out.HasJSONAPI = json.Unmarshal(top["jsonapi"], &ja) == nil && ja != nil
	var links map[string]json.RawMessage
	if json.Unmarshal(top["links"], &links) == nil {
		var self string
		out.SelfLink = json.Unmarshal(links["self"], &self) == nil && strings.HasPrefix(self, w.v.Prefix+"/t1")
	}
	_, out.HasData = top["data"]
	_, out.HasErrors = top["errors"]
	_, out.HasIncluded = top["included"]
	isIdent := d.Kind == "ident" || d.Kind == "idents"
	if data, ok := top["data"]; ok && len(data) > 0 {
		switch data[0] {
		case '{':
			out.Data = append(out.Data, w.projObj(data, isIdent))
		case '[':
			var arr []json.RawMessage
			_ = json.Unmarshal(data, &arr)
			for _, x := range arr {
				out.Data = append(out.Data, w.projObj(x, isIdent))
			}
		}
	}
	var incs []json.RawMessage
	_ = json.Unmarshal(top["included"], &incs)
	for _, x := range incs {
		out.Included = append(out.Included, w.projObj(x, false))
	}
	return out
}

func (w *docWorld) projRes(r jsonapi.Resource) dRes {
	_, vals := projValsRaw(r, w.km, w.tb)
	for f, v := range vals {
		v.IDs = w.v.toks(v.IDs, docFields[r.GetType().Name][f].To1)
		vals[f] = v
	}
	id, _ := r.Get("id").(string)
	return dRes{Type: r.GetType().Name, ID: w.v.tok(id), Vals: vals}
}

func jsonEq(a, b []byte) bool {
	var x, y any
	da := json.NewDecoder(bytes.NewReader(a))
	da.UseNumber()
	db := json.NewDecoder(bytes.NewReader(b))
	db.UseNumber()
	if da.Decode(&x) != nil || db.Decode(&y) != nil {
		return false
	}
	return reflect.DeepEqual(x, y)
}

func normErr(e jsonapi.Error) string {
	m := map[string]any{"id": e.ID, "code": e.Code, "status": e.Status, "title": e.Title, "detail": e.Detail}
	if len(e.Links) > 0 {
		m["links"] = e.Links
	}
	if len(e.Source) > 0 {
		m["source"] = e.Source
	}
	if len(e.Meta) > 0 {
		m["meta"] = e.Meta
	}
	b, _ := json.Marshal(m)
	return string(b)
}

func (w *docWorld) projBack(d dDoc, payload []byte, src *jsonapi.Document) dBack {
	b := dBack{Kind: "?", Primary: []dRes{}, Included: []dRes{}}
	doc2, err := jsonapi.UnmarshalDocument(payload, w.schema)
	if err != nil || doc2 == nil {
		return b
	}
	b.OK = true
	switch x := doc2.Data.(type) {
	case nil:
		b.Kind = "null"
		if len(doc2.Errors) > 0 {
			b.Kind = "errors"
		}
	case jsonapi.Resource:
		b.Kind = "one"
		b.Primary = append(b.Primary, w.projRes(x))
	case jsonapi.Collection:
		b.Kind = "many"
		for i := 0; i < x.Len(); i++ {
			b.Primary = append(b.Primary, w.projRes(x.At(i)))
		}
	}
	for _, r := range doc2.Included {
		b.Included = append(b.Included, w.projRes(r))
	}
	var top map[string]json.RawMessage
	_ = json.Unmarshal(payload, &top)
	srcMeta, _ := json.Marshal(src.Meta)
	gotMeta, _ := json.Marshal(doc2.Meta)
	if len(src.Meta) == 0 && len(doc2.Meta) == 0 {
		b.MetaSame = true
	} else {
		b.MetaSame = jsonEq(srcMeta, gotMeta)
	}
	// the errors as the document was given them (testErrors is a pure function of their number):
	// what MarshalDocument may have done to the document's own slice meanwhile does not count
	given := testErrors(len(src.Errors))
	b.ErrorsSame = len(given) == len(doc2.Errors)
	for i := range given {
		if i < len(doc2.Errors) && normErr(given[i]) != normErr(doc2.Errors[i]) {
			b.ErrorsSame = false
		}
	}
	return b
}

// snapshot of everything readable: Get of every field (to-many as sorted multiset), id, url params
func snapshot(live []jsonapi.Resource, url *jsonapi.URL) string {
	var b strings.Builder
	for _, r := range live {
		fmt.Fprintf(&b, "%q;", r.Get("id"))
		for _, k := range sortedKeys(r.Attrs()) {
			v := r.Get(k)
			rv := reflect.ValueOf(v)
			if v != nil && rv.Kind() == reflect.Ptr && !rv.IsNil() {
				v = rv.Elem().Interface()
			}
			fmt.Fprintf(&b, "%s=%#v;", k, v)
		}
		for _, k := range sortedKeys(r.Rels()) {
			v := r.Get(k)
			if ss, ok := v.([]string); ok {
				v = sortedIDs(ss)
			}
			fmt.Fprintf(&b, "%s=%#v;", k, v)
		}
		if mh, ok := r.(jsonapi.MetaHolder); ok {
			m := mh.Meta()
			for _, k := range sortedKeys(m) {
				fmt.Fprintf(&b, "meta.%s=%#v;", k, m[k])
			}
		}
	}
	for _, t := range sortedKeys(url.Params.Fields) {
		fmt.Fprintf(&b, "F[%s]=%v;", t, sortedIDs(url.Params.Fields[t]))
	}
	fmt.Fprintf(&b, "S=%v;P=%v;L=%q;I=%d;", url.Params.SortingRules, url.Params.Page, url.Params.FilterLabel, len(url.Params.Include))
	// what the URL says about the request itself
	fmt.Fprintf(&b, "U=%q,%q,%v,%q,%q,%q,%+v,%+v;", url.Fragments, url.Route, url.IsCol, url.ResType, url.ResID, url.RelKind, url.Rel, url.BelongsToFilter)
	// the filter, value lists in the order the caller gave them (nothing in the property lets them move)
	var walk func(f *jsonapi.Filter)
	walk = func(f *jsonapi.Filter) {
		if f == nil {
			return
		}
		fmt.Fprintf(&b, "f(%s,%s,%s", f.Field, f.Op, f.Col)
		if kids, ok := f.Val.([]*jsonapi.Filter); ok {
			for _, k := range kids {
				walk(k)
			}
		} else {
			fmt.Fprintf(&b, ",%#v", f.Val)
		}
		b.WriteString(")")
	}
	walk(url.Params.Filter)
	return b.String()
}

// snapshotDoc: what the document itself says (not its resources): who is included, what relationship
// data it asks for, its prefix, how many errors and links it carries
func snapshotDoc(doc *jsonapi.Document) string {
	var b strings.Builder
	ids := []string{}
	for _, r := range doc.Included {
		id, _ := r.Get("id").(string)
		ids = append(ids, r.GetType().Name+"/"+id)
	}
	sort.Strings(ids)
	// (the links the handler put there; the library files the self link of the answer in the same map)
	own := []string{}
	for _, k := range sortedKeys(doc.Links) {
		if k != "self" {
			own = append(own, k+"="+doc.Links[k].HRef)
		}
	}
	fmt.Fprintf(&b, "D:inc=%q;pre=%q;errs=%d;links=%q;meta=%d;", ids, doc.PrePath, len(doc.Errors), own, len(doc.Meta))
	for _, t := range sortedKeys(doc.RelData) {
		fmt.Fprintf(&b, "rd[%s]=%v;", t, sortedIDs(doc.RelData[t]))
	}
	switch x := doc.Data.(type) {
	case nil:
		b.WriteString("data=nil")
	case jsonapi.Collection:
		fmt.Fprintf(&b, "data=col%d", x.Len())
	default:
		fmt.Fprintf(&b, "data=%T", x)
	}
	return b.String()
}

func permuteDoc(d dDoc, rng *rand.Rand) dDoc {
	p := d
	shuf := func(s []string) []string {
		o := append([]string{}, s...)
		rng.Shuffle(len(o), func(i, j int) { o[i], o[j] = o[j], o[i] })
		return o
	}
	pr := func(rs []dRes) []dRes {
		out := make([]dRes, len(rs))
		for i, r := range rs {
			nr := dRes{Type: r.Type, ID: r.ID, Vals: valMap{}, Extra: r.Extra}
			for f, v := range r.Vals {
				if docFields[r.Type][f].Kind == "rel" && !docFields[r.Type][f].To1 {
					v = jVal{IDs: shuf(v.IDs)}
				}
				nr.Vals[f] = v
			}
			out[i] = nr
		}
		return out
	}
	p.Primary = pr(d.Primary)
	p.Included = pr(d.Included)
	// included with distinct ids may come in any order
	ids := map[string]bool{}
	distinct := true
	for _, r := range p.Included {
		if ids[r.ID] {
			distinct = false
		}
		ids[r.ID] = true
	}
	if distinct {
		rng.Shuffle(len(p.Included), func(i, j int) { p.Included[i], p.Included[j] = p.Included[j], p.Included[i] })
	}
	p.Fields = map[string][]string{}
	for t, n := range d.Fields {
		p.Fields[t] = shuf(n)
	}
	p.RelData = map[string][]string{}
	for t, n := range d.RelData {
		p.RelData[t] = shuf(n)
	}
	return p
}

func runDocCase(c dCase) dEvent {
	if c.Mode == "include" {
		return dEvent{}
	}
	ev := dEvent{Ev: "doc", Doc: c.Doc, Ret: "ok", Out: dOut{Data: []dObj{}, Included: []dObj{}},
		Back: dBack{Primary: []dRes{}, Included: []dRes{}}}
	normDoc(&ev.Doc)
	var merr error
	p, _ := catch(func() {
		w := newDocWorld(c.Var, c.Seed)
		doc, url, live := w.build(c.Doc)
		if c.Var.Served {
			// the same document served a narrower request first (for every type only the last of the
			// names now selected): what it asks for - its relationship data - is still what it was
			full := url.Params.Fields
			narrow := map[string][]string{}
			for t, names := range full {
				narrow[t] = append([]string{}, names...)
				if len(names) > 1 {
					narrow[t] = narrow[t][len(names)-1:]
				}
			}
			url.Params.Fields = narrow
			// ... under another path prefix: the prefix of a document is what it says at the time
			was := doc.PrePath
			doc.PrePath = "https://earlier.example/v0"
			_, _ = jsonapi.MarshalDocument(doc, url)
			doc.PrePath = was
			url.Params.Fields = full
		}
		if c.Var.Meta%4 == 2 {
			// a marshal that fails at the very end came just before (a document whose meta no JSON can
			// hold): whatever it left behind is nothing to this one
			bad := &jsonapi.Document{Data: nil, Meta: map[string]interface{}{"nan": math.NaN()}, Included: doc.Included}
			if other, urlb, _ := newDocWorld(c.Var, c.Seed+99).build(dDoc{Kind: "one", Coll: "none", Primary: []dRes{randDocRes(rand.New(rand.NewSource(c.Seed)), "t1", "q")}}); other != nil {
				other.Meta = bad.Meta
				_, _ = jsonapi.MarshalDocument(other, urlb)
				other.Errors = testErrors(2)
				other.Data = nil
				_, _ = jsonapi.MarshalDocument(other, urlb)
			}
		}
		if c.Var.Busy {
			stop := make(chan struct{})
			var wg sync.WaitGroup
			for g := 0; g < 6; g++ {
				ow := newDocWorld(c.Var, c.Seed+int64(g)+1)
				od := permuteDoc(c.Doc, rand.New(rand.NewSource(c.Seed+int64(g))))
				switch g {
				case 2:
					od = dDoc{Kind: "errors", NErrors: 2, Coll: "none"}
				case 3, 4:
					// small documents that are all linkage: one resource, its to-many relationships full of ids of
					// their own, their data asked for (whatever is shared between calls is used most by these)
					r := randDocRes(rand.New(rand.NewSource(c.Seed+int64(g))), "t1", "q")
					r.Vals["m"] = jVal{IDs: []string{"x", "y", "z", "u", "v", "w"}[:2+g]}
					r.Vals["m2"] = jVal{IDs: []string{"w", "v", "u"}[:g-2]}
					od = dDoc{Kind: "one", Coll: "none", Primary: []dRes{r}, Fields: map[string][]string{"t1": {"m", "m2"}},
						RelData: map[string][]string{"t1": {"m", "m2"}}}
				case 5:
					od = randDoc(rand.New(rand.NewSource(c.Seed + int64(g)*7919))) // another document altogether
				}
				var odoc *jsonapi.Document
				var ourl *jsonapi.URL
				if p, _ := catch(func() { odoc, ourl, _ = ow.build(od) }); p || odoc == nil || ourl == nil {
					continue // (a document this variant cannot hold, e.g. a member of a wider type in a struct-backed world)
				}
				wg.Add(1)
				go func() {
					defer wg.Done()
					defer func() { _ = recover() }() // (what the others do is judged when it is their turn)
					for {
						select {
						case <-stop:
							return
						default:
							_, _ = jsonapi.MarshalDocument(odoc, ourl)
						}
					}
				}()
			}
			defer func() { close(stop); wg.Wait() }()
		}
		before := snapshot(live, url) + snapshotDoc(doc)
		payload, err := jsonapi.MarshalDocument(doc, url)
		if err != nil {
			merr = err
			return
		}
		ev.Det = dDet{AllSame: true, PermSame: true}
		kept := append([]byte{}, payload...) // what the caller was given, byte for byte
		reps := c.Var.Reps
		if c.Var.Busy {
			reps += 100 // (every one of these calls is a call whose result a client receives)
		}
		for i := 1; i < reps; i++ {
			again, err := jsonapi.MarshalDocument(doc, url)
			if err != nil || !bytes.Equal(again, kept) {
				ev.Det.AllSame = false
				if err == nil && c.Var.Busy && bytes.Equal(payload, kept) {
					payload = again // the result that is looked at is one that differs, if any does
				}
			}
		}
		// the same Document value serves another answer in between (an included resource is the primary
		// data, the primary data is included) and is then given its content back: the same content again
		if len(doc.Included) > 0 && !c.Var.Busy {
			d0, i0 := doc.Data, doc.Included
			others := append([]jsonapi.Resource{}, i0[1:]...)
			switch x := d0.(type) {
			case jsonapi.Resource:
				others = append(others, x)
			case jsonapi.Collection:
				for k := 0; k < x.Len(); k++ {
					others = append(others, x.At(k))
				}
			}
			doc.Data, doc.Included = i0[0], others
			_, _ = catch(func() { _, _ = jsonapi.MarshalDocument(doc, url) })
			doc.Data, doc.Included = d0, i0
			again, err := jsonapi.MarshalDocument(doc, url)
			if err != nil || !bytes.Equal(again, kept) {
				ev.Det.AllSame = false
			}
		}
		ev.Det.FrameOK = snapshot(live, url)+snapshotDoc(doc) == before
		if !ev.Det.FrameOK && os.Getenv("VERIF_DEBUG") != "" {
			fmt.Fprintf(os.Stderr, "BEFORE %s\nAFTER  %s\n", before, snapshot(live, url)+snapshotDoc(doc))
		}
		// a URL value that answered another request before (it was written out for /t2/zz-other) and then holds
		// this request's content, every exported field of it: the bytes depend on what the URL holds now
		if !c.Var.Busy {
			if used, uerr := jsonapi.NewURLFromRaw(w.schema, "/t2/zz-other?fields%5Bt2%5D=b"); uerr == nil {
				_ = used.String()
				_, _ = catch(func() { _, _ = jsonapi.MarshalDocument(&jsonapi.Document{}, used) })
				dv, sv := reflect.ValueOf(used).Elem(), reflect.ValueOf(url).Elem()
				for k := 0; k < dv.NumField(); k++ {
					if dv.Type().Field(k).IsExported() {
						dv.Field(k).Set(sv.Field(k))
					}
				}
				if again, err := jsonapi.MarshalDocument(doc, used); err != nil || !bytes.Equal(again, kept) {
					ev.Det.AllSame = false
				}
			}
		}
		// fresh builds of the same content, and of permuted content
		rng := rand.New(rand.NewSource(c.Seed + 17))
		for i := 0; i < 3; i++ {
			pd := c.Doc
			if i > 0 {
				pd = permuteDoc(c.Doc, rng)
			}
			w2 := newDocWorld(c.Var, c.Seed)
			doc2, url2, _ := w2.build(pd)
			other, err := jsonapi.MarshalDocument(doc2, url2)
			if err != nil || !bytes.Equal(other, payload) {
				if i == 0 {
					ev.Det.AllSame = false
				} else {
					ev.Det.PermSame = false
				}
			}
		}
		// the same document object once its owner has rearranged what it is free to rearrange
		// (the included list, the listed names): the content is the same, so are the bytes
		seen, distinct := map[string]bool{}, true
		for _, r := range doc.Included {
			id, _ := r.Get("id").(string)
			distinct = distinct && !seen[id]
			seen[id] = true
		}
		if distinct { // the property speaks of included resources with distinct ids
			for i, j := 0, len(doc.Included)-1; i < j; i, j = i+1, j-1 {
				doc.Included[i], doc.Included[j] = doc.Included[j], doc.Included[i]
			}
		}
		for _, names := range doc.RelData {
			for i, j := 0, len(names)-1; i < j; i, j = i+1, j-1 {
				names[i], names[j] = names[j], names[i]
			}
		}
		for _, names := range url.Params.Fields {
			for i, j := 0, len(names)-1; i < j; i, j = i+1, j-1 {
				names[i], names[j] = names[j], names[i]
			}
		}
		// the bytes handed out first are the caller's: marshaling something else later leaves them alone
		if other, url3, _ := newDocWorld(c.Var, c.Seed).build(dDoc{Kind: "errors", NErrors: 2, Coll: "none"}); other != nil {
			_, _ = jsonapi.MarshalDocument(other, url3)
			if !bytes.Equal(payload, kept) {
				ev.Det.AllSame = false
			}
		}
		if again, err := jsonapi.MarshalDocument(doc, url); err != nil || !bytes.Equal(again, kept) {
			ev.Det.PermSame = false
			if os.Getenv("VERIF_DEBUG") != "" {
				fmt.Fprintf(os.Stderr, "FIRST %s\nAGAIN %s\n", payload, again)
			}
		}
		// What the first call returned is looked at only now, after the library has marshaled the same
		// document again, fresh copies of it and another document: the bytes are the caller's from the
		// moment they are returned, and they are what a client would receive.
		ev.Out = w.projOut(c.Doc, payload, url)
		ev.Back = w.projBack(c.Doc, payload, doc)
	})
	switch {
	case p:
		ev.Ret = "panic"
	case merr != nil:
		ev.Ret = "err"
	}
	return ev
}

func normDoc(d *dDoc) {
	if d.Primary == nil {
		d.Primary = []dRes{}
	}
	if d.Included == nil {
		d.Included = []dRes{}
	}
	if d.Fields == nil {
		d.Fields = map[string][]string{}
	}
	if d.RelData == nil {
		d.RelData = map[string][]string{}
	}
	for t, v := range d.Fields {
		if v == nil {
			d.Fields[t] = []string{}
		}
	}
	for t, v := range d.RelData {
		if v == nil {
			d.RelData[t] = []string{}
		}
	}
}

// ---- generation ----

func randDocRes(rng *rand.Rand, typ, id string) dRes {
	pick := func(pool [][]string) []string { return append([]string{}, pool[rng.Intn(len(pool))]...) }
	r := dRes{Type: typ, ID: id, Vals: valMap{}}
	if typ == "t1" {
		r.Vals["a"] = jVal{R: rng.Intn(4), IDs: []string{}}
		if rng.Intn(3) == 0 {
			r.Vals["n"] = jVal{Nil: true, IDs: []string{}}
		} else {
			r.Vals["n"] = jVal{R: rng.Intn(4), IDs: []string{}}
		}
		r.Vals["o"] = jVal{IDs: pick([][]string{{}, {"u"}, {"v"}})}
		r.Vals["m"] = jVal{IDs: pick([][]string{{}, {"u"}, {"v", "u"}, {"w", "u", "v"}, {"u", "u"}, {"u", "w", "u"}, {"v", "v", "u", "v"}})}
		r.Vals["o2"] = jVal{IDs: pick([][]string{{}, {"w"}, {"u"}})}
		r.Vals["m2"] = jVal{IDs: pick([][]string{{}, {"w"}, {"u", "w"}})}
	} else {
		r.Vals["b"] = jVal{R: rng.Intn(4), IDs: []string{}}
		for _, f := range sortedKeys(docFields["t2"]) {
			d := docFields["t2"][f]
			if d.Kind == "attr" && f != "b" {
				r.Vals[f] = jVal{R: rng.Intn(4), IDs: []string{}}
				if d.Null && rng.Intn(3) == 0 {
					r.Vals[f] = jVal{Nil: true, IDs: []string{}}
				}
			}
		}
		r.Vals["p"] = jVal{IDs: pick([][]string{{}, {"x"}, {"y"}})}
		r.Vals["o"] = jVal{IDs: pick([][]string{{}, {"x"}, {"z"}})}
	}
	return r
}

func subsetOf(rng *rand.Rand, names []string) []string {
	out := []string{}
	for _, n := range names {
		if rng.Intn(2) == 0 {
			out = append(out, n)
		}
	}
	rng.Shuffle(len(out), func(i, j int) { out[i], out[j] = out[j], out[i] })
	return out
}

func randDoc(rng *rand.Rand) dDoc {
	kinds := []string{"null", "one", "many", "many", "many", "ident", "idents", "errors"}
	d := dDoc{Kind: kinds[rng.Intn(len(kinds))], Coll: "none", Fields: map[string][]string{}, RelData: map[string][]string{}}
	ids := []string{"x", "y", "z"}
	switch d.Kind {
	case "one", "ident":
		d.Primary = []dRes{randDocRes(rng, "t1", "x")}
		if rng.Intn(8) == 0 {
			d.Primary[0].ID = "" // a resource (or an identifier) that was never given an id
		}
	case "many", "idents":
		d.Coll = []string{"resources", "soft", "wrapcol"}[rng.Intn(3)]
		n := rng.Intn(4)
		rng.Shuffle(len(ids), func(i, j int) { ids[i], ids[j] = ids[j], ids[i] })
		for i := 0; i < n; i++ {
			typ := "t1"
			if d.Coll == "resources" && rng.Intn(4) == 0 {
				typ = "t2" // Resources may mix types
			}
			d.Primary = append(d.Primary, randDocRes(rng, typ, ids[i]))
		}
		if d.Kind == "many" && rng.Intn(6) == 0 {
			// a larger collection (work split by size, batches, goroutines: the order stays the caller's)
			d.Primary = nil
			big := []string{"k01", "k02", "k03", "k04", "k05", "k06", "k07", "k08", "k09", "k10", "k11", "k12"}
			rng.Shuffle(len(big), func(i, j int) { big[i], big[j] = big[j], big[i] })
			for _, id := range big[:9+rng.Intn(4)] {
				d.Primary = append(d.Primary, randDocRes(rng, "t1", id))
			}
		}
		if d.Kind == "many" && rng.Intn(40) == 0 {
			// a long collection, of a length that no even split divides (work cut in equal parts loses the rest)
			d.Primary = nil
			for k, n := 0, []int{65, 66, 67, 70, 131}[rng.Intn(5)]; k < n; k++ {
				d.Primary = append(d.Primary, randDocRes(rng, "t1", fmt.Sprintf("q%03d", (k*37)%n)))
			}
		}
		if d.Kind == "many" && d.Coll == "resources" && len(d.Primary) >= 2 && rng.Intn(5) == 0 {
			// a member (not the first one) whose own type has one more attribute than the schema's
			k := 1 + rng.Intn(len(d.Primary)-1)
			d.Primary[k].Extra = true
			d.Primary[k].Vals["ex"] = jVal{R: 1 + rng.Intn(3), IDs: []string{}}
		}
		if d.Kind == "many" && d.Coll == "resources" && len(d.Primary) > 0 && rng.Intn(4) == 0 {
			// the same id under the other type (ids are unique per type only)
			other := "t1"
			if d.Primary[0].Type == "t1" {
				other = "t2"
			}
			d.Primary = append(d.Primary, randDocRes(rng, other, d.Primary[0].ID))
		}
	case "errors":
		d.NErrors = 1 + rng.Intn(9)
		for i := rng.Intn(3); i > 0; i-- { // errors may come with data and included already set
			d.Primary = append(d.Primary, randDocRes(rng, "t1", ids[i]))
		}
		d.Coll = []string{"none", "none", "ident", "idents"}[rng.Intn(4)]
	}
	if d.Kind == "ident" || d.Kind == "idents" {
		d.Coll = "none"
		for i := range d.Primary {
			d.Primary[i].Vals = valMap{}
		}
	}
	// included: 0..3 resources of both types, ids distinct from the primary data's pairs
	used := map[string]bool{}
	for _, r := range d.Primary {
		used[r.Type+"/"+r.ID] = true
	}
	for k := rng.Intn(4); k > 0; k-- {
		typ := []string{"t1", "t2"}[rng.Intn(2)]
		id := []string{"u", "v", "w", "x"}[rng.Intn(4)]
		if used[typ+"/"+id] {
			continue
		}
		used[typ+"/"+id] = true
		d.Included = append(d.Included, randDocRes(rng, typ, id))
	}
	if rng.Intn(40) == 0 && d.Kind != "errors" && d.Kind != "null" {
		// a long included list (work split by size, batches, goroutines)
		for i := 1; i <= 33+rng.Intn(8); i++ {
			d.Included = append(d.Included, randDocRes(rng, []string{"t2", "t1"}[i%2], fmt.Sprintf("i%02d", i)))
		}
		rng.Shuffle(len(d.Included), func(i, j int) { d.Included[i], d.Included[j] = d.Included[j], d.Included[i] })
	}
	// selections: subsets, plus the odd entries the property names
	sel := func(t string) {
		all := sortedKeys(docFields[t])
		switch rng.Intn(8) {
		case 0: // no entry
		case 1:
			d.Fields[t] = []string{}
		case 2:
			d.Fields[t] = append(subsetOf(rng, all), "id")
		case 3:
			// a name the type does not have: a plain one, or one made of the type's own names and commas
			unknown := []string{"zz", "zz", all[0] + "," + all[len(all)-1], "," + all[0] + ",", all[len(all)/2] + ",zz"}[rng.Intn(5)]
			d.Fields[t] = append(subsetOf(rng, all), unknown)
		case 4:
			s := subsetOf(rng, all)
			if len(s) > 0 {
				s = append(s, s[0])
			}
			d.Fields[t] = s
		case 5:
			d.Fields[t] = all
		default:
			d.Fields[t] = subsetOf(rng, all)
		}
		var rels []string
		for _, f := range all {
			if docFields[t][f].Kind == "rel" {
				rels = append(rels, f)
			}
		}
		switch rng.Intn(5) {
		case 0:
		case 1:
			d.RelData[t] = append(subsetOf(rng, rels), "zz")
		case 2:
			d.RelData[t] = rels
		default:
			d.RelData[t] = subsetOf(rng, rels)
		}
	}
	sel("t1")
	sel("t2")
	for _, r := range d.Primary {
		if r.Extra { // the wider member's own attribute is asked for too
			d.Fields[r.Type] = append(append([]string{}, d.Fields[r.Type]...), "ex")
		}
	}
	return d
}

func docMain(args []string) {
	fs := flag.NewFlagSet("doc", flag.ExitOnError)
	out := fs.String("out", "", "output directory")
	seed := fs.Int64("seed", 1, "seed")
	n := fs.Int("n", 1000, "random documents")
	reps := fs.Int("reps", 8, "repeated marshals per document")
	walks := fs.Int("walks", 200, "Include walks")
	systematic := fs.Bool("systematic", false, "every field subset x relationship-data subset x position (C04)")
	replay := fs.String("replay", "", "replay file")
	_ = fs.String("gen", "", "unused")
	must(fs.Parse(args))
	if *replay != "" {
		var rf struct {
			Case dCase `json:"case"`
		}
		b, err := os.ReadFile(*replay)
		must(err)
		must(json.Unmarshal(b, &rf))
		// the cases run just before in the same process: what a defect keeps between calls (a cache
		// by name, a pool) is only there after them
		var pre struct {
			Prelude []json.RawMessage `json:"prelude"`
		}
		must(json.Unmarshal(b, &pre))
		for _, raw := range pre.Prelude {
			var pc dCase
			if json.Unmarshal(raw, &pc) != nil {
				continue
			}
			_, _ = catch(func() {
				switch pc.Mode {
				case "tie":
					var tc tieCase
					if json.Unmarshal(raw, &tc) == nil {
						runTieCase(tc)
					}
				case "oddname":
					var oc oddCase
					if json.Unmarshal(raw, &oc) == nil {
						runOddCase(oc)
					}
				case "dupname":
					var dc dupCase
					if json.Unmarshal(raw, &dc) == nil {
						runDupCase(dc)
					}
				case "include":
					runIncludeCase(pc)
				default:
					runDocCase(pc)
				}
			})
		}
		if rf.Case.Mode == "tie" {
			var tr struct {
				Case tieCase `json:"case"`
			}
			must(json.Unmarshal(b, &tr))
			os.Stdout.Write(jsonLine(runTieCase(tr.Case)))
			return
		}
		if rf.Case.Mode == "oddname" {
			var or struct {
				Case oddCase `json:"case"`
			}
			must(json.Unmarshal(b, &or))
			os.Stdout.Write(jsonLine(runOddCase(or.Case)))
			return
		}
		if rf.Case.Mode == "dupname" {
			var dr struct {
				Case dupCase `json:"case"`
			}
			must(json.Unmarshal(b, &dr))
			os.Stdout.Write(jsonLine(runDupCase(dr.Case)))
			return
		}
		if rf.Case.Mode == "include" {
			evs := runIncludeCase(rf.Case)
			os.Stdout.Write(jsonLine(evs[len(evs)-1]))
			return
		}
		ev := runDocCase(rf.Case)
		if rf.Case.Var.Busy {
			// with goroutines of its own a case goes wrong with some probability per run: a replay insists
			for i := 0; i < 400 && ev.Ret == "ok" && ev.Det.AllSame && ev.Det.PermSame; i++ {
				ev = runDocCase(rf.Case)
			}
		}
		os.Stdout.Write(jsonLine(ev))
		return
	}
	rng := newRand(*seed, "doc")
	stt := newStats()
	w := newEvWriter(*out, 20000)
	prefixes := []string{"", "/", "https://x.org", "https://x.org/", "/api/v1", "https://x.org/api//", "//", "/a/../b/./", "https://x.org/my%20api", "/p%s/%d/100%"} // (a prefix is taken as it is: nothing in it is cleaned)
	var sysDocs []dDoc
	if *systematic {
		all := []string{"a", "m", "n", "o", "m2", "o2"}
		for mask := 0; mask < 64; mask++ {
			var f []string
			for i, name := range all {
				if mask&(1<<i) != 0 {
					f = append(f, name)
				}
			}
			for extra := 0; extra < 6; extra++ {
				for dmask := 0; dmask < 7; dmask++ {
					for pos := 0; pos < 3; pos++ {
						d := dDoc{Fields: map[string][]string{"t2": {"b", "p"}}, RelData: map[string][]string{"t2": {"p"}}, Coll: "none"}
						sel := append([]string{}, f...)
						switch extra {
						case 1:
							sel = append(sel, "id")
						case 2:
							sel = append([]string{"zz"}, sel...)
						case 3:
							if len(sel) > 0 {
								sel = append(sel, sel[len(sel)-1])
							}
						case 4:
							sel = nil // missing entry (only meaningful for the empty subset)
						case 5:
							sel = []string{} // present but empty
						}
						if extra == 4 {
							if mask != 0 {
								continue
							}
						} else {
							d.Fields["t1"] = sel
						}
						if extra == 5 && mask != 0 {
							continue
						}
						switch dmask {
						case 1:
							d.RelData["t1"] = []string{"o"}
						case 2:
							d.RelData["t1"] = []string{"m"}
						case 3:
							d.RelData["t1"] = []string{"m", "o"}
						case 4:
							d.RelData["t1"] = []string{"zz", "o"}
						case 5:
							d.RelData["t1"] = []string{"m2"} // data for one of two to-many relationships only
						case 6:
							d.RelData["t1"] = []string{"o2", "m"}
						}
						r := randDocRes(rng, "t1", "x")
						switch pos {
						case 0:
							d.Kind = "one"
							d.Primary = []dRes{r}
						case 1:
							d.Kind, d.Coll = "many", "resources"
							d.Primary = []dRes{randDocRes(rng, "t2", "y"), r, randDocRes(rng, "t1", "z")}
						case 2: // included beside a primary resource of the other type
							d.Kind = "one"
							d.Primary = []dRes{randDocRes(rng, "t2", "y")}
							d.Included = []dRes{r, randDocRes(rng, "t2", "u")}
						}
						sysDocs = append(sysDocs, d)
					}
				}
			}
		}
		stt.class("systematic")
	}
	for i := 0; i < *n+len(sysDocs); i++ {
		var d dDoc
		if i < len(sysDocs) {
			d = sysDocs[i]
		} else {
			d = randDoc(rng)
		}
		v := dVariant{Impl: []string{"soft", "wrap"}[rng.Intn(2)], Shift: rng.Intn(len(nonBool)), Table: rng.Intn(3),
			Prefix: prefixes[rng.Intn(len(prefixes))], Meta: rng.Intn(len(metaClasses)), IDMap: rng.Intn(len(idMaps)), Reps: *reps,
			NoFrom: rng.Intn(3) == 0, EmptyTok: []string{"", "", "", "v", "u"}[rng.Intn(5)], Query: rng.Intn(len(docQueries))}
		if v.NamedID = v.Impl == "wrap" && rng.Intn(3) == 0; v.NamedID {
			stt.class("wrapped-structs-with-a-named-id-type")
		}
		if v.Served = rng.Intn(4) == 0; v.Served {
			stt.class("served-a-narrower-request-before")
		}
		if d.Coll == "wrapcol" {
			v.Impl = "wrap"
		}
		for _, r := range d.Primary {
			if r.Extra {
				v.Impl = "soft" // only a soft resource can have a type of its own
				stt.class("member-with-wider-type")
			}
		}
		if rng.Intn(2) == 0 {
			v.Shift = 0
		}
		if (d.Kind == "one" || d.Kind == "many") && len(d.Primary) > 0 && d.Primary[0].ID != "" && !d.Primary[0].Extra && rng.Intn(10) == 0 {
			twin := d.Primary[0]
			twin.Vals = valMap{}
			for f, v := range d.Primary[0].Vals {
				twin.Vals[f] = v
			}
			d.Included = append(d.Included, twin)
			d.HandDup = true
			stt.class("included-holds-a-primary-resource")
		}
		if d.Kind == "errors" && rng.Intn(3) == 0 {
			// a document that reports errors may still hold what its handler had gathered: it is not
			// written, and it stays in the document
			d.Included = append(d.Included, randDocRes(rng, "t2", "u"))
		}
		if d.Kind == "one" && len(d.Included) > 0 && !d.HandDup && rng.Intn(6) == 0 {
			d.Unenc = true
			stt.class("primary-cannot-be-encoded")
		}
		if !d.Unenc && rng.Intn(8) == 0 {
			d.Links = 1 + rng.Intn(2)
			stt.class(fmt.Sprintf("own-links:%d", d.Links))
		}
		if (d.Kind == "one" || d.Kind == "many") && rng.Intn(8) == 0 {
			v.OddRoute = true
			stt.class("answered-under-another-route")
		}
		busyOneIn := 8
		if *n > 10000 {
			busyOneIn = 30 // (the long runs have many more cases: as many busy ones in absolute numbers, three times over)
		}
		if v.Busy = rng.Intn(busyOneIn) == 0; v.Busy {
			stt.class("while-others-marshal")
		}
		c := dCase{Fam: "doc", Mode: "doc", Doc: d, Var: v, Seed: *seed}
		w.Inflight(c)
		ev := runDocCase(c)
		stt.Calls += *reps + 4
		stt.class("kind:" + d.Kind)
		stt.class("coll:" + d.Coll)
		stt.class("impl:" + v.Impl)
		stt.class("ret:" + ev.Ret)
		if len(d.Included) > 0 {
			stt.class("included")
		}
		for _, o := range append(append([]dObj{}, ev.Out.Data...), ev.Out.Included...) {
			if len(o.Attrs) > 0 {
				stt.class("attrs-exposed")
			}
			for _, r := range o.Rels {
				stt.class("rel-data:" + r.Data)
			}
		}
		b, _ := json.Marshal(d)
		stt.distinct(string(b))
		w.Emit(ev, c)
	}
	for _, c := range tieCases() {
		ev := runTieCase(c)
		stt.Calls += 6
		stt.class("tie:" + ev.Ret)
		w.Emit(ev, c)
	}
	for _, c := range oddCases() {
		ev := runOddCase(c)
		stt.Calls += 9
		stt.class("oddname:" + ev.Ret)
		w.Emit(ev, c)
	}
	for _, c := range dupCases() {
		ev := runDupCase(c)
		stt.Calls += 24
		stt.class("dupname:" + ev.Ret)
		w.Emit(ev, c)
	}
	for i := 0; i < *walks; i++ {
		c := randIncludeCase(rng, *seed)
		c.Final = true
		for _, ev := range runIncludeCase(c) {
			stt.Calls++
			if ev.Ev == "included-doc" {
				stt.class("included-doc:" + ev.Ret)
				if ev.Foreign {
					stt.class("included-doc:foreign-data")
				}
				w.Emit(ev, c)
				continue
			}
			stt.class("include:" + ev.Coll)
			if len(ev.Post.Included) > len(ev.Pre.Included) {
				stt.class("include:added")
			} else {
				stt.class("include:skipped")
			}
			cc := c
			cc.Calls = c.Calls[:ev.Step]
			w.Emit(ev, cc)
		}
	}
	stt.Rule = "distinct abstract documents (kind, container, resources, selections) and Include steps"
	sort.Strings(stt.Notes)
	w.Close()
	stt.write(*out+"/stats.json", w)
}
