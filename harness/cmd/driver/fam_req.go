package main

// Growth family G03 (Request.tla): NewRequest as the composition of the URL parser and the document
// reader.  TLC emits the cases (method x URL class x body class x nil schema); each is one call.

import (
	"bytes"
	"encoding/json"
	"flag"
	"io"
	"net/http"
	neturl "net/url"
	"strings"

	"github.com/mfcochauxlaberge/jsonapi"
)

type qCase struct {
	Fam       string `json:"fam"`
	Method    string `json:"method"`
	URLC      string `json:"urlc"`
	BodyC     string `json:"bodyc"`
	NilSchema bool   `json:"nilschema"`
}

type qEvent struct {
	Ev         string `json:"ev"`
	Method     string `json:"method"`
	URLC       string `json:"urlc"`
	BodyC      string `json:"bodyc"`
	NilSchema  bool   `json:"nilschema"`
	URLOK      bool   `json:"urlok"`
	BodyOK     bool   `json:"bodyok"`
	Out        string `json:"out"`
	MethodSame bool   `json:"method_same"`
	URLSame    bool   `json:"url_same"`
	HasDoc     bool   `json:"hasdoc"`
	DocSame    bool   `json:"doc_same"`
}

var reqURLs = map[string][2]string{ // class -> path, raw query
	"col":           {"/ta", ""},
	"one":           {"/ta/1", ""},
	"rel":           {"/ta/1/rs", ""},
	"relationships": {"/ta/1/relationships/r", ""},
	"query":         {"/ta", "fields[ta]=x&sort=-x&page[size]=2&include=rs"},
	"unknowntype":   {"/zz", ""},
	"unknownrel":    {"/ta/1/zz", ""},
	"badescape":     {"/ta", "fields[ta]=%zz"},
	"empty":         {"", ""},
	"badfield":      {"/ta", "fields[zz]=a"},
}

var reqBodies = map[string]string{
	"empty":       ``,
	"doc-one":     `{"data":{"type":"ta","id":"1","attributes":{"x":"v"},"relationships":{"r":{"data":{"type":"tb","id":"2"}}}}}`,
	"doc-col":     `{"data":[{"type":"ta","id":"1","attributes":{"x":"v"}},{"type":"tb","id":"2","attributes":{"z":"w"}}]}`,
	"doc-null":    `{"data":null}`,
	"doc-errors":  `{"errors":[{"status":"400","title":"t"}]}`,
	"notjson":     `{"data":`,
	"unknowntype": `{"data":{"type":"zz","id":"1"}}`,
	"badattr":     `{"data":{"type":"ta","id":"1","attributes":{"x":5}}}`,
	"array":       `[]`,
	"doc-ident":   `{"data":{"type":"tb","id":"2"}}`,
}

func runReqCase(c qCase) qEvent {
	ev := qEvent{Ev: "req", Method: c.Method, URLC: c.URLC, BodyC: c.BodyC, NilSchema: c.NilSchema}
	schema := urlSchema("soft")
	pu, ok := reqURLs[c.URLC]
	if !ok {
		infra("unknown URL class %q", c.URLC)
	}
	body, ok := reqBodies[c.BodyC]
	if !ok && c.BodyC != "none" {
		infra("unknown body class %q", c.BodyC)
	}
	mkURL := func() *neturl.URL { return &neturl.URL{Path: pu[0], RawQuery: pu[1]} }
	// the two parsers on their own
	var alone *jsonapi.URL
	catch(func() {
		if su, err := jsonapi.NewSimpleURL(mkURL()); err == nil {
			if u, err := jsonapi.NewURL(schema, su); err == nil && u != nil {
				alone, ev.URLOK = u, true
			}
		}
	})
	var docAlone *jsonapi.Document
	catch(func() {
		if d, err := jsonapi.UnmarshalDocument([]byte(body), schema); err == nil && d != nil {
			docAlone, ev.BodyOK = d, true
		}
	})
	var rd io.ReadCloser = http.NoBody
	if c.BodyC != "none" {
		rd = io.NopCloser(strings.NewReader(body))
	}
	hr := &http.Request{Method: c.Method, URL: mkURL(), Body: rd, Header: http.Header{}}
	used := schema
	if c.NilSchema {
		used = nil
	}
	var req *jsonapi.Request
	var err error
	if p, _ := catch(func() { req, err = jsonapi.NewRequest(hr, used) }); p {
		ev.Out = "panic"
		return ev
	}
	switch {
	case req != nil && err == nil:
		ev.Out = "ok"
	case req == nil && err != nil:
		ev.Out = "err"
	case req != nil:
		ev.Out = "both"
	default:
		ev.Out = "neither"
	}
	if ev.Out != "ok" || c.NilSchema {
		return ev
	}
	catch(func() {
		ev.MethodSame = req.Method == c.Method
		ev.URLSame = req.URL != nil && alone != nil && req.URL.String() == alone.String() && req.URL.ResType == alone.ResType &&
			req.URL.IsCol == alone.IsCol
		ev.HasDoc = req.Doc != nil
		if req.Doc != nil && docAlone != nil {
			all, _ := jsonapi.NewURLFromRaw(schema, "/ta")
			a, e1 := jsonapi.MarshalDocument(req.Doc, all)
			b, e2 := jsonapi.MarshalDocument(docAlone, all)
			ev.DocSame = e1 == nil && e2 == nil && bytes.Equal(a, b)
		}
	})
	return ev
}

func reqMain(args []string) {
	fs := flag.NewFlagSet("req", flag.ExitOnError)
	gen := fs.String("gen", "", "TLC generation output (CASE lines)")
	out := fs.String("out", "", "output directory")
	must(fs.Parse(args))
	stt := newStats()
	stt.Exhaustive = true
	w := newEvWriter(*out, 60000)
	tlcLines(*gen, func(tag string, js []byte) {
		if tag != "CASE" {
			return
		}
		var c qCase
		must(json.Unmarshal(js, &c))
		c.Fam = "req"
		ev := runReqCase(c)
		stt.Calls++
		cls := "schema"
		if c.NilSchema {
			cls = "nilschema"
		}
		stt.class(cls + ":" + ev.Out)
		if ev.Out == "ok" && ev.HasDoc {
			stt.class("with-document")
		}
		w.Emit(ev, c)
	})
	stt.Rule = "every case of the vocabulary (method x URL class x body class x nil schema)"
	w.Close()
	stt.write(*out+"/stats.json", w)
}
