#!/usr/bin/env python3
"""benign_eval.py <dir with patch.diff> <prop>...  : the patch must NOT make any of the checks fire.
Runs in a scratch worktree (VERIF_REPO); prints one JSON line."""
import hashlib, json, os, shutil, subprocess, sys, tempfile
VERIF = os.path.dirname(os.path.dirname(os.path.abspath(__file__)))
ENV = dict(os.environ, GOFLAGS="-mod=mod", GOPROXY="off", GOSUMDB="off", GOTOOLCHAIN="local")
d = os.path.abspath(sys.argv[1]); props = sys.argv[2:]
res = dict(dir=d)
wt = tempfile.mkdtemp(prefix="beneval-"); shutil.rmtree(wt)
out = tempfile.mkdtemp(prefix="benout-")
try:
    subprocess.run(["git", "-C", "/repo", "worktree", "add", "-q", "--detach", wt, "HEAD"], check=True)
    p = subprocess.run(["git", "apply", os.path.join(d, "patch.diff")], cwd=wt, capture_output=True, text=True)
    res["applies"] = p.returncode == 0
    if p.returncode == 0:
        p = subprocess.run("go build ./... && go test -count=1 ./...", shell=True, cwd=wt, env=ENV, capture_output=True, text=True)
        res["suite"] = "pass" if p.returncode == 0 and "FAIL" not in p.stdout else "FAIL"
        env = dict(ENV, VERIF_REPO=wt, VERIF_OUT=out)
        res["alarms"] = {}
        for pr in props:
            p = subprocess.run([os.path.join(VERIF, "bin", "check"), pr, "quick"], cwd=VERIF, env=env, capture_output=True, text=True)
            if p.returncode != 0:
                o = p.stdout + p.stderr
                res["alarms"][pr] = dict(rc=p.returncode, lines=[l for l in o.splitlines() if l.startswith(("VIOLATION", "  deviation", "INFRA"))][:4])
                for f in os.listdir(os.path.join(out, "replays")) if os.path.isdir(os.path.join(out, "replays")) else []:
                    shutil.copy(os.path.join(out, "replays", f), os.path.join(d, "alarm-" + f))
finally:
    subprocess.run(["git", "-C", "/repo", "worktree", "remove", "--force", wt])
    shutil.rmtree(wt, ignore_errors=True); shutil.rmtree(out, ignore_errors=True)
    shutil.rmtree(os.path.join(VERIF, ".build", "alt-" + hashlib.sha1(wt.encode()).hexdigest()[:10]), ignore_errors=True)
print(json.dumps(res))
