#!/usr/bin/env python3
"""Regenerates /verif/MANIFEST.json from lib/props.py (one source of truth)."""
import json
import os
import sys

sys.path.insert(0, os.path.dirname(os.path.abspath(__file__)))
import props  # noqa: E402

VERIF = os.path.dirname(os.path.dirname(os.path.abspath(__file__)))
ALL = [json.loads(l)["id"] for l in open(os.path.join(VERIF, "properties.jsonl"))]

TEST_CMD = "cd /repo && go test -vet=off -count=1 -timeout 25m ./..."

man = dict(
    version=1,
    setup_cmd="sh bin/setup",
    hooks=dict(guard="verif", enable="go build -tags verif (no hook is needed by any check; the tag is reserved)",
               baseline_off_cmd=TEST_CMD, source_commits=[], add_only=True),
    engines=[dict(name="tlc-model-based", path="lib/vcheck.py",
                  serves_properties=sorted(props.PROPS),
                  kind_free_text="explicit TLA+ specification per family (spec/*.tla); TLC model-checks it, generates "
                                 "states/cases that a Go driver replays into the real library, and judges every "
                                 "recorded real call with a trace-monitor spec"),
             dict(name="tlc-growth-families", path="lib/grow.py", serves_properties=[],
                  kind_free_text="bin/grow G01|G02|G03|G04: parts of the specification that cover behaviour outside the listed "
                                 "properties (shared-type soft resources with a stateful trace spec, plain collections, "
                                 "NewRequest, error values); they decide no property and print OBSERVATION / DIVERGENCE lines only "
                                 "(DESIGN.md section 13)")],
    checks=[], not_applicable=[],
    notes="bin/check <ID> <quick|thorough>; exit 0/1/2 = held / reproduced unlisted violation / infrastructure. "
          "Known findings: known_findings.txt. Design: DESIGN.md. Growth families (no property): bin/grow, growth/.")
for pid in ALL:
    P = props.PROPS.get(pid)
    if not P:
        man["not_applicable"].append(dict(property_id=pid, reason=props.NOT_YET.get(pid, "no check registered in this revision of /verif (work in progress, see DESIGN.md section 5)")))
        continue
    man["checks"].append(dict(
        property_id=pid,
        quick_cmd="bin/check %s quick" % pid,
        thorough_cmd="bin/check %s thorough" % pid,
        evidence_file="evidence/%s.json" % pid,
        replay_cmd_template="bin/check %s --replay {path}" % pid,
        engine="tlc-model-based",
        level_claimed=dict(category="model_checking", text=P["level_text"], design_ref="DESIGN.md section 5, " + pid),
        level_note=P["level_note"],
        technique=P.get("technique", "TLA+ spec model-checked by TLC; TLC-generated states/cases replayed into the real code; every real call judged by a TLC trace monitor"),
    ))
json.dump(man, open(os.path.join(VERIF, "MANIFEST.json"), "w"), indent=1)
print("checks:", [c["property_id"] for c in man["checks"]], "n/a:", [n["property_id"] for n in man["not_applicable"]])
