#!/usr/bin/env python3
"""Orchestrator of the model-based checks (see DESIGN.md).

    bin/check <ID> <quick|thorough>
    bin/check <ID> --replay <path>
    bin/check <ID> --selftest      (the quick check must fire on the seeded changes of seeded/<ID>*/)

For one property it
  (M) model-checks the family's TLA+ spec with TLC (invariants, action properties),
  (A) lets TLC generate reachable states / cases and drives the REAL library through
      them (Go driver built against /repo's working tree),
  (B) has TLC's trace monitor judge every recorded real call,
and turns the monitor's REJ lines into KNOWN-FINDING / VIOLATION lines.

Exit codes: 0 property held on everything explored (known findings may be printed),
            1 a reproduced, unlisted violation ("VIOLATION property=<id> replay=<path>"),
            2 infrastructure trouble (never a verdict about the code).
"""
import concurrent.futures as cf
import glob
import hashlib
import json
import os
import re
import shutil
import subprocess
import sys
import tempfile
import time

VERIF = os.path.dirname(os.path.dirname(os.path.abspath(__file__)))
REPO = os.environ.get("VERIF_REPO", "/repo")
JAR = "/opt/veriftools/tla/tla2tools.jar:/opt/veriftools/tla/CommunityModules-deps.jar"
BUILD = os.path.join(VERIF, ".build")


class Infra(Exception):
    pass


def log(*a):
    print(*a, flush=True)


def go_env():
    env = dict(os.environ)
    env.update(GOFLAGS="-mod=mod", GOPROXY="off", GOSUMDB="off", GOTOOLCHAIN="local")
    return env


def build_driver(race=False):
    """(Re)build the Go driver against the repository's current working tree (/repo, or
    $VERIF_REPO for experiments on a scratch worktree: a separate mod file and build directory)."""
    h = os.path.join(VERIF, "harness")
    name = "driver-race" if race else "driver"
    if REPO == "/repo":
        os.makedirs(BUILD, exist_ok=True)
        shutil.copyfile(os.path.join(REPO, "go.sum"), os.path.join(h, "go.sum"))
        out = os.path.join(BUILD, name)
        modflag = []
    else:
        tag = hashlib.sha1(REPO.encode()).hexdigest()[:10]
        bdir = os.path.join(BUILD, "alt-" + tag)
        os.makedirs(bdir, exist_ok=True)
        mod = open(os.path.join(h, "go.mod")).read().replace("=> /repo", "=> " + REPO)
        with open(os.path.join(bdir, "go.mod"), "w") as fh:
            fh.write(mod)
        shutil.copyfile(os.path.join(REPO, "go.sum"), os.path.join(bdir, "go.sum"))
        out = os.path.join(bdir, name)
        modflag = ["-modfile=" + os.path.join(bdir, "go.mod")]
    cmd = ["go", "build"] + modflag + (["-race"] if race else []) + ["-tags", "verif", "-o", out, "./cmd/driver"]
    p = subprocess.run(cmd, cwd=h, env=go_env(), capture_output=True, text=True)
    if p.returncode != 0:
        raise Infra("go build failed:\n" + p.stdout + p.stderr)
    return out


class Scratch:
    """Per-run scratch directory holding a copy of the specs, TLC metadirs and event chunks."""

    def __init__(self, pid):
        self.dir = tempfile.mkdtemp(prefix="verif-%s-" % pid)
        for f in glob.glob(os.path.join(VERIF, "spec", "*")):
            if os.path.isfile(f):
                shutil.copy(f, self.dir)
        os.makedirs(os.path.join(self.dir, "tmp"))
        self.k = 0

    def sub(self, name):
        d = os.path.join(self.dir, name)
        os.makedirs(d, exist_ok=True)
        return d

    def cleanup(self):
        shutil.rmtree(self.dir, ignore_errors=True)


def tlc(scr, module, cfg, workers=8, xmx="6g", timeout=1800, env=None, extra=(), stdout_path=None):
    """Run TLC; returns (returncode, output text or path)."""
    scr.k += 1
    md = os.path.join(scr.dir, "md-%d" % scr.k)
    cmd = ["java", "-Xmx" + xmx, "-Xss64m", "-XX:+UseParallelGC", "-Djava.io.tmpdir=" + os.path.join(scr.dir, "tmp"),
           "-cp", JAR, "tlc2.TLC", "-workers", str(workers), "-metadir", md, "-config", cfg] + list(extra) + [module + ".tla"]
    e = dict(os.environ)
    e.pop("JAVA_TOOL_OPTIONS", None)
    if env:
        e.update(env)
    try:
        if stdout_path:
            with open(stdout_path, "w") as fh:
                p = subprocess.run(cmd, cwd=scr.dir, env=e, stdout=fh, stderr=subprocess.STDOUT, timeout=timeout)
            return p.returncode, stdout_path
        p = subprocess.run(cmd, cwd=scr.dir, env=e, capture_output=True, text=True, timeout=timeout)
        return p.returncode, p.stdout + p.stderr
    except subprocess.TimeoutExpired:
        raise Infra("TLC timed out after %ds on %s/%s" % (timeout, module, cfg))
    finally:
        shutil.rmtree(md, ignore_errors=True)


STAT_RE = re.compile(r"(\d+) states generated, (\d+) distinct states found")


def tlc_ok(out):
    return "Model checking completed. No error has been found." in out or "Finished computing initial states" in out and "Error" not in out


def tlc_stats(out):
    m = None
    for m in STAT_RE.finditer(out):
        pass
    if not m:
        return 0, 0
    return int(m.group(1)), int(m.group(2))


def strip_noise(out):
    keep = []
    for ln in out.splitlines():
        if ln.startswith(("Linting of", "Semantic processing", "Parsing file", "<<\"ALPHA\"")):
            continue
        keep.append(ln)
    return "\n".join(keep)


def model_check(scr, module, cfg, workers=16, timeout=1800, coverage=False):
    """(M): TLC on the bounded spec.  A property violated at MODEL level means the
    spec itself is inconsistent with its invariants: infrastructure error, not a verdict."""
    t0 = time.time()
    extra = ["-coverage", "1"] if coverage else []
    rc, out = tlc(scr, module, cfg, workers=workers, timeout=timeout, extra=extra)
    out = strip_noise(out)
    if "No error has been found" not in out:
        raise Infra("model checking %s/%s did not complete cleanly (rc=%d):\n%s" % (module, cfg, rc, out[-3000:]))
    gen, dist = tlc_stats(out)
    return dict(module=module, cfg=cfg, transitions=gen, states=dist, wall_s=round(time.time() - t0, 1))


def generate(scr, module, cfg, outname, workers=8, timeout=1800, seed=1, extra=()):
    """(A): TLC emits states / cases as <<"TAG", "json">> lines into a scratch file."""
    path = os.path.join(scr.dir, outname)
    extra = list(extra)
    if "-simulate" in extra:
        workers = 1
        extra += ["-seed", str(seed)]
    rc, _ = tlc(scr, module, cfg, workers=workers, timeout=timeout, stdout_path=path, extra=extra)
    tail = subprocess.run(["tail", "-n", "30", path], capture_output=True, text=True).stdout
    if "No error has been found" not in tail and "Finished in" not in tail:
        raise Infra("generation %s/%s failed (rc=%d):\n%s" % (module, cfg, rc, strip_noise(tail)[-3000:]))
    if "Error:" in tail:
        raise Infra("generation %s/%s reported an error:\n%s" % (module, cfg, strip_noise(tail)[-3000:]))
    return path


def run_driver(drv, args, timeout=3600, env=None):
    e = dict(os.environ)
    if env:
        e.update(env)
    try:
        p = subprocess.run([drv] + args, capture_output=True, text=True, timeout=timeout, env=e)
    except subprocess.TimeoutExpired:
        raise Infra("driver timed out: %s" % " ".join(args))
    if p.returncode != 0:
        whole = p.stdout + p.stderr
        m = re.search(r"^fatal error: .*$", whole, re.M)   # the runtime's own verdict comes first, far above the tail
        raise Infra("driver failed (rc=%d): %s\n%s%s" % (p.returncode, " ".join(args), (m.group(0) + "\n...\n") if m else "", whole[-3000:]))
    return p.stdout


REJ_RE = re.compile(r'^<<"REJ", (\d+), "([^"]*)", "([^"]*)">>')
NOTE_RE = re.compile(r'^<<"NOTE", (\d+), "([^"]*)", "([^"]*)">>')


def validate_chunk(scr, trace_module, cfg, chunk_path, xmx="3g", timeout=1800):
    rc, out = tlc(scr, trace_module, cfg, workers=1, xmx=xmx, timeout=timeout, env={"TRACE_FILE": chunk_path})
    out = strip_noise(out)
    if "No error has been found" not in out:
        raise Infra("trace validation of %s did not complete (rc=%d):\n%s" % (os.path.basename(chunk_path), rc, out[-3000:]))
    rejs, notes = [], []
    for ln in out.splitlines():
        m = REJ_RE.match(ln)
        if m:
            rejs.append((int(m.group(1)), m.group(2), m.group(3)))
        m = NOTE_RE.match(ln)
        if m:
            notes.append((int(m.group(1)), m.group(2), m.group(3)))
    gen, dist = tlc_stats(out)
    return dict(chunk=chunk_path, rejs=rejs, notes=notes, consumed=dist - 1)


def validate(scr, trace_module, cfg, evdir, par=6):
    """(B): every chunk of recorded real events judged by the TLC monitor, in parallel."""
    chunks = sorted(glob.glob(os.path.join(evdir, "ev-*.ndjson")))
    chunks = [c for c in chunks if os.path.getsize(c) > 0]
    res = []
    with cf.ThreadPoolExecutor(max_workers=par) as ex:
        futs = [ex.submit(validate_chunk, scr, trace_module, cfg, c) for c in chunks]
        for f in futs:
            res.append(f.result())
    return res


def line_of(path, n):
    """n-th line (1-based) of a file."""
    with open(path) as fh:
        for i, ln in enumerate(fh, 1):
            if i == n:
                return ln
    raise Infra("line %d not in %s" % (n, path))


def count_lines(path):
    with open(path, "rb") as fh:
        return sum(1 for _ in fh)


KF_RE = re.compile(r"^(known|fixed): property=(\S+) (?:([0-9a-f]{7,40}) )?dev=(\S+) (.*)$")


def load_known():
    out = []
    p = os.path.join(VERIF, "known_findings.txt")
    if os.path.exists(p):
        for ln in open(p):
            ln = ln.strip()
            if not ln or ln.startswith("#"):
                continue
            m = KF_RE.match(ln)
            if not m:
                raise Infra("known_findings.txt: cannot parse line: " + ln)
            out.append(dict(status=m.group(1), property=m.group(2), commit=m.group(3), dev=m.group(4), what=m.group(5)))
    return out


def canon(ev):
    return json.dumps(ev, sort_keys=True)


def write_replay(pid, family, case, event, dev, extra=None):
    os.makedirs(os.path.join(out_root(), "replays"), exist_ok=True)
    body = dict(property=pid, family=family, case=case, event=event, deviation=dev)
    if extra:
        body.update(extra)
    h = hashlib.sha1(canon(dict(case=case, dev=dev)).encode()).hexdigest()[:12]
    path = os.path.join(out_root(), "replays", "%s-%s.json" % (pid, h))
    with open(path, "w") as fh:
        json.dump(body, fh, indent=1)
    return path


FATAL_RE = re.compile(r"^fatal error: (.*)$", re.M)


def crashed(e):
    """the Go runtime's own fatal errors (stack overflow, concurrent map writes, ...) end the driver process:
    returns the message if the Infra exception carries one"""
    m = FATAL_RE.search(str(e))
    return m.group(1) if m else None


def replay_event(drv, family, path, env=None):
    try:
        out = run_driver(drv, [family, "-replay", path], env=env)
    except Infra as e:
        if crashed(e):
            return dict(ev="crash", fatal=crashed(e))
        raise
    for ln in out.splitlines():
        ln = ln.strip()
        if ln.startswith("{"):
            return json.loads(ln)
    raise Infra("replay of %s printed no event" % path)


def judge_single(scr, trace_module, cfg, event):
    """Ask the monitor about one event; returns list of (prop, dev) rejections."""
    p = os.path.join(scr.dir, "single-%d.ndjson" % time.time_ns())
    with open(p, "w") as fh:
        fh.write(json.dumps(event) + "\n")
    r = validate_chunk(scr, trace_module, cfg, p)
    os.remove(p)
    return [(pr, dv) for (_, pr, dv) in r["rejs"]]


def out_root():
    """evidence/ and replays/ live in /verif for /repo; experiments on another tree write under $VERIF_OUT"""
    return os.environ.get("VERIF_OUT") or (VERIF if REPO == "/repo" else tempfile.gettempdir())


def write_evidence(pid, tier, seed, level, coverage, assumptions, wall, violations):
    os.makedirs(os.path.join(out_root(), "evidence"), exist_ok=True)
    ev = dict(property_id=pid, tier=tier, seed=seed, level=level, coverage=coverage,
              assumptions=assumptions, wall_s=round(wall, 1), violations=violations)
    with open(os.path.join(out_root(), "evidence", pid + ".json"), "w") as fh:
        json.dump(ev, fh, indent=1)


def settle(pid, family, trace_module, trace_cfg, scr, drv, evdir, results, extra_replay=None, drv_env=None,
           max_replays=5):
    """Turn the monitor's REJ lines into known-finding hits and reproduced violations."""
    known = {k["dev"]: k for k in load_known() if k.get("status") == "known" and k.get("property") == pid}
    hits, others, viol = {}, {}, []
    cand = {}
    total_rej = 0
    for r in results:
        for (l, prop, dev) in r["rejs"]:
            if prop != pid:
                others[prop + ":" + dev] = others.get(prop + ":" + dev, 0) + 1
                continue
            total_rej += 1
            if dev in known:
                hits[dev] = hits.get(dev, 0) + 1
                continue
            cand.setdefault(dev, []).append((r["chunk"], l))
    unreproduced = []
    xp = os.path.join(evdir, "replay_extra.json")
    if extra_replay is None and os.path.exists(xp):
        extra_replay = json.load(open(xp))
    for dev, lst in cand.items():
        for (chunk, l) in lst[:max_replays]:
            event = json.loads(line_of(chunk, l))
            casefile = chunk.replace("ev-", "case-")
            case = json.loads(line_of(casefile, l))
            # the calls made just before in the same process: a defect that keeps state between calls
            # (a pool, a cache) only shows after them, so a replay runs them first
            prelude = [json.loads(line_of(casefile, k)) for k in range(max(1, l - 6), l)]
            xr = dict(extra_replay or {})
            xr["prelude"] = prelude
            path = write_replay(pid, family, case, event, dev, xr)
            # a step that walks Go maps may depend on the iteration order the runtime picks:
            # the replay is repeated until the rejection shows again (or is given up as unreproduced)
            reproduced = False
            for attempt in range(30):
                again = replay_event(drv, family, path, env=drv_env)
                rej = judge_single(scr, trace_module, trace_cfg, again)
                if any(pr == pid for pr, _ in rej):
                    reproduced = True
                    break
            if reproduced:
                viol.append(dict(dev=dev, replay=path, count=len(lst), replay_attempts=attempt + 1))
                break
            unreproduced.append(path)
            os.remove(path)
    return dict(hits=hits, others=others, violations=viol, unreproduced=unreproduced, rejected=total_rej, known=known)


def report(pid, st):
    for dev, n in sorted(st["hits"].items()):
        log("KNOWN-FINDING: property=%s %s: %s (%d events)" % (pid, dev, st["known"][dev].get("what", ""), n))
    for v in st["violations"]:
        log("VIOLATION property=%s replay=%s" % (pid, v["replay"]))
        log("  deviation=%s rejected_events=%d" % (v["dev"], v["count"]))
    if st["violations"]:
        return 1
    if st["unreproduced"]:
        log("INFRA: %d rejected events did not reproduce on replay: %s" % (len(st["unreproduced"]), st["unreproduced"][:3]))
        return 2
    return 0


def selftest(pid):
    """Binding self-test: the property's quick check must report a violation on a scratch worktree of /repo
    that carries a seeded change known to break the property (seeded/<pid>*/patch.diff), and nothing on the
    unchanged worktree.  Shows that the specification is bound to the code and not vacuous."""
    patches = sorted(glob.glob(os.path.join(VERIF, "seeded", pid + "*", "patch.diff")))
    if not patches:
        raise Infra("no seeded change for %s" % pid)
    ok = True
    for patch in patches:
        meta_file = os.path.join(os.path.dirname(patch), "meta.json")
        if os.path.exists(meta_file) and json.load(open(meta_file)).get("not_claimed_reason"):
            log("selftest %s with %s: skipped, recorded as outside the claimed domain (see its meta.json)" % (pid, os.path.relpath(patch, VERIF)))
            continue
        # the check(s) recorded as catching the change: the property's own, unless its meta.json says that
        # the statement it breaks is a sibling property's and names the check that reported it
        by = [pid]
        if os.path.exists(meta_file):
            runs = json.load(open(meta_file)).get("checks_run", {})
            if runs.get(pid, {}).get("exit") != 1 and any(v.get("exit") == 1 for v in runs.values()):
                by = sorted(k for k, v in runs.items() if v.get("exit") == 1)
        wt = tempfile.mkdtemp(prefix="selftest-")
        shutil.rmtree(wt)
        out = tempfile.mkdtemp(prefix="selftest-out-")
        try:
            subprocess.run(["git", "-C", "/repo", "worktree", "add", "-q", "--detach", wt, "HEAD"], check=True)
            if subprocess.run(["git", "apply", patch], cwd=wt, capture_output=True).returncode != 0:
                log("selftest %s with %s: STALE (the patch does not apply to the current tree)" % (pid, os.path.relpath(patch, VERIF)))
                ok = False
                continue
            env = dict(os.environ, VERIF_REPO=wt, VERIF_OUT=out)
            hit = False
            for q in by:
                p = subprocess.run([os.path.join(VERIF, "bin", "check"), q, "quick"], env=env, capture_output=True, text=True)
                hit = hit or (p.returncode == 1 and "VIOLATION property=%s" % q in p.stdout)
            log("selftest %s with %s: %s%s" % (pid, os.path.relpath(patch, VERIF),
                                             "violation reported" if hit else "NOT DETECTED (rc=%d)" % p.returncode,
                                             "" if by == [pid] else " (by the check of %s)" % ", ".join(by)))
            ok = ok and hit
        finally:
            subprocess.run(["git", "-C", "/repo", "worktree", "remove", "--force", wt])
            shutil.rmtree(wt, ignore_errors=True)
            shutil.rmtree(out, ignore_errors=True)
            shutil.rmtree(os.path.join(BUILD, "alt-" + hashlib.sha1(wt.encode()).hexdigest()[:10]), ignore_errors=True)
    log("SELFTEST %s" % ("OK" if ok else "FAILED"))
    return 0 if ok else 2


def main():
    import props
    if len(sys.argv) < 3:
        print(__doc__)
        return 2
    pid = sys.argv[1]
    if pid not in props.PROPS:
        log("unknown property %s" % pid)
        return 2
    seed = int(os.environ.get("VERIF_SEED", "1") or 1)
    try:
        if sys.argv[2] == "--replay":
            return props.replay(pid, sys.argv[3])
        if sys.argv[2] == "--selftest":
            return selftest(pid)
        tier = os.environ.get("VERIF_TIER") or sys.argv[2]
        if sys.argv[2] in ("quick", "thorough"):
            tier = sys.argv[2]
        return props.run(pid, tier, seed)
    except Infra as e:
        log("INFRA: %s" % e)
        return 2
    except Exception as e:  # any crash of the machinery is infrastructure trouble, never a verdict
        import traceback
        traceback.print_exc()
        log("INFRA: unexpected exception: %r" % e)
        return 2


if __name__ == "__main__":
    sys.exit(main())
