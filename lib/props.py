"""Per-property pipelines.  Each entry says which TLA+ modules are model-checked (M),
which config generates states/cases (A), how the Go driver is invoked on the real
library, and which trace monitor judges the recorded events (B)."""
import json
import os
import time

import vcheck as V

TRUSTED = ["TLC (tla2tools 1.8.0)", "the Go projection of real objects into the event format",
           "encoding/json as a parser of the library's output", "reflect"]


def _t(tier, q, t):
    return q if tier == "quick" else t


PROPS = {}
NOT_YET = {}


def prop(pid, **kw):
    PROPS[pid] = kw


# ---------------------------------------------------------------------------------------------
# C14 schema edits
prop("C14",
     family="schema",
     mc=lambda tier: [("MC_Schema", _t(tier, "MC_Schema_quick.cfg", "MC_Schema_thorough.cfg")),
                      ("MC_Schema", "MC_Schema_three.cfg"), ("MC_Schema", "MC_Schema_self.cfg"),
                      ("MC_Schema", "MC_Schema_conf.cfg")],
     gen=lambda tier: [("MC_Schema", _t(tier, "Gen_Schema_quick.cfg", "Gen_Schema_thorough.cfg")),
                       ("MC_Schema", "Gen_Schema_three.cfg"), ("MC_Schema", "Gen_Schema_self.cfg"),
                       ("MC_Schema", "Gen_Schema_conf.cfg")],
     driver=lambda tier, seed, gen, out: ["schema", "-gen", gen, "-out", out, "-seed", str(seed)] +
     _t(tier, ["-sample", "400", "-walks", "100", "-depth", "40"],
        ["-sample", "4000", "-walks", "2000", "-depth", "60", "-lit"]),
     trace=("Trace_Schema", "Trace_Schema.cfg"),
     required=["AddType:ok", "AddType:err", "RemoveType:ok", "AddAttr:ok", "AddAttr:err", "AddRel:ok", "AddRel:err",
               "AddTwoWayRel:ok", "AddTwoWayRel:err", "RemoveAttr:ok", "RemoveRel:ok", "Check:ok", "names:0", "names:1"],
     level_text="TLC explores the complete state graph of the schema-edit specification over a bounded universe of "
                "names and checks well-formedness, all-or-nothing, remove-absent-is-noop and the two-way "
                "postcondition; every reachable abstract state (a seeded sample in the quick tier) is rebuilt in the "
                "real Schema, every operation of the alphabet is applied to it, and TLC's trace monitor judges "
                "each real call against the same action relation; long random histories are judged step by step.",
     level_note="Bounded: 2-3 type names, 1 attribute name, 1-2 relationship names, <=2-3 types; attribute kinds "
                "sampled. Trusted: TLC, the Go projection of Schema.Types, reflect-free public API only.",
     assumptions=["bounded universe of names (see cfg); attribute kinds sampled (string, *int, invalid)",
                  "uniqueness of names is per map (attributes / relationships), as the API documents"],
     )


# ---------------------------------------------------------------------------------------------
# C15 Schema.Check
prop("C15",
     crash_is_violation=True,
     family="check",
     mc=lambda tier: [("MC_Check", "MC_Check_quick.cfg"), ("MC_Check", "MC_Check_under.cfg"), ("MC_Check", "MC_Check_ft.cfg")] +
     _t(tier, [], [("MC_Check", "MC_Check_thorough.cfg")]),
     gen=lambda tier: [("MC_Check", "Gen_Check_quick.cfg"), ("MC_Check", "Gen_Check_under.cfg"), ("MC_Check", "Gen_Check_ft.cfg")] +
     _t(tier, [], [("MC_Check", "Gen_Check_thorough.cfg")]),
     driver=lambda tier, seed, gen, out: ["check", "-gen", gen, "-out", out, "-seed", str(seed)] +
     _t(tier, ["-sample", "40000", "-random", "5000"], ["-random", "200000"]),
     trace=("Trace_Schema", "Trace_Schema.cfg"),
     required=["Check:clean", "Check:errors", "build:lit", "build:api"],
     level_text="TLC checks an operational transcription of the Check loop against the declarative set of offending "
                "relationships over every schema of a bounded universe (a few hundred thousand two-type schemas with two "
                "relationship names, a universe with empty and foreign FromType values; three-type schemas in the thorough tier), emits each of those schemas, and the driver "
                "builds it as a literal jsonapi.Schema and calls the real Check; TLC's monitor judges the number of "
                "errors, that the schema is unchanged and that nothing panicked. Seeded random 3-5 type schemas "
                "with injected single faults are judged by the same monitor.",
     level_note="Bounded universe of names; Check's messages are not interpreted, only their number (>= number of "
                "offending relationships, = 0 iff none). Trusted: TLC, the Go projection of Schema.Types.",
     assumptions=["map keys equal the relationship's FromName (schemas as the editing API produces them)",
                  "error wording is not part of the property; only the count is judged"],
     )


# ---------------------------------------------------------------------------------------------
# C16 Rel laws and Schema.Rels
prop("C16",
     family="rel",
     mc=lambda tier: [("MC_Rel", _t(tier, "MC_Rel_quick.cfg", "MC_Rel_thorough.cfg"))],
     gen=lambda tier: ("MC_Rel", _t(tier, "MC_Rel_quick.cfg", "MC_Rel_thorough.cfg")),
     driver=lambda tier, seed, gen, out: ["rel", "-gen", gen, "-out", out, "-seed", str(seed)] +
     _t(tier, ["-sample", "4000", "-reps", "2"], ["-sample", "150000", "-reps", "4"]),
     trace=("Trace_Rel", "Trace_Rel.cfg"),
     required=["rel:oneway", "rel:twoway", "rels:nonempty", "rels:through-edits"],
     level_text="TLC proves the C16 laws for the intended normalisation (order on the pair type name, relationship "
                "name) over every relationship of a name universe chosen to contain colliding concatenations "
                "('ab'+'c' vs 'a'+'bc', names with '_'), and that one listing entry per class results; it emits every "
                "relationship and every coherent schema of the bound; the driver evaluates the real Invert / "
                "Normalize / String on each and the real Schema.Rels() for every order of adding the types; the "
                "laws are judged by TLC on the observed values.",
     level_note="Names over 4 symbols, 3-4 type names, 3-5 relationship names, schemas of <=2 types and <=3-4 "
                "relationships. Map iteration order inside Rels() is sampled by repetition. Relationships that are "
                "their own inverse with different cardinalities are outside the domain.",
     assumptions=["relationship and type names are non-empty", "self-inverse relationships with unequal cardinalities excluded"],
     )


# ---------------------------------------------------------------------------------------------
# C19 SoftCollection
prop("C19",
     family="softcol",
     mc=lambda tier: [("MC_SoftCollection", _t(tier, "MC_SoftCollection_quick.cfg", "MC_SoftCollection_thorough.cfg")),
                      ("MC_SoftCollection", "MC_SoftCollection_ptr.cfg")],
     gen=lambda tier: [("MC_SoftCollection", _t(tier, "Gen_SoftCollection_quick.cfg", "Gen_SoftCollection_thorough.cfg")),
                       ("MC_SoftCollection", "Gen_SoftCollection_ptr.cfg")],
     driver=lambda tier, seed, gen, out: ["softcol", "-gen", gen, "-out", out, "-seed", str(seed)] +
     _t(tier, ["-sample", "500", "-walks", "60", "-depth", "40"],
        ["-sample", "6000", "-variants", "2", "-walks", "800", "-depth", "60"]),
     trace=("Trace_SoftCollection", "Trace_SoftCollection.cfg"),
     required=["SetType:ok", "Add:ok", "Add:soft", "Add:wrap", "Remove:ok", "AddAttr:ok", "AddAttr:err", "AddRel:ok",
               "AddRel:err", "SetSrc:ok"],
     level_text="TLC explores the full state graph of the SoftCollection specification (collection type, ordered "
                "snapshots, four source resources: same type, narrower, wider with a duplicate id, conflicting "
                "definitions) and checks typing of stored items, order preservation, snapshot stability and "
                "all-or-nothing; reachable states (sampled in the quick tier) are rebuilt in the real SoftCollection "
                "by replaying their history, every operation of the alphabet is applied, and TLC's monitor judges "
                "the projected collection (type, Len, At(-1..Len+1), Resource(id), every stored field) after each call. "
                "Each case is instantiated with soft or struct-wrapped sources, a rotation of the 13 non-bool "
                "attribute kinds and one of three value tables.",
     level_note="Bounded: <=2 (quick) / <=3 (thorough) stored items, fixed field names. AddAttr with the name of an "
                "existing relationship (or the reverse) is outside the domain. Values are representatives from "
                "concretisation tables (boundary-heavy table 0, seeded tables 1-2).",
     assumptions=["the collection's type has been set", "one name is never both an attribute and a relationship"],
     )


# ---------------------------------------------------------------------------------------------
# C17 / C18 resources through the Resource interface
_res_common = dict(
    family="resource",
    mc=lambda tier: [("MC_Resource", _t(tier, "MC_Resource_d3.cfg", "MC_Resource_d4.cfg"))],
    gen=lambda tier: [("MC_Resource", _t(tier, "Gen_Resource_quick.cfg", "Gen_Resource_d3.cfg")),
                      ("MC_Resource", "Sim_Resource.cfg", ["-simulate", "num=%d" % _t(tier, 40, 600), "-depth", "40"])],
    driver=lambda tier, seed, gen, out: ["resource", "-gen", gen, "-out", out, "-seed", str(seed)] +
    _t(tier, ["-sample", "250"], ["-sample", "6000", "-variants", "2"]),
    trace=("Trace_Resource", "Trace_Resource.cfg"),
    required=["New:ok", "Set:ok", "SetID:ok", "Copy:ok", "NewLike:ok", "TypeCopy:ok", "MutSlice:ok", "Marshal:ok",
              "Filter:ok", "AddField:ok", "RemoveField:ok", "after-making:Copy", "after-making:NewLike", "after-making:TypeCopy", "after-making:both-sides-grow", "Equal:soft-soft", "Equal:soft-wrap", "Equal:wrap-soft",
              "Equal:wrap-wrap"],
    assumptions=["Set values are well-typed (typed or untyped nil only for nullable kinds)",
                 "to-many relationships are compared as sets by the equality laws",
                 "the model store holds at most 3 live objects; histories beyond the breadth-first depth come from "
                 "TLC simulation"],
)
prop("C17",
     level_text="One TLA+ store of live objects with by-value semantics stands for SoftResource and Wrapper alike: TLC "
                "checks, breadth-first to depth 3-4 from seeded histories, that every entry stays complete and "
                "well-typed; it emits the reachable states with their histories and simulated behaviours of depth 25; "
                "the driver replays them on real soft resources and on wrappers around run-time declared structs "
                "(13 kind rotations, 3 value tables), applies every operation of the alphabet, and TLC's monitor "
                "judges Get of every field, Attrs, Rels, type name and id of every live object after each call. "
                "Equal / EqualStrict are judged on ~1150 TLC-generated pairs differing in exactly one aspect, in all "
                "four implementation combinations.",
     level_note="Known finding: Equal ignores attribute names (pinned by TestEqual). Bounded store (3 objects), fixed "
                "field names, representatives from the value tables.",
     **_res_common)
prop("C18",
     level_text="Same specification and traces as C17; the frame condition (no entry other than the one acted on "
                "changes) is an action property of the model and is judged on every recorded real step, where ALL "
                "live objects are projected after each call: Copy, New, Type.Copy followed by Set, field edits, "
                "marshaling, filtering and writes through slices returned by Get on either side.",
     level_note="Sharing through pointers to scalars is not exercised (the property names slices). Bounded store, "
                "representatives from the value tables; byte-string kinds occur at kind rotation 0 (half of the variants).",
     **_res_common)


# ---------------------------------------------------------------------------------------------
# C10 filters
prop("C10",
     family="filter",
     mc=lambda tier: [("MC_Filter", "MC_Filter.cfg")],
     gen=lambda tier: ("MC_Filter", "MC_Filter.cfg"),
     driver=lambda tier, seed, gen, out: ["filter", "-gen", gen, "-out", out, "-seed", str(seed)] +
     _t(tier, ["-tables", "1", "-random", "800"], ["-tables", "4", "-random", "60000"]),
     trace=("Trace_Filter", "Trace_Filter.cfg"),
     required=["leaf:num:soft", "leaf:num:wrap", "leaf:seq:soft", "leaf:seq:wrap", "leaf:bool:soft", "leaf:bool:wrap",
               "leaf:to1:soft", "leaf:toN:wrap", "op:in", "op:has", "op:nope", "tree:soft", "tree:wrap", "tree:deep",
               "verdict:true", "verdict:false", "random"],
     level_text="The specification defines IsAllowed as logic with an explicit lexicographic order on symbol "
                "sequences; TLC checks trichotomy, complement, <=/>= decomposition, transitivity, antisymmetry and "
                "the nil rules on it (ASSUME over the value universe with prefixes and different lengths) and emits "
                "every leaf case (class, nullable, operator in 9, value pair) and and/or tree shape of the bound. "
                "The driver instantiates each leaf for every kind of its class (28 kinds, both cardinalities) on a "
                "soft resource and on a wrapped struct, through order-preserving symbol maps; seeded random pairs "
                "of real 64-bit integers, byte strings, zoned instants and strings are sent with their real byte "
                "sequence (or an independently computed rank) so that TLC itself decides the expected verdict.",
     level_note="The model-level laws are checked on the specification's Leaf (a state-less model: the ASSUMEs are "
                "the model check); the code is bound by judging every recorded IsAllowed verdict. Filter values are "
                "well-typed (typed nil for nil).",
     assumptions=["filter values have the Go type of the field", "string order is byte-wise order of the UTF-8 text"],
     coverage=False,
     )


# ---------------------------------------------------------------------------------------------
# C09 Range
prop("C09",
     crash_is_violation=True,
     family="range",
     mc=lambda tier: [("MC_Range", "MC_Range.cfg")],
     driver=lambda tier, seed, gen, out: ["range", "-out", out, "-seed", str(seed)] +
     _t(tier, ["-n", "6000", "-big", "600"], ["-n", "150000", "-big", "20000"]),
     trace=("Trace_Range", "Trace_Range.cfg"),
     required=["impl:soft", "impl:wrap", "impl:mixed", "coll:resources", "coll:soft", "coll:wrapcol", "rules",
               "filtered", "ids", "nonempty-page", "big", "huge-size", "long-id-list", "blank-in-id-list", "kind:uint64", "kind:*bytes", "kind:*time", "kind:bool"],
     level_text="An operational Range in TLA+ (select, filter with the C10 specification, stable sort by the rules, "
                "page) is model-checked against the declarative RangeOK over some forty thousand cases (all value assignments of "
                "three resources incl. nil, 43 rule lists, sizes 0-3, filters, id lists, all six input orders). The "
                "driver generates seeded cases over all 28 kinds, soft / wrapped / mixed resources, the three "
                "collection implementations, asks the real Range for every page for several input orders, and "
                "TLC's monitor judges the recorded pages with the same RangeOK (membership: ties in any order "
                "unless id is a rule). Random collections of 4-8 resources carry real 64-bit values, byte strings, "
                "zoned instants and strings, ranked by an independent order or sent as byte sequences.",
     level_note="Known finding: rules on uint64 / *uint64 / *[]byte attributes are ignored (pinned by "
                "TestSortResources). Under a '-' rule nil may come first or last (the property fixes nil only for "
                "ascending order). Cases are generated by the driver, not by TLC; TLC is the judge of every event.",
     assumptions=["unique ids, id lists without repetition", "number*size far below 2^63"],
     coverage=False,
     )


# ---------------------------------------------------------------------------------------------
# C06 unmarshaling is faithful
prop("C06",
     family="codec",
     mc=lambda tier: [("MC_Codec", "MC_Codec.cfg")],
     driver=lambda tier, seed, gen, out: ["codec", "-mode", "decode", "-out", out, "-seed", str(seed)] +
     _t(tier, ["-span", "400", "-random", "150", "-n", "600"], ["-span", "70000", "-random", "20000", "-n", "40000"]),
     trace=("Trace_Codec", "Trace_Codec.cfg"),
     required=["accept", "reject", "via:attr", "via:soft", "via:wrap", "cls:int", "cls:frac", "cls:exp", "cls:null",
               "cls:true", "cls:str", "cls:time", "cls:b64", "cls:b64nc", "cls:arr", "cls:obj", "full:accept",
               "full:reject", "shape:ident", "shape:list", "shape:null", "shape:identbadtype", "col:accept"],
     level_text="The decode table (kind x nullable x JSON literal class -> allowed outcomes) is a TLA+ operator; "
                "integers are (anchor, offset) pairs so that every width boundary +-2 up to 2^70 and the 8/16-bit "
                "ranges are exact in TLC's 32-bit arithmetic. TLC checks an intended decoder against it (unique "
                "outcome for canonical integers, no accepted value out of range, encode/decode round trip, nested "
                "ranges). The driver offers every literal of the vocabulary to all 28 kinds through "
                "Attr.UnmarshalToType and through UnmarshalResource on soft and struct-backed types, exhaustively "
                "-70000..70000 for the 8- and 16-bit kinds in the thorough tier, reads the stored value with math/big, "
                "encoding/base64 and time.Parse, and TLC judges each outcome.",
     level_note="Known finding: null accepted for non-nullable bytes. Fraction / exponent literals may be refused or "
                "accepted as the integer they denote; -0 may be refused; a JSON array offered to a bytes attribute "
                "is not judged. A panic is charged to C05, not C06.",
     assumptions=["literals are valid JSON values", "string literals are classified by independent decoders (time.Parse, encoding/base64)"],
     coverage=False,
     )


# ---------------------------------------------------------------------------------------------
# C02 C03 C04 C11 documents
def _doc(tier, seed, gen, out, extra_q=(), extra_t=()):
    return ["doc", "-out", out, "-seed", str(seed)] + _t(tier, ["-n", "2500", "-walks", "400", "-reps", "8"] + list(extra_q),
                                                          ["-n", "60000", "-walks", "20000", "-reps", "24"] + list(extra_t))


_doc_common = dict(
    family="doc",
    mc=lambda tier: [("MC_Document", "MC_Document.cfg")],
    trace=("Trace_Document", "Trace_Document.cfg"),
    required=["kind:null", "kind:one", "kind:many", "kind:ident", "kind:idents", "kind:errors", "coll:resources",
              "coll:soft", "coll:wrapcol", "impl:soft", "impl:wrap", "included", "attrs-exposed", "rel-data:absent",
              "rel-data:null", "rel-data:one", "rel-data:many", "include:added", "include:skipped", "include:resources",
              "member-with-wider-type", "served-a-narrower-request-before", "while-others-marshal", "dupname:ok", "primary-cannot-be-encoded", "included-holds-a-primary-resource"],
    assumptions=["fixed two-type schema (t1: 2 attributes, to-one, to-many; t2: attribute, to-one), soft or struct-backed",
                 "documents are generated by the driver (seeded), TLC judges every recorded document",
                 "attribute values are representatives from the value tables; ids, prefixes and meta come from small "
                 "vocabularies containing characters JSON and URLs must escape"],
    coverage=False,
)
prop("C02", driver=_doc, crash_is_violation=True,
     level_text="TLC model-checks an operational MarshalDocument/Include over some thirty-five thousand documents (structure, selection, "
                "no leak, unique linkage); the driver builds seeded documents of every primary-data kind and "
                "container with the real library, marshals, unmarshals against the same schema and projects both "
                "sides; TLC's monitor judges RoundTrip: same shape, same resources in order with equal selected "
                "values, same included pairs with equal values, JSON-equal meta, same error objects and no data.",
     level_note="A SoftCollection / WrapperCollection comes back as *Resources (one Go container per JSON shape): "
                "only the shape is compared. Identifier documents come back as resources with that type and id.",
     **_doc_common)
prop("C03", driver=_doc,
     level_text="Same specification and traces; WellFormed (top-level object, jsonapi, self link, never data with "
                "errors, included only with data, every resource object with string type/id and the self link made of "
                "prefix/type/id, every relationship object with self and related links and data null / identifier / "
                "list) and NoDupLinkage are judged on the parsed output of every real MarshalDocument; "
                "Document.Include is an action (IncludeRes) model-checked for unique linkage and judged on seeded "
                "walks of Include calls over every container, in particular *Resources.",
     level_note="Link texts are recomputed by the driver from prefix, type and id (string concatenation) and reported "
                "as booleans; ids contain JSON-escaped, non-ASCII and URL-reserved characters.",
     **_doc_common)
prop("C04", driver=lambda tier, seed, gen, out: _doc(tier, seed, gen, out, ["-systematic"], ["-systematic"]),
     level_text="Same specification and traces; Selected is judged on every resource object of every real output: "
                "attribute names = type's attributes in the selection, relationship names likewise, data present iff "
                "requested, ids = the related ids with the target type, null for an empty to-one. Besides the seeded "
                "documents, every subset of t1's four fields x {plain, +id, +unknown, duplicate, missing entry, empty "
                "entry} x five relationship-data requests x three positions (single, collection member among other "
                "types, included beside another type) is enumerated.",
     level_note="The no-leak law is also an invariant of the operational model (MC_Document InvNoLeak).",
     **_doc_common)
prop("C11", driver=_doc,
     mc_extra=[("MC_MarshalSched", "MC_MarshalSched_1.cfg"), ("MC_MarshalSched", "MC_MarshalSched_2.cfg"),
               ("MC_MarshalSched", "MC_MarshalSched_3.cfg")],
     level_text="Same specification and traces; each document is marshaled 8 (quick) / 24 (thorough) times plus from "
                "three fresh builds - two of them with to-many ids, selection names, relationship-data names and "
                "included resources permuted - and all outputs must be byte-identical; everything readable from the "
                "resources and the URL is snapshotted before and after (to-many ids and listed names as multisets).",
     level_note="Go randomises the start of every map iteration, so repetition samples the iteration orders; they "
                "cannot be forced from outside the runtime. The model-level exploration of all iteration orders is in "
                "MC_MarshalSched (see DESIGN.md).",
     **_doc_common)


# ---------------------------------------------------------------------------------------------
# C07 C08 URLs
_url_common = dict(
    family="url",
    mc=lambda tier: [("MC_URL", "MC_URL.cfg")],
    gen=lambda tier: ("MC_URL", "MC_URL.cfg"),
    driver=lambda tier, seed, gen, out: ["url", "-gen", gen, "-out", out, "-seed", str(seed)] +
    _t(tier, ["-n", "3000", "-mut", "800"], ["-n", "400000", "-mut", "100000"]),
    trace=("Trace_URL", "Trace_URL.cfg"),
    required=["url:ok", "url:err", "url:include-kept", "url:collection", "chain", "chain:special", "mutated", "stray-dot", "chain:while-others-print"],
    assumptions=["fixed schema: ta (2 attributes, relationships r and rs - one a string prefix of the other - and t), tb, tc "
                 "without any field, and td whose relationship q has the name of tb's and another target; soft or struct-backed", "request tokens are obtained from generated text with net/url"],
    coverage=False,
)
prop("C07",
     crash_is_violation=True,
     level_text="The specification states Consistent(request, URL) - resource type in the schema, field selection per "
                "type (only its fields or id, no duplicate, all fields by default), inclusion paths as chains of the "
                "schema's relationships with every valid requested path kept unless a longer requested one extends "
                "it, sorting rules keeping the caller's valid rules in order and containing id - and an intended "
                "parser; TLC checks the parser against it on some ten thousand requests and emits the component vocabularies "
                "(paths, field selections, rule lists, include lists, filter and page classes; the counts are in the evidence file). The "
                "driver renders every component against every path, seeded combinations of all of them and mutated "
                "raw texts (malformed escapes, stray separators) in several encodings, parameter orders and split "
                "forms, calls NewURLFromRaw under recover on soft and struct-backed schemas, and TLC judges each "
                "projected result.",
     level_note="Known finding: an invalid include that follows another invalid one is kept (pinned by "
                "TestParseParams). A panic, or an error together with a URL, is a rejection.",
     **_url_common)
prop("C08",
     crash_is_violation=True,
     level_text="Same specification and vocabulary; for every accepted URL the chain parse -> String() -> parse -> "
                "String() is run on the real code and judged step by step (the text parses, same fragments, type, id, "
                "relationship, field sets, sorting rules, page parameters of collection URLs, filter label / tree, "
                "same text again), and four variants of the raw URL (parameters reordered, names inside fields and "
                "include lists reordered, empty items inserted, other encoding) must give the same String(). Ids, "
                "filter labels, filter JSON (nested and/or trees, string/number/bool/null values) and page values "
                "contain space, &, ?, #, %, +, =, quotes and non-ASCII text.",
     level_note="Known finding: a field-selection entry without any field is written as the malformed "
                "'fields%5Btype%' (pinned by golden files). The comparison of the two URLs is done by the driver "
                "(reflect.DeepEqual per component) and reported to TLC as booleans.",
     **_url_common)


# ---------------------------------------------------------------------------------------------
# C20 struct declarations
prop("C20",
     crash_is_violation=True,
     family="struct",
     mc=lambda tier: [("MC_Struct", _t(tier, "MC_Struct_quick.cfg", "MC_Struct_thorough.cfg"))],
     gen=lambda tier: ("MC_Struct", _t(tier, "MC_Struct_quick.cfg", "MC_Struct_thorough.cfg")),
     driver=lambda tier, seed, gen, out: ["struct", "-gen", gen, "-out", out, "-seed", str(seed)] +
     _t(tier, [], ["-sample", "150000"]),
     trace=("Trace_Struct", "Trace_Struct.cfg"),
     required=["check:ok", "check:err", "accepted-with-fields"],
     level_text="A struct declaration is an abstract shape (ID variant in 6, fields with Go type in 9, json tag in 4, "
                "api tag in 9 forms). The specification gives Sane(shape) and Expected(shape), the type the tags "
                "declare; TLC checks that Expected is well defined for every sane shape of the bound and emits every "
                "shape; the driver declares each struct type at run time with reflect.StructOf and the shape's tags, "
                "runs Check, BuildType and Wrap (pointer and value), New, Copy, Get/Set of every declared field with a "
                "value of its type, Set of the id and MarshalResource under recover, and TLC judges: accepted => no "
                "panic and built type = wrapper type = Expected; rejected => BuildType errs and Wrap refuses.",
     level_note="reflect.StructOf cannot declare named field types or methods (not needed by the property). Quick: all "
                "shapes with <=1 field and the listed two-field families (a few thousand); thorough: adds a seeded sample of the two-field shapes.",
     assumptions=["exported fields only", "Check is called on a value of the struct type; Wrap and BuildType on pointer and value"],
     coverage=False,
     )


# ---------------------------------------------------------------------------------------------
# C12 shared schema
prop("C12",
     family="shared", race=True,
     mc=lambda tier: [("MC_SharedSchema", "MC_SharedSchema_2x1.cfg")],
     gen=lambda tier: [("MC_SharedSchema", "MC_SharedSchema_2x1.cfg"),
                       ("MC_SharedSchema", "Sim_SharedSchema.cfg", ["-simulate", "num=%d" % _t(tier, 150, 4000), "-depth", "200"])],
     driver=lambda tier, seed, gen, out: ["shared", "-gen", gen, "-out", out, "-seed", str(seed)] +
     _t(tier, ["-reps", "1"], ["-reps", "5"]),
     trace=("Trace_SharedSchema", "Trace_SharedSchema.cfg"),
     required=["footprint:Rels", "footprint:ParseURL", "footprint:UnmarshalDocument", "footprint:NewResource",
               "sched:overlapping", "sched:sequential"],
     level_text="The schema's memory is five abstract locations and every listed operation has a footprint; TLC "
                "explores every interleaving of Begin/End of two processes (all 81 ordered pairs, 486 schedules) and "
                "checks that no two overlapping operations conflict and that the schema never changes, and exhibits "
                "the two-process counterexample under the pinned code's footprint (Rels writing its cache). The "
                "footprint table is checked against the code by running each operation alone between deep snapshots "
                "holding content and identity of the Types slice, every map and every unexported field. Every "
                "TLC-generated schedule - plus simulated schedules of 4 processes x 3 operations - is replayed in a child "
                "process built with -race: a controller releases and awaits one goroutine per process in schedule "
                "order, so operations are unordered by happens-before exactly when they overlap in the schedule.",
     level_note="Instruction-level interleaving is the Go scheduler's; what is controlled is happens-before, which is "
                "what the race detector judges. Race reports are counted only when they contain a frame of the "
                "library; a report without one is an infrastructure error.",
     assumptions=["the race detector's shadow memory keeps the conflicting access (schedules are repeated in the thorough tier)",
                  "every goroutine owns its inputs, built before the start gate"],
     trusted=["the Go race detector"],
     coverage=False,
     )


# ---------------------------------------------------------------------------------------------
# C01 C05 C13 codec payload modes
_codec_common = dict(family="codec", mc=lambda tier: [("MC_Codec", "MC_Codec.cfg")],
                     trace=("Trace_Codec", "Trace_Codec.cfg"), coverage=False)
prop("C01",
     driver=lambda tier, seed, gen, out: ["codec", "-mode", "roundtrip", "-out", out, "-seed", str(seed), "-n",
                                          _t(tier, "250", "40000")],
     required=["rt:soft:resource", "rt:soft:document", "rt:wrap:resource", "rt:wrap:document", "rt:zero", "rt:nil",
               "rt:table", "rt:random"],
     level_text="Model level: the decode table accepts the literal the library writes for every in-range value of "
                "every integer kind and returns that value (MC_Codec InvRoundTrip, anchors +-2 up to 2^64). Code "
                "level: resources of a type holding all 28 attribute kinds, a to-one and a to-many relationship - "
                "struct-backed and soft, in schemas mixing both flavours - are filled with zero values, nil pointers, "
                "the boundary tables and seeded random values (full 64-bit range, NUL / HTML / multi-byte strings, "
                "zoned sub-second instants in years 1..9999, byte strings, ids with characters JSON must escape), "
                "marshaled with all fields and all relationship data through MarshalResource and MarshalDocument, "
                "unmarshaled against the same schema and compared field by field by independent means; TLC judges "
                "every recorded round trip.",
     level_note="Value fidelity inside a class of values is exploration (sampling), as DESIGN.md section 8 says: TLC's "
                "part is the table and the verdict over the recorded booleans, the comparison itself is the "
                "driver's (math/big, bytes, time.Equal).",
     assumptions=["a non-nil pointer to a nil byte slice is outside the domain", "ids and strings are valid UTF-8"],
     **_codec_common)
prop("C05",
     crash_is_violation=True,
     driver=lambda tier, seed, gen, out: ["codec", "-mode", "robust", "-out", out, "-seed", str(seed), "-n",
                                          _t(tier, "3000", "1500000")],
     required=["out:ok", "out:err", "cls:json", "cls:notjson", "origin:slot", "origin:prefix", "origin:random",
               "origin:deep", "origin:edit", "origin:tiny", "origin:after-removal", "origin:large"] + ["home:%s:ok" % e for e in
                                                ["UnmarshalDocument", "UnmarshalResource", "UnmarshalPartialResource",
                                                 "UnmarshalCollection", "UnmarshalIdentifier", "UnmarshalIdentifiers",
                                                 "NewRequestPOST", "NewRequestPATCH"]] + ["entry:" + e for e in
                                                 ["UnmarshalDocument", "UnmarshalResource", "UnmarshalPartialResource",
                                                  "UnmarshalCollection", "UnmarshalIdentifier", "UnmarshalIdentifiers",
                                                  "NewRequestPOST", "NewRequestPATCH", "NewRequestGET"]],
     level_text="The specification states FeedOK for one call of an entry point on a byte string: a result or an "
                "error, never both, never a panic, an error for anything that is not JSON, and a result that conforms "
                "to the schema (type in the schema, every attribute of exactly the declared Go type or nil if "
                "nullable, to-one a string, to-many a string slice); DecodeRobust says the same of one attribute "
                "decode. The driver feeds every entry point (9, incl. NewRequest with POST / PATCH / GET) with seven "
                "valid payload trees, every single slot of each replaced by each of the six JSON kinds or removed "
                "(about 2,000 trees), unknown / missing types, unknown fields, duplicate keys, every strict prefix, "
                "nesting-depth bombs, and seeded bit flips, splices, deletions and random bytes; TLC judges each call.",
     level_note="Known finding: a bytes attribute that is not a base64 string panics (pinned by "
                "TestAttrUnmarshalToType). The all-bytes quantifier is explored by seeded corruption, not enumerated.",
     assumptions=["schema non-nil", "conformance is computed by the driver with reflect on the returned resources"],
     **_codec_common)
prop("C13",
     driver=lambda tier, seed, gen, out: ["codec", "-mode", "partial", "-out", out, "-seed", str(seed), "-n",
                                          _t(tier, "1500", "150000")],
     required=["full:accept", "full:reject", "part:accept", "part:reject", "shape:absent", "shape:nodata", "shape:null",
               "shape:ident", "shape:list", "shape:badshape", "impl:soft", "impl:wrap", "unknownrel:nodata", "unknownrel:ident", "trailing", "unknown-type-bare", "shape:listbadtail", "shape:listbadnoid", "numeric-id", "shape:badlinks-or-meta", "selfpair:accept", "ptype:accept", "ptype:reject"],
     level_text="PartialOK: accepted iff full unmarshaling accepts; the result's type has the schema type's name, "
                "exactly the attributes present in the payload and exactly the relationships whose object carries a "
                "data member (explicit null included), each with the schema's definition and the value full "
                "unmarshaling gives. The driver builds payloads over the all-kinds type: every single attribute "
                "alone, seeded subsets, explicit nulls, out-of-range and unknown members, and all 49 combinations of "
                "relationship-object shapes (absent, links/meta only, data null, identifier, list with repeats, "
                "wrong shape, identifier of another type) on soft and struct-backed schemas; TLC judges each.",
     level_note="Values are compared with full unmarshaling's by the driver; key sets are judged by TLC.",
     assumptions=["payloads are resource objects of the all-kinds type"],
     **_codec_common)


def run(pid, tier, seed):
    P = PROPS[pid]
    if "run" in P:
        return P["run"](pid, tier, seed)
    return run_family(pid, tier, seed)


def run_family(pid, tier, seed):
    P = PROPS[pid]
    t0 = time.time()
    scr = V.Scratch(pid)
    try:
        drv = V.build_driver()
        if P.get("race"):
            racebin = V.build_driver(race=True)
        mcs = []
        for (mod, cfg) in list(P["mc"](tier)) + list(P.get("mc_extra", [])):
            mcs.append(V.model_check(scr, mod, cfg, coverage=(tier == "thorough" and P.get("coverage", True))))
        gen_path = ""
        if P.get("gen"):
            g = P["gen"](tier)
            if isinstance(g, tuple):
                g = [g]
            paths = [V.generate(scr, x[0], x[1], "gen-%d.out" % i, seed=seed, extra=(x[2] if len(x) > 2 else ()))
                     for i, x in enumerate(g)]
            gen_path = ",".join(paths)
        evdir = scr.sub("ev")
        env = dict(VERIF_SEED=str(seed), VERIF_TIER=tier)
        if P.get("race"):
            env["VERIF_RACE_DRIVER"] = racebin
        try:
            V.run_driver(drv, P["driver"](tier, seed, gen_path, evdir), env=env)
        except V.Infra as e:
            # the process died of a fatal error of the Go runtime inside a case: if the case named in
            # inflight.json does it again on its own, the code under test did not return (a violation of the
            # properties that say "returns without panicking"); otherwise it stays an infrastructure problem
            inflight = os.path.join(evdir, "inflight.json")
            if not (V.crashed(e) and P.get("crash_is_violation") and os.path.exists(inflight)):
                raise
            case = json.load(open(inflight))
            path = V.write_replay(pid, P["family"], case, dict(ev="crash", fatal=V.crashed(e)), "NONE")
            # (a case that runs goroutines of its own dies with some probability only: it is given several tries)
            for attempt in range(15):
                again = V.replay_event(drv, P["family"], path, env=env)
                if again.get("ev") == "crash":
                    break
            if again.get("ev") != "crash":
                os.remove(path)
                raise V.Infra("the driver died (%s) but the case in flight does not do it again on its own" % V.crashed(e))
            V.log("VIOLATION property=%s replay=%s" % (pid, path))
            V.log("  deviation=NONE the process died in this case: fatal error: %s" % again["fatal"])
            V.write_evidence(pid, tier, seed, "model_checking", dict(driver_crashed=again["fatal"], checker_cmd="bin/check %s %s" % (pid, tier)),
                             P.get("assumptions", []), time.time() - t0, 1)
            return 1
        for gp in gen_path.split(","):
            if gp:
                os.remove(gp)
        stats = json.load(open(os.path.join(evdir, "stats.json")))
        missing = [c for c in P.get("required", []) if stats["classes"].get(c, 0) == 0]
        forbidden = [c for c in stats["classes"] if c.startswith("home:") and not c.endswith(":ok")]
        if forbidden and not os.environ.get("VERIF_REPO"):
            # on the repository itself a base payload refused by its own entry point means the corpus is stale
            raise V.Infra("base payloads refused by their own entry point: %s" % forbidden)
        tmod, tcfg = P["trace"]
        results = V.validate(scr, tmod, tcfg, evdir)
        consumed = sum(r["consumed"] for r in results)
        if consumed != stats["events"]:
            raise V.Infra("monitor consumed %d of %d events" % (consumed, stats["events"]))
        st = V.settle(pid, P["family"], tmod, tcfg, scr, drv, evdir, results, drv_env=env)
        rc = V.report(pid, st)
        if missing and rc != 1:
            # (a reproduced violation is reported even when the code under test made a class of outcomes
            # disappear; without one, a run that never saw a required class has shown nothing)
            raise V.Infra("vacuous run: outcome classes never observed: %s" % missing)
        notes = {}
        for r in results:
            for (_, pr, what) in r["notes"]:
                notes[pr + ":" + what] = notes.get(pr + ":" + what, 0) + 1
        cov = dict(
            states=sum(m["states"] for m in mcs),
            transitions=sum(m["transitions"] for m in mcs),
            traces_validated_against_impl=stats["events"] - st["rejected"] - sum(st["others"].values()),
            samples=stats["samples"][:4],
            evaluations=stats["calls"],
            distinct_nontrivial=stats["distinct"],
            rule=stats["rule"],
            exhaustive=bool(stats.get("exhaustive")),
            model_runs=mcs,
            events_judged=stats["events"],
            events_rejected=st["rejected"],
            known_findings_hit=st["hits"],
            rejections_attributed_to_other_properties=st["others"],
            outcome_classes=stats["classes"],
            abstract_states_reached_in_real_code=stats.get("model_states", 0),
            drift_notes=notes,
            driver_notes=stats.get("notes", []),
            checker_cmd="bin/check %s %s" % (pid, tier),
            trusted_base=TRUSTED + P.get("trusted", []),
        )
        if rc != 2:
            V.write_evidence(pid, tier, seed, "model_checking", cov, P.get("assumptions", []), time.time() - t0,
                             len(st["violations"]))
        if rc == 0:
            V.log("OK property=%s tier=%s model_states=%d events=%d rejected=%d known=%s wall=%.0fs" % (
                pid, tier, cov["states"], stats["events"], st["rejected"], dict(st["hits"]), time.time() - t0))
        return rc
    finally:
        scr.cleanup()


def replay(pid, path):
    """Re-execute a saved replay file against the current tree and have TLC judge it again."""
    P = PROPS[pid]
    scr = V.Scratch(pid)
    try:
        drv = V.build_driver()
        env = {}
        if P.get("race"):
            env["VERIF_RACE_DRIVER"] = V.build_driver(race=True)
        ev = V.replay_event(drv, P["family"], path, env=env)
        if ev.get("ev") == "crash":
            V.log(json.dumps(ev))
            V.log("VIOLATION property=%s replay=%s" % (pid, path))
            V.log("  deviation=NONE the process died in this case: fatal error: %s" % ev["fatal"])
            return 1
        tmod, tcfg = P["trace"]
        rej = V.judge_single(scr, tmod, tcfg, ev)
        V.log(json.dumps(ev))
        mine = [dv for pr, dv in rej if pr == pid]
        known = {k["dev"]: k for k in V.load_known() if k.get("status") == "known" and k.get("property") == pid}
        if mine and all(dv in known for dv in mine):
            for dv in sorted(set(mine)):
                V.log("KNOWN-FINDING: property=%s %s: %s" % (pid, dv, known[dv].get("what", "")))
            return 0
        if mine:
            V.log("VIOLATION property=%s replay=%s" % (pid, path))
            V.log("  deviation=%s" % [dv for dv in mine if dv not in known][0])
            return 1
        V.log("OK replay accepted by the specification")
        return 0
    finally:
        scr.cleanup()
