#!/usr/bin/env python3
"""Growth families: parts of the specification that cover behaviour outside the twenty listed properties.
usage: bin/grow <family> [quick|thorough]          (families: G01 LiveType, G02 Collections, G03 Request, G04 ErrorObjects, G05 MetaHolders)

They are run with the same three uses of TLC as the property checks - (M) model checking, (A) generation of
histories, (B) a monitor that judges what the real code did - but they decide no listed property: nothing here
is registered in MANIFEST.json, and no VIOLATION line is ever printed.  Lines printed:
  OBSERVATION family=<id> <deviation>: <what>            a named deviation listed in growth/observations.txt (exit 0)
  DIVERGENCE family=<id> replay=<path>                   the code parted from the model of what it does (exit 1)
exit 2: infrastructure problem."""
import json, os, re, sys, time

sys.path.insert(0, os.path.dirname(os.path.abspath(__file__)))
import vcheck as V

OBS_RE = re.compile(r"^observation: family=(\S+) dev=(\S+) (.*)$")


def observations(fam):
    out = {}
    p = os.path.join(V.VERIF, "growth", "observations.txt")
    for ln in open(p):
        m = OBS_RE.match(ln.strip())
        if m and m.group(1) == fam:
            out[m.group(2)] = m.group(3)
    return out


def expect_counterexample(scr, module, cfg, invariant):
    """TLC must refute the invariant: the counterexample IS the finding at design level."""
    rc, out = V.tlc(scr, module, cfg, workers=8, timeout=900)
    out = V.strip_noise(out)
    if "Invariant %s is violated" % invariant not in out:
        raise V.Infra("%s/%s: TLC was expected to refute %s and did not:\n%s" % (module, cfg, invariant, out[-2000:]))
    steps = [ln for ln in out.splitlines() if ln.startswith("State ")]
    hist = re.findall(r'op \|-> "(\w+)"', out.split("State %d:" % len(steps))[-1]) if steps else []
    return dict(module=module, cfg=cfg, refuted=invariant, counterexample_length=len(steps) - 1, last_history=hist)


def g01(tier, seed):
    t0 = time.time()
    scr = V.Scratch("G01")
    try:
        drv = V.build_driver()
        mcs = [V.model_check(scr, "MC_LiveType", V_t(tier, "MC_LiveType.cfg", "MC_LiveType_deep.cfg"))]
        refuted = [expect_counterexample(scr, "MC_LiveType", "MC_LiveType_promise.cfg", "InvPromise"),
                   expect_counterexample(scr, "MC_LiveType", "MC_LiveType_typed.cfg", "InvTyped")]
        gen = V.generate(scr, "MC_LiveType", V_t(tier, "Gen_LiveType.cfg", "Gen_LiveType_deep.cfg"), "gen-0.out", seed=seed)
        evdir = scr.sub("ev")
        V.run_driver(drv, ["live", "-gen", gen, "-out", evdir, "-seed", str(seed)] +
                     V_t(tier, ["-sample", "4000", "-walks", "300"], ["-walks", "20000", "-depth", "40"]))
        os.remove(gen)
        stats = json.load(open(os.path.join(evdir, "stats.json")))
        need = ["TAdd:ok", "TAdd:err", "TRemove:ok", "RAdd:ok", "RRemove:ok", "Set:ok", "Read:ok", "reset:ok"]
        missing = [c for c in need if not stats["classes"].get(c)]
        if missing:
            raise V.Infra("vacuous run: never observed: %s" % missing)
        results = V.validate(scr, "Trace_LiveType", "Trace_LiveType.cfg", evdir)
        consumed = sum(r["consumed"] for r in results)
        if consumed != stats["events"]:
            raise V.Infra("monitor consumed %d of %d events" % (consumed, stats["events"]))
        known = observations("G01")
        hits, div = {}, []
        for r in results:
            for (l, fam, dev) in r["rejs"]:
                if dev in known:
                    hits[dev] = hits.get(dev, 0) + 1
                else:
                    div.append((r["chunk"], l, dev))
        rc = 0
        for dev, n in sorted(hits.items()):
            V.log("OBSERVATION family=G01 %s: %s (%d reads)" % (dev, known[dev], n))
        if div:
            chunk, l, dev = div[0]
            # the replay file is the whole history the event belongs to
            lines = open(chunk).read().splitlines()
            start = max(i for i in range(l) if json.loads(lines[i])["ev"] == "reset")
            hist = [json.loads(x) for x in lines[start:l]]
            os.makedirs(os.path.join(V.out_root(), "replays"), exist_ok=True)
            path = os.path.join(V.out_root(), "replays", "G01-divergence.json")
            json.dump(dict(family="G01", deviation=dev, history=hist), open(path, "w"), indent=1)
            V.log("DIVERGENCE family=G01 replay=%s" % path)
            V.log("  %d recorded calls are not what the model of the lazy design does (first: line %d of %s, %s)" % (
                len(div), l, os.path.basename(chunk), dev))
            rc = 1
        ev = dict(family="G01", tier=tier, seed=seed, model_runs=mcs, refuted_as_expected=refuted,
                  histories=stats["histories"], events_judged=stats["events"], outcome_classes=stats["classes"],
                  exhaustive_over_emitted_histories=stats["exhaustive"], observations_hit=hits, divergences=len(div),
                  wall_s=round(time.time() - t0, 1), cmd="bin/grow G01 %s" % tier)
        if not os.environ.get("VERIF_REPO"):
            os.makedirs(os.path.join(V.VERIF, "growth"), exist_ok=True)
            json.dump(ev, open(os.path.join(V.VERIF, "growth", "G01.json"), "w"), indent=1)
        if rc == 0:
            V.log("OK family=G01 tier=%s model_states=%d histories=%d events=%d observations=%s wall=%.0fs" % (
                tier, sum(m["states"] for m in mcs), stats["histories"], stats["events"], hits, time.time() - t0))
        return rc
    finally:
        scr.cleanup()


def g02(tier, seed):
    """Resources and WrapperCollection as ordered lists: self-contained events, every operation on every state."""
    t0 = time.time()
    scr = V.Scratch("G02")
    try:
        drv = V.build_driver()
        mcs = [V.model_check(scr, "MC_Collections", "MC_Collections.cfg")]
        gen = V.generate(scr, "MC_Collections", "Gen_Collections.cfg", "gen-0.out", seed=seed)
        evdir = scr.sub("ev")
        V.run_driver(drv, ["cols", "-gen", gen, "-out", evdir])
        os.remove(gen)
        stats = json.load(open(os.path.join(evdir, "stats.json")))
        need = ["%s:%s:ok" % (i, o) for i in ("resources", "wrapcol") for o in ("Add", "At", "Len", "GetType", "Wire")]
        missing = [c for c in need if not stats["classes"].get(c)]
        if missing:
            raise V.Infra("vacuous run: never observed: %s" % missing)
        results = V.validate(scr, "Trace_Collections", "Trace_Collections.cfg", evdir)
        if sum(r["consumed"] for r in results) != stats["events"]:
            raise V.Infra("monitor did not consume every event")
        known = observations("G02")
        hits, div = {}, []
        for r in results:
            for (l, fam, dev) in r["rejs"]:
                if dev in known:
                    hits[dev] = hits.get(dev, 0) + 1
                else:
                    div.append((r["chunk"], l, dev))
        for dev, n in sorted(hits.items()):
            V.log("OBSERVATION family=G02 %s: %s (%d calls)" % (dev, known[dev], n))
        rc = 0
        if div:
            chunk, l, dev = div[0]
            os.makedirs(os.path.join(V.out_root(), "replays"), exist_ok=True)
            path = os.path.join(V.out_root(), "replays", "G02-divergence.json")
            json.dump(dict(family="G02", deviation=dev, event=json.loads(V.line_of(chunk, l)),
                           case=json.loads(V.line_of(chunk.replace("ev-", "case-"), l))), open(path, "w"), indent=1)
            V.log("DIVERGENCE family=G02 replay=%s" % path)
            V.log("  %d recorded calls are not what the documentation (or a listed observation) says" % len(div))
            rc = 1
        ev = dict(family="G02", tier=tier, seed=seed, model_runs=mcs, events_judged=stats["events"], outcome_classes=stats["classes"],
                  exhaustive=True, observations_hit=hits, divergences=len(div), wall_s=round(time.time() - t0, 1), cmd="bin/grow G02 %s" % tier)
        if not os.environ.get("VERIF_REPO"):
            json.dump(ev, open(os.path.join(V.VERIF, "growth", "G02.json"), "w"), indent=1)
        if rc == 0:
            V.log("OK family=G02 tier=%s model_states=%d events=%d observations=%s wall=%.0fs" % (
                tier, sum(m["states"] for m in mcs), stats["events"], hits, time.time() - t0))
        return rc
    finally:
        scr.cleanup()


def one_shot(fam, mc, gen, drv_args, trace, need, what):
    """A family of self-contained events: (M) model check, (A) cases from TLC, the driver, (B) the monitor."""
    def run(tier, seed):
        t0 = time.time()
        scr = V.Scratch(fam)
        try:
            drv = V.build_driver()
            mcs = [V.model_check(scr, mc[0], mc[1])]
            g = V.generate(scr, gen[0], gen[1], "gen-0.out", seed=seed)
            evdir = scr.sub("ev")
            V.run_driver(drv, drv_args + ["-gen", g, "-out", evdir])
            os.remove(g)
            stats = json.load(open(os.path.join(evdir, "stats.json")))
            missing = [c for c in need if not stats["classes"].get(c)]
            if missing:
                raise V.Infra("vacuous run: never observed: %s" % missing)
            results = V.validate(scr, trace[0], trace[1], evdir)
            if sum(r["consumed"] for r in results) != stats["events"]:
                raise V.Infra("monitor did not consume every event")
            known = observations(fam)
            hits, div = {}, []
            for r in results:
                for (l, _, dev) in r["rejs"]:
                    if dev in known:
                        hits[dev] = hits.get(dev, 0) + 1
                    else:
                        div.append((r["chunk"], l, dev))
            for dev, n in sorted(hits.items()):
                V.log("OBSERVATION family=%s %s: %s (%d calls)" % (fam, dev, known[dev], n))
            rc = 0
            if div:
                chunk, l, dev = div[0]
                os.makedirs(os.path.join(V.out_root(), "replays"), exist_ok=True)
                path = os.path.join(V.out_root(), "replays", "%s-divergence.json" % fam)
                json.dump(dict(family=fam, deviation=dev, event=json.loads(V.line_of(chunk, l)),
                               case=json.loads(V.line_of(chunk.replace("ev-", "case-"), l))), open(path, "w"), indent=1)
                V.log("DIVERGENCE family=%s replay=%s" % (fam, path))
                V.log("  %d recorded calls are not what %s" % (len(div), what))
                rc = 1
            ev = dict(family=fam, tier=tier, seed=seed, model_runs=mcs, events_judged=stats["events"], outcome_classes=stats["classes"],
                      exhaustive=True, observations_hit=hits, divergences=len(div), wall_s=round(time.time() - t0, 1),
                      cmd="bin/grow %s %s" % (fam, tier))
            if not os.environ.get("VERIF_REPO"):
                json.dump(ev, open(os.path.join(V.VERIF, "growth", fam + ".json"), "w"), indent=1)
            if rc == 0:
                V.log("OK family=%s tier=%s model_states=%d events=%d observations=%s wall=%.0fs" % (
                    fam, tier, sum(m["states"] for m in mcs), stats["events"], hits, time.time() - t0))
            return rc
        finally:
            scr.cleanup()
    return run


g03 = one_shot("G03", ("MC_Request", "MC_Request.cfg"), ("MC_Request", "Gen_Request.cfg"), ["req"],
               ("Trace_Request", "Trace_Request.cfg"), ["schema:ok", "schema:err", "with-document", "nilschema:err"],
               "the composition of the URL parser and the document reader gives")


def g04(tier, seed):
    """Error values side by side: a stateful monitor, like G01; every slot is looked at after every call."""
    t0 = time.time()
    scr = V.Scratch("G04")
    try:
        drv = V.build_driver()
        mcs = [V.model_check(scr, "MC_ErrorObjects", "MC_ErrorObjects.cfg")]
        refuted = [expect_counterexample(scr, "MC_ErrorObjects", "MC_ErrorObjects_doc.cfg", "InvDocText")]
        gen = V.generate(scr, "MC_ErrorObjects", "Gen_ErrorObjects.cfg", "gen-0.out", seed=seed)
        evdir = scr.sub("ev")
        V.run_driver(drv, ["err", "-gen", gen, "-out", evdir, "-seed", str(seed)] +
                     V_t(tier, ["-walks", "300"], ["-walks", "10000", "-depth", "40"]))
        os.remove(gen)
        stats = json.load(open(os.path.join(evdir, "stats.json")))
        need = ["SetText:ok", "Put:ok", "Delete:ok", "reset:ok", "New:Error:ok", "New:UnknownFieldInBody:ok", "New:NotImplemented:ok"]
        missing = [c for c in need if not stats["classes"].get(c)]
        if missing or len([c for c in stats["classes"] if c.startswith("New:") and c.endswith(":ok")]) != 29:
            raise V.Infra("vacuous run: never observed: %s (or not all 29 constructors)" % missing)
        results = V.validate(scr, "Trace_ErrorObjects", "Trace_ErrorObjects.cfg", evdir)
        if sum(r["consumed"] for r in results) != stats["events"]:
            raise V.Infra("monitor did not consume every event")
        known = observations("G04")
        hits, div = {}, []
        for r in results:
            for (l, fam, dev) in r["rejs"]:
                if dev in known:
                    hits[dev] = hits.get(dev, 0) + 1
                else:
                    div.append((r["chunk"], l, dev))
        rc = 0
        for dev, n in sorted(hits.items()):
            V.log("OBSERVATION family=G04 %s: %s (%d calls)" % (dev, known[dev], n))
        if div:
            chunk, l, dev = div[0]
            lines = open(chunk).read().splitlines()
            start = max(i for i in range(l) if json.loads(lines[i])["ev"] == "reset")
            hist = [json.loads(x) for x in lines[start:l]]
            os.makedirs(os.path.join(V.out_root(), "replays"), exist_ok=True)
            path = os.path.join(V.out_root(), "replays", "G04-divergence.json")
            json.dump(dict(family="G04", deviation=dev, history=hist), open(path, "w"), indent=1)
            V.log("DIVERGENCE family=G04 replay=%s" % path)
            V.log("  %d recorded calls show something else than the model of error values (first: line %d of %s)" % (
                len(div), l, os.path.basename(chunk)))
            rc = 1
        ev = dict(family="G04", tier=tier, seed=seed, model_runs=mcs, refuted_as_expected=refuted,
                  histories=stats["histories"], events_judged=stats["events"], outcome_classes=stats["classes"],
                  exhaustive_over_emitted_histories=True, observations_hit=hits, divergences=len(div),
                  wall_s=round(time.time() - t0, 1), cmd="bin/grow G04 %s" % tier)
        if not os.environ.get("VERIF_REPO"):
            json.dump(ev, open(os.path.join(V.VERIF, "growth", "G04.json"), "w"), indent=1)
        if rc == 0:
            V.log("OK family=G04 tier=%s model_states=%d histories=%d events=%d observations=%s wall=%.0fs" % (
                tier, sum(m["states"] for m in mcs), stats["histories"], stats["events"], hits, time.time() - t0))
        return rc
    finally:
        scr.cleanup()


def g05(tier, seed):
    """Meta values of a document, a soft resource and a wrapped struct: a heap of shared maps; stateful monitor."""
    t0 = time.time()
    scr = V.Scratch("G05")
    try:
        drv = V.build_driver()
        mcs = [V.model_check(scr, "MC_MetaHolders", "MC_MetaHolders.cfg")]
        refuted = [expect_counterexample(scr, "MC_MetaHolders", "MC_MetaHolders_doc.cfg", "InvDocGetString"),
                   expect_counterexample(scr, "MC_MetaHolders", "MC_MetaHolders_int.cfg", "InvIntReadable")]
        gen = V.generate(scr, "MC_MetaHolders", "Gen_MetaHolders.cfg", "gen-0.out", seed=seed)
        evdir = scr.sub("ev")
        V.run_driver(drv, ["meta", "-gen", gen, "-out", evdir, "-seed", str(seed)] +
                     V_t(tier, ["-walks", "500"], ["-walks", "20000", "-depth", "40"]))
        os.remove(gen)
        stats = json.load(open(os.path.join(evdir, "stats.json")))
        need = ["Put:ok", "Del:ok", "Share:ok", "reset:ok"] + ["%s:%s:ok" % (o, h) for o, h in
                (("Wire", "doc"), ("Wire", "soft"), ("Wire", "wrap"), ("Copy", "soft"), ("Copy", "wrap"))]
        missing = [c for c in need if not stats["classes"].get(c)]
        if missing:
            raise V.Infra("vacuous run: never observed: %s" % missing)
        results = V.validate(scr, "Trace_MetaHolders", "Trace_MetaHolders.cfg", evdir)
        if sum(r["consumed"] for r in results) != stats["events"]:
            raise V.Infra("monitor did not consume every event")
        known = observations("G05")
        hits, div = {}, []
        for r in results:
            for (l, fam, dev) in r["rejs"]:
                if dev in known:
                    hits[dev] = hits.get(dev, 0) + 1
                else:
                    div.append((r["chunk"], l, dev))
        rc = 0
        for dev, n in sorted(hits.items()):
            V.log("OBSERVATION family=G05 %s: %s (%d calls)" % (dev, known[dev], n))
        if div:
            chunk, l, dev = div[0]
            lines = open(chunk).read().splitlines()
            start = max(i for i in range(l) if json.loads(lines[i])["ev"] == "reset")
            hist = [json.loads(x) for x in lines[start:l]]
            os.makedirs(os.path.join(V.out_root(), "replays"), exist_ok=True)
            path = os.path.join(V.out_root(), "replays", "G05-divergence.json")
            json.dump(dict(family="G05", deviation=dev, history=hist), open(path, "w"), indent=1)
            V.log("DIVERGENCE family=G05 replay=%s" % path)
            V.log("  %d recorded calls show something else than the model of meta values (first: line %d of %s)" % (
                len(div), l, os.path.basename(chunk)))
            rc = 1
        ev = dict(family="G05", tier=tier, seed=seed, model_runs=mcs, refuted_as_expected=refuted,
                  histories=stats["histories"], events_judged=stats["events"], outcome_classes=stats["classes"],
                  exhaustive_over_emitted_histories=True, observations_hit=hits, divergences=len(div),
                  wall_s=round(time.time() - t0, 1), cmd="bin/grow G05 %s" % tier)
        if not os.environ.get("VERIF_REPO"):
            json.dump(ev, open(os.path.join(V.VERIF, "growth", "G05.json"), "w"), indent=1)
        if rc == 0:
            V.log("OK family=G05 tier=%s model_states=%d histories=%d events=%d observations=%s wall=%.0fs" % (
                tier, sum(m["states"] for m in mcs), stats["histories"], stats["events"], hits, time.time() - t0))
        return rc
    finally:
        scr.cleanup()


def V_t(tier, q, t):
    return q if tier == "quick" else t


def main():
    fams = dict(G01=g01, G02=g02, G03=g03, G04=g04, G05=g05)
    if len(sys.argv) < 2 or sys.argv[1] not in fams:
        print(__doc__)
        return 2
    tier = sys.argv[2] if len(sys.argv) > 2 else "quick"
    seed = int(os.environ.get("VERIF_SEED", "1") or 1)
    try:
        return fams[sys.argv[1]](tier, seed)
    except V.Infra as e:
        V.log("INFRA: %s" % e)
        return 2


if __name__ == "__main__":
    sys.exit(main())
