#!/usr/bin/env python3
"""Evaluate one seeded defect:  lib/mutant_eval.py <PROP> <dir with patch.diff and demo_test.go> [tier] [extra props...]
 1. in a scratch worktree of /repo: the existing suite passes with the patch, the demo fails with it and passes without;
 2. the patch is applied to /repo, `bin/check <PROP> <tier>` (and the extra properties) is run, /repo is restored.
Prints a one-line JSON summary."""
import json, os, shutil, subprocess, sys, tempfile

VERIF = os.path.dirname(os.path.dirname(os.path.abspath(__file__)))
ENV = dict(os.environ, GOFLAGS="-mod=mod", GOPROXY="off", GOSUMDB="off", GOTOOLCHAIN="local")


def sh(cmd, cwd=None, timeout=3600):
    p = subprocess.run(cmd, shell=True, cwd=cwd, env=ENV, capture_output=True, text=True, timeout=timeout)
    return p.returncode, p.stdout + p.stderr


def main():
    prop, d = sys.argv[1], os.path.abspath(sys.argv[2])
    tier = sys.argv[3] if len(sys.argv) > 3 else "quick"
    extra = sys.argv[4:]
    patch = os.path.join(d, "patch.diff")
    demo = os.path.join(d, "demo_test.go")
    res = dict(prop=prop, dir=d, tier=tier)
    wt = tempfile.mkdtemp(prefix="muteval-")
    shutil.rmtree(wt)
    try:
        rc, out = sh("git -C /repo worktree add -q --detach %s HEAD" % wt)
        assert rc == 0, out
        race = "-race" if prop == "C12" else ""
        shutil.copy(demo, os.path.join(wt, "zz_seeded_demo_test.go"))
        rc, out = sh("go test %s -count=1 -run TestSeeded ." % race, cwd=wt)
        res["demo_without"] = "pass" if rc == 0 else "FAIL"
        os.remove(os.path.join(wt, "zz_seeded_demo_test.go"))
        rc, out = sh("git apply %s" % patch, cwd=wt)
        res["applies"] = rc == 0
        if rc != 0:
            res["apply_err"] = out[-300:]
        else:
            rc, out = sh("go build ./... && go test -count=1 ./...", cwd=wt)
            res["suite_with"] = "pass" if rc == 0 and "FAIL" not in out else "FAIL"
            shutil.copy(demo, os.path.join(wt, "zz_seeded_demo_test.go"))
            rc, out = sh("go test %s -count=1 -run TestSeeded ." % race, cwd=wt)
            res["demo_with"] = "fail" if rc != 0 else "PASSES"
            os.remove(os.path.join(wt, "zz_seeded_demo_test.go"))
            # the checks, pointed at the patched scratch worktree (same as applying the patch to /repo,
            # without disturbing /repo while other runs use it)
            outdir = tempfile.mkdtemp(prefix="mutout-")
            cenv = dict(ENV, VERIF_REPO=wt, VERIF_OUT=outdir)
            for p in [prop] + extra:
                pr = subprocess.run([os.path.join(VERIF, "bin", "check"), p, tier], cwd=VERIF, env=cenv,
                                    capture_output=True, text=True, timeout=3600)
                o = pr.stdout + pr.stderr
                viol = [l for l in o.splitlines() if l.startswith("VIOLATION")]
                devs = [l.strip() for l in o.splitlines() if l.strip().startswith("deviation=")]
                res["check_" + p] = dict(rc=pr.returncode, violations=len(viol), devs=devs[:3],
                                         tail=o.strip().splitlines()[-1][:160] if o.strip() else "")
            shutil.rmtree(outdir, ignore_errors=True)
            shutil.rmtree(os.path.join(VERIF, ".build", "alt-" + __import__("hashlib").sha1(wt.encode()).hexdigest()[:10]), ignore_errors=True)
    finally:
        sh("git -C /repo worktree remove --force %s" % wt)
        shutil.rmtree(wt, ignore_errors=True)
    print(json.dumps(res))
    return 0


if __name__ == "__main__":
    sys.exit(main())
