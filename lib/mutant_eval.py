#!/usr/bin/env python3
"""Evaluate one seeded defect:  lib/mutant_eval.py <PROP> <dir with patch.diff and demo_test.go> [tier] [extra props...]
 1. in a scratch worktree of /repo: the existing suite passes with the patch, the demo fails with it and passes without;
 2. the patch is applied to /repo, `bin/check <PROP> <tier>` (and the extra properties) is run, /repo is restored.
Prints a one-line JSON summary."""
import json, os, shutil, subprocess, sys, tempfile

VERIF = os.path.dirname(os.path.dirname(os.path.abspath(__file__)))
ENV = dict(os.environ, GOFLAGS="-mod=mod", GOPROXY="off", GOSUMDB="off", GOTOOLCHAIN="local")


def sh(cmd, cwd=None, timeout=3600):
    p = subprocess.run(cmd, shell=True, cwd=cwd, env=ENV, capture_output=True, text=True, timeout=timeout)
    return p.returncode, p.stdout + p.stderr


def main():
    prop, d = sys.argv[1], os.path.abspath(sys.argv[2])
    tier = sys.argv[3] if len(sys.argv) > 3 else "quick"
    extra = sys.argv[4:]
    patch = os.path.join(d, "patch.diff")
    demo = os.path.join(d, "demo_test.go")
    res = dict(prop=prop, dir=d, tier=tier)
    rc, out = sh("git -C /repo status --porcelain")
    if out.strip():
        print("refusing: /repo is not clean"); return 2
    wt = tempfile.mkdtemp(prefix="muteval-")
    shutil.rmtree(wt)
    try:
        rc, out = sh("git -C /repo worktree add -q --detach %s HEAD" % wt)
        assert rc == 0, out
        race = "-race" if prop == "C12" else ""
        shutil.copy(demo, os.path.join(wt, "zz_seeded_demo_test.go"))
        rc, out = sh("go test %s -count=1 -run TestSeeded ." % race, cwd=wt)
        res["demo_without"] = "pass" if rc == 0 else "FAIL"
        os.remove(os.path.join(wt, "zz_seeded_demo_test.go"))
        rc, out = sh("git apply %s" % patch, cwd=wt)
        res["applies"] = rc == 0
        if rc != 0:
            res["apply_err"] = out[-300:]
        else:
            rc, out = sh("go build ./... && go test -count=1 ./...", cwd=wt)
            res["suite_with"] = "pass" if rc == 0 and "FAIL" not in out else "FAIL"
            shutil.copy(demo, os.path.join(wt, "zz_seeded_demo_test.go"))
            rc, out = sh("go test %s -count=1 -run TestSeeded ." % race, cwd=wt)
            res["demo_with"] = "fail" if rc != 0 else "PASSES"
    finally:
        sh("git -C /repo worktree remove --force %s" % wt)
        shutil.rmtree(wt, ignore_errors=True)
    if res.get("applies"):
        rc, out = sh("git -C /repo apply %s" % patch)
        try:
            for p in [prop] + extra:
                rc, out = sh("%s/bin/check %s %s" % (VERIF, p, tier), cwd=VERIF)
                viol = [l for l in out.splitlines() if l.startswith("VIOLATION")]
                res["check_" + p] = dict(rc=rc, violations=viol[:3], tail=out.strip().splitlines()[-1][:200] if out.strip() else "")
        finally:
            sh("git -C /repo checkout -- .")
            sh("git -C /repo clean -fdq")
    print(json.dumps(res))
    return 0


if __name__ == "__main__":
    sys.exit(main())
