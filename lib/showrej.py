#!/usr/bin/env python3
"""debug helper: showrej.py <val.out> <events.ndjson> <pattern> [n] -- print compact views of rejected events"""
import json, sys
val, evf, pat = sys.argv[1:4]
n = int(sys.argv[4]) if len(sys.argv) > 4 else 3
idx = []
for ln in open(val):
    if ln.startswith('<<"REJ"') and pat in ln:
        idx.append(int(ln.split(',')[1]))
idx = idx[:n]
want = set(idx)
def vv(x):
    if isinstance(x, dict) and set(x) == {'nil', 'r', 'ids'}:
        return 'nil' if x['nil'] else (','.join(x['ids']) if x['ids'] else str(x['r']))
    return x
def d(x):
    if isinstance(x, dict) and 'kind' in x:
        return ('%s%s' % ('*' if x['null'] else '', x['k'])) if x['kind'] == 'attr' else ('to1' if x['to1'] else 'toN')
    return x
def c(x):
    if isinstance(x, dict):
        x = {k: ({f: vv(y) for f, y in w.items()} if k == 'vals' and isinstance(w, dict) else
                 {f: d(y) for f, y in w.items()} if k == 'fields' and isinstance(w, dict) else vv(d(w))) for k, w in x.items()}
    return json.dumps(x, separators=(',', ':'))
for i, ln in enumerate(open(evf), 1):
    if i in want:
        e = json.loads(ln)
        print('--- event', i, 'ret', e.get('ret'))
        print(' op  ', c(e.get('op')))
        for k in ('pre', 'post'):
            v = e.get(k)
            if isinstance(v, list):
                for j, x in enumerate(v):
                    print(' %s[%d] %s' % (k, j + 1, c(x)))
            else:
                print(' %s %s' % (k, c(v)))
        for k in ('a', 'b', 'obs', 'r', 'schema', 'perms'):
            if k in e:
                print(' %s %s' % (k, c(e[k])))
