#!/usr/bin/env python3
"""Imports confirmed seeded changes into /verif/seeded/<id>/ from the sub-agents' output directories and
the evaluation logs (jsonl lines printed by lib/mutant_eval.py), and regenerates seeded/README.md.
usage: seeded_import.py <outroot> <results.jsonl>..."""
import json, os, shutil, sys

VERIF = os.path.dirname(os.path.dirname(os.path.abspath(__file__)))
root = sys.argv[1]
latest = {}
history = {}
for f in sys.argv[2:]:
    for ln in open(f):
        ln = ln.strip()
        if not ln.startswith("{"):
            continue
        d = json.loads(ln)
        key = d["dir"]
        latest[key] = d
        history.setdefault(key, []).append(d)
rows = []
for key in sorted(latest):
    d = latest[key]
    prop = d["prop"]
    var = os.path.basename(key)
    sid = "%s%s" % (prop, var)
    ok = d.get("applies") and d.get("suite_with") == "pass" and d.get("demo_without") == "pass" and d.get("demo_with") == "fail"
    if not ok:
        print("NOT KEPT (not confirmed):", sid, {k: d.get(k) for k in ("applies", "suite_with", "demo_without", "demo_with")})
        continue
    dst = os.path.join(VERIF, "seeded", sid)
    os.makedirs(dst, exist_ok=True)
    for fn in ("patch.diff", "demo_test.go", "notes.md"):
        if os.path.exists(os.path.join(key, fn)):
            shutil.copy(os.path.join(key, fn), os.path.join(dst, fn))
    notes = open(os.path.join(key, "notes.md")).read() if os.path.exists(os.path.join(key, "notes.md")) else ""
    checks = {k[6:]: v for k, v in d.items() if k.startswith("check_")}
    first = history[key][0]
    first_checks = {k[6:]: v for k, v in first.items() if k.startswith("check_")}
    caught_now = any(v.get("rc") == 1 for v in checks.values())
    caught_first = any(v.get("rc") == 1 for v in first_checks.values())
    meta = dict(
        id=sid, breaks_property=prop,
        needs_to_manifest=notes.strip().split("\n\n")[-1][:1200] if notes else "",
        confirmed=dict(
            how="scratch git worktree of /repo (removed afterwards): existing suite `go test ./...` with the patch; "
                "demonstration `go test -run TestSeeded%s .` with and without the patch" % (" -race" if prop == "C12" else ""),
            existing_suite_with_patch=d.get("suite_with"), demo_without_patch=d.get("demo_without"), demo_with_patch=d.get("demo_with")),
        checks_run={p: dict(cmd="VERIF_REPO=<patched worktree> bin/check %s %s" % (p, d.get("tier")), exit=v.get("rc"),
                            violations=v.get("violations"), deviations=v.get("devs")) for p, v in checks.items()},
        detected=caught_now, detected_before_strengthening=caught_first,
    )
    json.dump(meta, open(os.path.join(dst, "meta.json"), "w"), indent=1)
    rows.append((sid, prop, caught_first, caught_now, ", ".join(x for v in checks.values() for x in (v.get("devs") or [])) or "-"))
with open(os.path.join(VERIF, "seeded", "README.md"), "w") as fh:
    fh.write("# Seeded changes\n\nEach directory holds `patch.diff` (applies to `/repo`), `demo_test.go` (fails with the patch, passes "
             "without), `notes.md` (the author's description) and `meta.json` (what was run and what the checks said). All were "
             "written by sub-agents that saw only the property text and a scratch worktree, never `/verif`.\n\n"
             "| id | property | caught by the quick check as first built | caught now | deviation named by the monitor |\n|---|---|---|---|---|\n")
    for r in rows:
        fh.write("| %s | %s | %s | %s | %s |\n" % (r[0], r[1], "yes" if r[2] else "no", "yes" if r[3] else "**no**", r[4]))
print("kept", len(rows), "caught now", sum(1 for r in rows if r[3]), "caught first", sum(1 for r in rows if r[2]))
