#!/usr/bin/env python3
"""Imports one more round of confirmed seeded changes into /verif/seeded/ and adds their rows to seeded/README.md.
usage: seeded_import2.py <round> <letters, e.g. ef> <first.jsonl,first2.jsonl,...> <final.jsonl,...>
 - the directories named in the jsonl lines end in /a or /b: a -> first letter, b -> second letter
 - first*: the evaluation by the checks as they stood before anything was strengthened for this round
 - final*: the evaluation by the checks as they are now (decides `detected`)"""
import json, os, re, shutil, sys

VERIF = os.path.dirname(os.path.dirname(os.path.abspath(__file__)))
rnd, letters = sys.argv[1], sys.argv[2]
first_files, final_files = sys.argv[3].split(","), sys.argv[4].split(",")


def load(files):
    out = {}
    for f in files:
        for ln in open(f):
            ln = ln.strip()
            if ln.startswith("{"):
                d = json.loads(ln)
                out.setdefault(d["dir"], d)   # first line per directory in these files
    return out


def checks(d):
    return {k[6:]: v for k, v in d.items() if k.startswith("check_")}


first, final = load(first_files), load(final_files)
rows = {}
for key in sorted(final):
    d = final[key]
    prop = d["prop"]
    var = os.path.basename(key)
    sid = prop + letters["ab".index(var)]
    ok = d.get("applies") and d.get("suite_with") == "pass" and d.get("demo_without") == "pass" and d.get("demo_with") == "fail"
    if not ok:
        print("NOT KEPT (not confirmed):", sid, {k: d.get(k) for k in ("applies", "suite_with", "demo_without", "demo_with")})
        continue
    dst = os.path.join(VERIF, "seeded", sid)
    os.makedirs(dst, exist_ok=True)
    for fn in ("patch.diff", "demo_test.go", "notes.md"):
        if os.path.exists(os.path.join(key, fn)):
            shutil.copy(os.path.join(key, fn), os.path.join(dst, fn))
    # the demonstration's test is named after the id it has here
    demo = os.path.join(dst, "demo_test.go")
    if os.path.exists(demo):
        src = open(demo).read().replace("TestSeeded%s%s" % (prop, var), "TestSeeded%s%s" % (prop, letters["ab".index(var)]))
        open(demo, "w").write(src)
    notes = open(os.path.join(key, "notes.md")).read() if os.path.exists(os.path.join(key, "notes.md")) else ""
    fc = checks(first.get(key, {}))
    nc = checks(d)
    caught_first = any(v.get("rc") == 1 for v in fc.values())
    caught_now = any(v.get("rc") == 1 for v in nc.values())
    meta = dict(
        id=sid, breaks_property=prop, round=int(rnd),
        needs_to_manifest=notes.strip().split("\n\n")[-1][:1200] if notes else "",
        confirmed=dict(
            how="scratch git worktree of /repo (removed afterwards): existing suite `go test ./...` with the patch; "
                "demonstration `go test -run TestSeeded%s .` with and without the patch" % (" -race" if prop == "C12" else ""),
            existing_suite_with_patch=d.get("suite_with"), demo_without_patch=d.get("demo_without"), demo_with_patch=d.get("demo_with")),
        checks_run={p: dict(cmd="VERIF_REPO=<patched worktree> bin/check %s %s" % (p, d.get("tier")), exit=v.get("rc"),
                            violations=v.get("violations"), deviations=v.get("devs")) for p, v in nc.items()},
        checks_run_as_first_built={p: dict(exit=v.get("rc"), violations=v.get("violations")) for p, v in fc.items()},
        detected=caught_now, detected_before_strengthening=caught_first,
    )
    json.dump(meta, open(os.path.join(dst, "meta.json"), "w"), indent=1)
    rows[sid] = "| %s | %s | %s | %s | %s | %s |" % (
        sid, prop, rnd, "yes" if caught_first else "no", "yes" if caught_now else "**no**",
        ", ".join(x for v in nc.values() for x in (v.get("devs") or [])) or "-")

readme = os.path.join(VERIF, "seeded", "README.md")
lines = open(readme).read().rstrip("\n").split("\n")
kept = [ln for ln in lines if not (ln.startswith("| C") and ln.split("|")[1].strip() in rows)]
head = [ln for ln in kept if not ln.startswith("| C")]
body = [ln for ln in kept if ln.startswith("| C")] + list(rows.values())
body.sort(key=lambda ln: ln.split("|")[1].strip())
open(readme, "w").write("\n".join(head + body) + "\n")
print("imported", len(rows), "changes; caught as first built:", sum(1 for r in rows.values() if r.split("|")[4].strip() == "yes"),
      "caught now:", sum(1 for r in rows.values() if r.split("|")[5].strip() == "yes"))
