#!/usr/bin/env python3
"""Writes seeded/BENIGN.md from the result lines of lib/benign_eval.py.
usage: benign_report.py <label=results.jsonl[,more.jsonl]> ...   (one argument per pass over the benign changes)"""
import json, os, sys

VERIF = os.path.dirname(os.path.dirname(os.path.abspath(__file__)))
passes = []
for arg in sys.argv[1:]:
    label, files = arg.split("=", 1)
    rows = {}
    for f in files.split(","):
        for ln in open(f):
            ln = ln.strip()
            if ln.startswith("{"):
                d = json.loads(ln)
                rows[d["dir"]] = d
    passes.append((label, rows))


def title(d):
    p = os.path.join(d, "notes.md")
    if not os.path.exists(p):
        return ""
    t = open(p).readline().strip().lstrip("# ").strip()
    for pre in ("Change ", "change "):
        if t.startswith(pre):
            t = t[len(pre):]
    return t


dirs = sorted({d for _, rows in passes for d in rows})
out = ["# Benign changes (false-alarm evaluation)", "",
       "Property-preserving changes to the library, written by sub-agents that were given the twenty properties and a scratch",
       "worktree and asked for modifications a maintainer might make that keep every property true (other algorithms, copies",
       "instead of in-place work, other error types and wordings, extra refusals outside the properties' domains, other",
       "escaping, memoisation that is invalidated properly). Each keeps the existing test suite green. Every change was applied to",
       "a scratch worktree of `/repo` and ALL twenty quick checks were run against it (`lib/benign_eval.py`); an alarm on any of",
       "them would be a false alarm of the machinery. The changes themselves are not kept (they are not defects); this file",
       "records what was tried and what the checks said.", "",
       "| change | what it does | " + " | ".join(lbl for lbl, _ in passes) + " |",
       "|---|---|" + "---|" * len(passes)]
for d in dirs:
    name = os.path.basename(os.path.dirname(d)).replace("-out", "") + os.path.basename(d)
    cells = []
    for _, rows in passes:
        r = rows.get(d)
        if r is None:
            cells.append("not run")
        elif not r.get("applies"):
            cells.append("does not apply to the later tree (a fix touched the same lines)")
        elif r.get("suite") != "pass":
            cells.append("existing suite fails: not benign")
        elif r.get("alarms"):
            cells.append("**alarm**: " + "; ".join("%s rc=%s" % (k, v.get("rc")) for k, v in r["alarms"].items()))
        else:
            cells.append("20/20 quiet")
    out.append("| %s | %s | %s |" % (name, title(d).replace("|", "/"), " | ".join(cells)))
open(os.path.join(VERIF, "seeded", "BENIGN.md"), "w").write("\n".join(out) + "\n")
print("wrote seeded/BENIGN.md with", len(dirs), "changes")
