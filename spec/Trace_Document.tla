---------------------------- MODULE Trace_Document ----------------------------
(* (B) monitor for the document family.  A "doc" event is judged four times:  *)
(* structure (C03), selection (C04), round trip (C02), determinism (C11);     *)
(* an "include" event is judged against IncludeRes (C03).                     *)
EXTENDS Document, Json, IOUtils

Trace == ndJsonDeserialize(IOEnv.TRACE_FILE)
VARIABLE l

Rej(prop, dev) == PrintT(<<"REJ", l, prop, dev>>)

JudgeDoc(e) ==
    \* (e.doc.links = 2: a link of the handler's own carries meta information no JSON can hold - the marshal
    \* may refuse; if it succeeds, the document is judged like any other)
    IF e.ret = "err" /\ e.doc.links = 2 THEN TRUE
    ELSE IF e.ret # "ok" THEN Rej("C03", IF e.ret = "panic" THEN "marshal-panicked" ELSE "marshal-returned-error")
    \* (e.doc.handdup: the included list was filled by hand and repeats a primary resource - the clause
    \* about pairs appearing once speaks of lists built by Include, so it is not applied there)
    ELSE /\ IF WellFormed(e.doc, e.out) /\ (e.doc.handdup \/ NoDupLinkage(e.out)) THEN TRUE
            ELSE Rej("C03", IF (e.doc.handdup \/ NoDupLinkage(e.out)) /\ Dev_SelfLinkOfResourceWithoutID(e.doc, e.out) THEN "Dev_SelfLinkOfResourceWithoutID" ELSE "NONE")
         \* (a document whose primary resource cannot be encoded - e.doc.unenc - is judged for its form only:
         \* the other three properties speak of what a resource exposes, and this one exposes nothing)
         /\ IF e.doc.unenc \/ Selected(e.doc, e.out) THEN TRUE ELSE Rej("C04", "NONE")
         /\ IF e.doc.unenc \/ RoundTrip(e.doc, e.back) THEN TRUE ELSE Rej("C02", "NONE")
         /\ IF e.doc.unenc \/ Deterministic(e.det) THEN TRUE ELSE Rej("C11", "NONE")

JudgeInclude(e) ==
    IF e.ret = "ok" /\ e.post = IncludeRes(e.pre, e.op) THEN TRUE
    ELSE Rej("C03", IF Dev_IncludeIgnoresResourcesMembers(e) THEN "Dev_IncludeIgnoresResourcesMembers" ELSE "NONE")

Init == l = 1
Next == /\ l <= Len(Trace)
        /\ l' = l + 1
        /\ LET e == Trace[l] IN
           CASE e.ev = "doc" -> JudgeDoc(e)
             [] e.ev = "include" -> JudgeInclude(e)
             \* the document a walk of Include calls leaves, marshaled: no pair twice in what a client receives; a
             \* refusal is an outcome only for primary data of no kind the library knows (a Resources value)
             [] e.ev = "included-doc" ->
                  IF e.ret = "ok" /\ ~e.dup THEN TRUE
                  ELSE IF e.ret = "err" /\ e.foreign THEN TRUE
                  ELSE Rej("C03", IF e.ret = "panic" THEN "marshal-panicked" ELSE "NONE")
             \* field names a query string must escape, one URL object serving three documents in a row: every
             \* payload exposes exactly the selected attributes, the URL keeps its selection, the values come back
             [] e.ev = "oddname" ->
                  IF e.ret # "ok" THEN Rej("C03", "marshal-panicked")
                  ELSE /\ IF \A i \in 1..Len(e.outs) : AsSet(e.outs[i]) = AsSet(e.sel) THEN TRUE ELSE Rej("C04", "NONE")
                       /\ IF e.back_same THEN TRUE ELSE Rej("C02", "NONE")
                       /\ IF e.frameok /\ e.stable THEN TRUE ELSE Rej("C11", "NONE")
             \* included resources with distinct ids whose type and id read alike once written together: every one
             \* of them is in the payload (C03), and the payload is the same for every order of inclusion (C11)
             [] e.ev = "tie" ->
                  IF e.ret # "ok" THEN Rej("C03", "marshal-panicked")
                  \* ((fixed) Include took "id type" as the identity: one of two resources that read alike was dropped)
                  ELSE /\ IF e.both_there THEN TRUE ELSE Rej("C03", "Dev_IncludeIdentityByConcatenation")
                       /\ IF e.same THEN TRUE ELSE Rej("C11", "NONE")
             [] e.ev = "dupname" ->
                  IF e.ret # "ok" THEN Rej("C03", "marshal-panicked")
                  ELSE /\ IF DupOK(e) THEN TRUE ELSE Rej("C04", "NONE")
                       /\ IF e.same THEN TRUE ELSE Rej("C11", "NONE")
             [] OTHER -> Rej("C03", "unknown-event")
Spec == Init /\ [][Next]_l
AllConsumed == TLCGet("stats").diameter - 1 = Len(Trace)
=============================================================================
