SPECIFICATION Spec
CONSTANTS
  NProcs = 2
  NOps = 1
  UseDev = FALSE
INVARIANTS NoRace SchemaUnchanged EmitSched
CHECK_DEADLOCK FALSE
