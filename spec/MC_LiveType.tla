---------------------------- MODULE MC_LiveType ----------------------------
(* (M) the lazy design keeps ShowsTheFields and FreshUnlessReAdded in every   *)
(* reachable state and breaks Promise / Typed (expected: the counterexample   *)
(* is the finding); (A) one history per reachable state is emitted.           *)
EXTENDS LiveType, Json, SequencesExt

CONSTANTS N, Depth

Op(o, i, f, k, v) == [op |-> o, i |-> i, f |-> f, k |-> k, v |-> v]
Alphabet ==
       { Op("TAdd", 0, f, k, 0) : f \in Names, k \in Kinds }
  \cup { Op("TRemove", 0, f, "", 0) : f \in Names }
  \cup { Op("RAdd", i, f, k, 0) : i \in 1..N, f \in Names, k \in Kinds }
  \cup { Op("RRemove", i, f, "", 0) : i \in 1..N, f \in Names }
  \cup { Op("Set", i, f, k, v) : i \in 1..N, f \in Names, k \in Kinds, v \in {1, 2} }
  \cup { Op("Read", i, "", "", 0) : i \in 1..N }

VARIABLES st, hist
vars == <<st, hist>>
Init == st = Init0(N) /\ hist = <<>>
Next == /\ Len(hist) < Depth
        /\ \E op \in Alphabet :
             /\ (op.op = "Set" => op.f \in DOMAIN st.ty /\ st.ty[op.f] = op.k)   \* (ill-typed Sets are offered by the driver's own walks)
             /\ st' = Step(st, op).post /\ hist' = Append(hist, op)
Spec == Init /\ [][Next]_vars
ViewSt == st

InvShowsTheFields == ShowsTheFields(st)
InvFreshUnlessReAdded == FreshUnlessReAdded(st)
InvPromise == Promise(st)
InvTyped == Typed(st)
\* reads change nothing that a later read shows; an error changes nothing
ReadIsStable == [][hist'[Len(hist')].op = "Read" =>
                     \A i \in 1..N : View(st', i) = View(st, i)]_vars
EmitAlpha == PrintT(<<"ALPHA", ToJson(SetToSeq(Alphabet))>>)
EmitAlphaOnce == hist # <<>> \/ EmitAlpha
EmitState == PrintT(<<"S", ToJson([hist |-> hist])>>)
=============================================================================
