----------------------------- MODULE Trace_Range -----------------------------
(* (B) monitor for C09: every recorded family of Range calls (all pages, for  *)
(* several input orders of one collection) against RangeOK.                  *)
EXTENDS Range, Json, IOUtils

Trace == ndJsonDeserialize(IOEnv.TRACE_FILE)
VARIABLE l

Dev(e) == IF Dev_KindMissingFromLess(e) THEN "Dev_KindMissingFromLess"
          ELSE IF Dev_WrappedNilPanicsInLess(e) THEN "Dev_WrappedNilPanicsInLess"
          ELSE IF Dev_HugeSizeEmptyPage(e) THEN "Dev_HugeSizeEmptyPage"
          ELSE "NONE"

Judge(e) == e.ev = "range" /\ RangeOK(e)

Init == l = 1
Next == /\ l <= Len(Trace)
        /\ l' = l + 1
        /\ IF Judge(Trace[l]) THEN TRUE ELSE PrintT(<<"REJ", l, "C09", Dev(Trace[l])>>)
Spec == Init /\ [][Next]_l
AllConsumed == TLCGet("stats").diameter - 1 = Len(Trace)
=============================================================================
