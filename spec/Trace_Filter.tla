----------------------------- MODULE Trace_Filter -----------------------------
(* (B) monitor for C10: each recorded IsAllowed verdict against Leaf / Tree. *)
EXTENDS Filter, Json, IOUtils

Trace == ndJsonDeserialize(IOEnv.TRACE_FILE)
VARIABLE l

Dev(e) == IF Dev_BytesOrderNotLexicographic(e) THEN "Dev_BytesOrderNotLexicographic"
          ELSE IF Dev_WrappedNilNeverEqual(e) THEN "Dev_WrappedNilNeverEqual"
          ELSE "NONE"

Judge(e) ==
    CASE e.ev = "leaf" -> e.ret = "ok" /\ e.res = Leaf(e.cls, e.op, e.rv, e.cv)
      [] e.ev = "tree" -> e.ret = "ok" /\ e.res = Tree(e.tree)
      [] OTHER -> FALSE

Init == l = 1
Next == /\ l <= Len(Trace)
        /\ l' = l + 1
        /\ IF Judge(Trace[l]) THEN TRUE ELSE PrintT(<<"REJ", l, "C10", Dev(Trace[l])>>)
Spec == Init /\ [][Next]_l
AllConsumed == TLCGet("stats").diameter - 1 = Len(Trace)
=============================================================================
