---------------------------- MODULE Trace_Request ----------------------------
(* (B) monitor of the growth family G03 *)
EXTENDS Request, Json, IOUtils
Trace == ndJsonDeserialize(IOEnv.TRACE_FILE)
VARIABLE l
Init == l = 1
Next == /\ l <= Len(Trace)
        /\ l' = l + 1
        /\ LET e == Trace[l] IN
           IF e.nilschema
           THEN (IF NilSchemaOK(e) THEN TRUE ELSE PrintT(<<"REJ", l, "G03", IF Dev_NilSchemaPanics(e) THEN "Dev_NilSchemaPanics" ELSE "NONE">>))
           ELSE (IF ReqOK(e) THEN TRUE ELSE PrintT(<<"REJ", l, "G03", "NONE">>))
Spec == Init /\ [][Next]_l
AllConsumed == TLCGet("stats").diameter - 1 = Len(Trace)
=============================================================================
