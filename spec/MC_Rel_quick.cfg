SPECIFICATION Spec
CONSTANTS
  TNs <- TNsQ
  RNs <- RNsQ
  MaxRels = 2
INVARIANTS InvListing EmitState
CHECK_DEADLOCK FALSE
