SPECIFICATION Spec
CONSTANTS
  N = 2
  Depth = 3
  UseCtors = {"Error", "BadRequest", "NotFound"}
VIEW ViewSt
INVARIANTS InvDocText
CHECK_DEADLOCK FALSE
