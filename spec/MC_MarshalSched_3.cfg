SPECIFICATION Spec
CONSTANTS
  Fields <- F3
  RelData <- D3
  ManyIds <- M3
INVARIANTS InvDeterministic InvFrame
CHECK_DEADLOCK FALSE
