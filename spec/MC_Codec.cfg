SPECIFICATION Spec
INVARIANTS InvSound InvNonEmpty InvIntUnique InvNoWrap InvRoundTrip InvNested
CHECK_DEADLOCK FALSE
