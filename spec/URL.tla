--------------------------------- MODULE URL ---------------------------------
(* URL parsing (simple_url.go NewSimpleURL, params.go NewParams, url.go NewURL) *)
(* against a fixed schema.  Serves C07 (consistency of the parsed URL) and C08  *)
(* (String() is a canonical form that parses back).                            *)
(*                                                                             *)
(* Schema:  ta: attributes x, y, X (a name that differs from x by its case only); relationships r (to-one -> tb), rs (to-many   *)
(*              -> tb)   [r is a string prefix of rs]                          *)
(*          tb: attribute z;  relationships q (to-one -> ta), s (to-many -> ta) *)
(*          tc: no field at all                                                *)
(*          td: attribute w; relationship q (to-one -> tb); reached by ta.t    *)
(* A request: [frags, fields: [type -> Seq(name)], sort: Seq(rule),            *)
(*             include: Seq(path), filter, page, unknown]                      *)
(*   rule: a name with an optional leading "-", as [name, desc]                *)
(*   path: Seq(relationship name)                                              *)
EXTENDS Integers, Sequences, FiniteSets, TLC, SequencesExt

Types == {"ta", "tb", "tc", "td", "e"}     \* "e": a type whose name has one letter, with one attribute "v"
AttrsOf(t) == CASE t = "ta" -> {"x", "y", "X"} [] t = "tb" -> {"z"} [] t = "td" -> {"w"} [] t = "e" -> {"v"} [] OTHER -> {}
RelsOf(t)  == CASE t = "ta" -> {"r", "rs", "t"} [] t = "tb" -> {"q", "s"} [] t = "td" -> {"q"} [] OTHER -> {}
FieldsOf(t) == AttrsOf(t) \cup RelsOf(t)
\* tb.q and td.q carry the same name and lead to different types: r.q and t.q meet them at the same depth
Target(t, f) == CASE t = "ta" /\ f = "t" -> "td"
                  [] t = "ta" -> "tb"
                  [] t = "td" -> "tb"
                  [] OTHER -> "ta"
ToOne(t, f) == f \in {"r", "q", "t"}

AsSet(q) == {q[i] : i \in 1..Len(q)}
NoDup(q) == \A i, j \in 1..Len(q) : q[i] = q[j] => i = j

\* is the name sequence p a chain of relationships starting at type t?
RECURSIVE IsChain(_, _)
IsChain(t, p) ==
    IF p = <<>> THEN TRUE
    ELSE t \in Types /\ Head(p) \in RelsOf(t) /\ IsChain(Target(t, Head(p)), Tail(p))

ProperPrefix(p, q) == Len(p) < Len(q) /\ SubSeq(q, 1, Len(p)) = p

\* the schema's Rel records along a chain
RECURSIVE ChainRels(_, _)
ChainRels(t, p) ==
    IF p = <<>> THEN <<>>
    ELSE <<[ft |-> t, fn |-> Head(p), tt |-> Target(t, Head(p))]>> \o ChainRels(Target(t, Head(p)), Tail(p))

-----------------------------------------------------------------------------
(* What the path says                                                        *)
\* returns [ok, restype, iscol]
Route(frags) ==
    IF Len(frags) = 0 \/ frags[1] \notin Types THEN [ok |-> FALSE, restype |-> "", iscol |-> FALSE]
    ELSE IF Len(frags) = 1 THEN [ok |-> TRUE, restype |-> frags[1], iscol |-> TRUE]
    ELSE IF Len(frags) = 2 THEN [ok |-> TRUE, restype |-> frags[1], iscol |-> FALSE]
    ELSE LET rel == frags[Len(frags)] IN
         IF rel \in RelsOf(frags[1])
         THEN [ok |-> TRUE, restype |-> Target(frags[1], rel), iscol |-> ~ToOne(frags[1], rel)]
         ELSE [ok |-> FALSE, restype |-> "", iscol |-> FALSE]

-----------------------------------------------------------------------------
(* C07: consistency of a returned URL with the schema and the request        *)
ValidNames(t, names) == {n \in AsSet(names) : n \in FieldsOf(t) \cup {"id"}}

FieldsOK(req, out) ==
    \A t \in DOMAIN out.fields :
       /\ t \in Types
       /\ AsSet(out.fields[t]) \subseteq FieldsOf(t) \cup {"id"}
       /\ NoDup(out.fields[t])
       /\ LET asked == IF t \in DOMAIN req.fields THEN ValidNames(t, req.fields[t]) ELSE {}
          IN IF asked = {} THEN AsSet(out.fields[t]) = FieldsOf(t)     \* defaults to all the fields
             ELSE AsSet(out.fields[t]) = asked

Requested(req) == AsSet(req.include)
ValidReq(req, t) == {p \in Requested(req) : p # <<>> /\ IsChain(t, p)}
IncludeOK(req, out) ==
    LET names(c) == [i \in 1..Len(c) |-> c[i].fn]
        got == {names(out.include[i]) : i \in 1..Len(out.include)}
    IN /\ \A i \in 1..Len(out.include) :
             /\ out.include[i] # <<>>
             /\ IsChain(out.restype, names(out.include[i]))
             /\ out.include[i] = ChainRels(out.restype, names(out.include[i]))   \* each element is the schema's Rel
       /\ got \subseteq ValidReq(req, out.restype)
       \* a valid requested path is kept unless a longer requested path extends it
       /\ \A p \in ValidReq(req, out.restype) :
             (~\E q \in Requested(req) : ProperPrefix(p, q)) => p \in got

RuleName(r) == r.name
\* the caller's rules that are valid for the type, cut after the first id rule, first occurrence of each name
RECURSIVE Keep(_, _, _)
Keep(rules, t, seen) ==
    IF rules = <<>> THEN <<>>
    ELSE LET r == Head(rules) IN
         IF r.name = "id" THEN (IF "id" \in seen THEN <<>> ELSE <<r>>)
         ELSE IF r.name \in AttrsOf(t) /\ r.name \notin seen THEN <<r>> \o Keep(Tail(rules), t, seen \cup {r.name})
         ELSE Keep(Tail(rules), t, seen)
RECURSIVE FirstOfEachName(_, _)
FirstOfEachName(rules, seen) ==
    IF rules = <<>> THEN <<>>
    ELSE IF Head(rules).name \in seen THEN FirstOfEachName(Tail(rules), seen)
    ELSE <<Head(rules)>> \o FirstOfEachName(Tail(rules), seen \cup {Head(rules).name})
RECURSIVE IsSubseq(_, _)
IsSubseq(a, b) == IF a = <<>> THEN TRUE ELSE IF b = <<>> THEN FALSE
                  ELSE IF Head(a) = Head(b) THEN IsSubseq(Tail(a), Tail(b)) ELSE IsSubseq(a, Tail(b))
SortOK(req, out) ==
    out.iscol =>
       /\ \A i \in 1..Len(out.sort) : out.sort[i].name \in AttrsOf(out.restype) \cup {"id"}
       /\ \E i \in 1..Len(out.sort) : out.sort[i].name = "id"        \* so the order is total
       /\ IsSubseq(Keep(req.sort, out.restype, {}), out.sort)        \* the caller's valid rules, in order
       \* ... and they come first: what the caller asked for decides before anything that was added
       \* (in particular nothing the caller wrote after id is moved in front of it)
       \* (a name that is repeated decides nothing the second time: only first occurrences count)
       /\ LET k == Keep(req.sort, out.restype, {})
              first == FirstOfEachName(out.sort, {})
          IN Len(first) >= Len(k) /\ SubSeq(first, 1, Len(k)) = k

Consistent(req, out) ==
    /\ out.restype \in Types
    /\ FieldsOK(req, out) /\ IncludeOK(req, out) /\ SortOK(req, out)

\* allowed outcomes of parsing: an error, or a URL consistent with the schema; never a panic
ParseOK(req, out) == out.ret = "err" \/ (out.ret = "ok" /\ Consistent(req, out))

-----------------------------------------------------------------------------
(* C08: the chain raw -> u1 -> String() = s1 -> u2 -> String() = s2, and the   *)
(* variants of raw (parameters reordered, list items reordered, empty items). *)
\* r: [s1parses, frags, restype, resid, rel, fields, sort, page, filter, s2eq, variants] (all BOOLEAN)
ChainOK(r) ==
    /\ r.s1parses
    /\ r.frags /\ r.restype /\ r.resid /\ r.rel /\ r.fields /\ r.sort /\ r.page /\ r.filter
    /\ r.s2eq
    /\ r.variants

-----------------------------------------------------------------------------
(* Intended parser (operational), used at model level                        *)
Rk(x) == CASE x = "id" -> 0 [] x = "q" -> 1 [] x = "r" -> 2 [] x = "rs" -> 3 [] x = "s" -> 4
           [] x = "x" -> 5 [] x = "y" -> 6 [] x = "z" -> 7 [] OTHER -> 9
RECURSIVE SortNames(_)
SortNames(S) == IF S = {} THEN <<>>
                ELSE LET m == CHOOSE x \in S : \A y \in S : Rk(x) <= Rk(y) IN <<m>> \o SortNames(S \ {m})
Parse(req) ==
    LET rt == Route(req.frags) IN
    IF ~rt.ok \/ req.unknown \/ req.filter \in {"empty", "bad"}
       \/ (\E t \in DOMAIN req.fields : t \notin Types)
       \/ (\E u \in DOMAIN req.fields : ~NoDup(SelectSeq(req.fields[u], LAMBDA n : n \in FieldsOf(u) \cup {"id"})))
    THEN [ret |-> "err", restype |-> "", iscol |-> FALSE, fields |-> <<>>, include |-> <<>>, sort |-> <<>>]
    ELSE LET t0 == rt.restype
             valid == ValidReq(req, t0)
             maximal == {p \in valid : ~\E q \in valid : ProperPrefix(p, q)}
             incTypes == UNION { {ChainRels(t0, p)[i].tt : i \in 1..Len(p)} : p \in maximal }
             ftypes == {t0} \cup incTypes \cup DOMAIN req.fields
             fld(t) == LET asked == IF t \in DOMAIN req.fields THEN ValidNames(t, req.fields[t]) ELSE {}
                       IN SortNames(IF asked = {} THEN FieldsOf(t) ELSE asked)
             kept == Keep(req.sort, t0, {})
             keptNames == {kept[i].name : i \in 1..Len(kept)}
             rest == SortNames(AttrsOf(t0) \ keptNames)
             srt == kept \o [i \in 1..Len(rest) |-> [name |-> rest[i], desc |-> FALSE]]
                         \o (IF "id" \in keptNames THEN <<>> ELSE <<[name |-> "id", desc |-> FALSE]>>)
         IN [ret |-> "ok", restype |-> t0, iscol |-> rt.iscol,
             fields |-> [t \in ftypes |-> fld(t)],
             include |-> LET ps == SetToSeq(maximal) IN [i \in 1..Len(ps) |-> ChainRels(t0, ps[i])],
             sort |-> IF rt.iscol THEN srt ELSE <<>>]

-----------------------------------------------------------------------------
(* Deviations of the pinned code                                           *)
Dev_EmptyFilterPanics(e) == e.ev = "url" /\ e.out.ret = "panic" /\ e.req.filter = "empty"
Dev_TooManySortRulesPanics(e) ==
    /\ e.ev = "url" /\ e.out.ret = "panic" /\ e.req.filter # "empty"
    /\ Route(e.req.frags).ok /\ Route(e.req.frags).iscol
    /\ Len(e.req.sort) > Cardinality(AttrsOf(Route(e.req.frags).restype)) + 1
\* String() writes ids, filter labels, filter JSON and page values unescaped
Dev_StringDoesNotEscape(e) ==
    /\ e.ev = "chain" /\ e.ret = "ok" /\ ~ChainOK(e.r) /\ e.special /\ ~e.jsonlbl
\* (fixed) a filter label is read as the content of a JSON string but was written as
\* it is: with a backslash, a quote, a control character or a leading brace in it the
\* text was refused by the parser or read as another label
Dev_LabelNotJSONEncoded(e) ==
    /\ e.ev = "chain" /\ e.ret = "ok" /\ ~ChainOK(e.r) /\ e.jsonlbl
\* (fixed) "r" was dropped because "rs" starts with the same letters
Dev_IncludePruning(e) ==
    /\ e.ev = "url" /\ e.out.ret = "ok" /\ ~IncludeOK(e.req, e.out)
    /\ FieldsOK(e.req, e.out) /\ SortOK(e.req, e.out)
    /\ \A i \in 1..Len(e.out.include) :
          LET c == e.out.include[i] IN c # <<>> /\ c = ChainRels(e.out.restype, [k \in 1..Len(c) |-> c[k].fn])
\* NewParams removes an invalid include while walking the list and skips the element
\* that takes its place: an invalid path that follows another invalid one stays and is
\* turned into a chain of zero relationships.  Pinned by TestParseParams ("sort param
\* with many unescaped commas"), whose expected Fields rely on the skipped element.
\* Identified as: at least two requested paths are invalid, and the URL is consistent
\* once the chains that are not chains of the schema are taken out.
Dev_InvalidIncludeAfterInvalidKept(e) ==
    /\ e.ev = "url" /\ e.out.ret = "ok" /\ ~IncludeOK(e.req, e.out)
    /\ FieldsOK(e.req, e.out) /\ SortOK(e.req, e.out)
    /\ LET names(c) == [k \in 1..Len(c) |-> c[k].fn]
           good == SelectSeq(e.out.include, LAMBDA c : c # <<>> /\ c = ChainRels(e.out.restype, names(c)))
           invalid == {p \in Requested(e.req) : ~IsChain(e.out.restype, p)}
       IN /\ Len(good) < Len(e.out.include)
          /\ Cardinality(invalid) >= 2
          \* every chain kept wrongly stands behind one that was taken out: at most half of them stay
          /\ 2 * (Len(e.out.include) - Len(good)) <= Cardinality(invalid)
          /\ IncludeOK(e.req, [e.out EXCEPT !.include = good])
\* (fixed) String() wrote page[number] and page[size] only: any other page argument the parser had
\* accepted and kept (a cursor) was missing from the text, so parsing it did not recover the page
\* parameters.  Identified as: only the page parameters differ, and the request has such an argument.
Dev_StringDropsOtherPageArguments(e) ==
    /\ e.ev = "chain" /\ e.ret = "ok" /\ ~ChainOK(e.r) /\ e.req.page = "other"
    /\ e.r.s1parses /\ e.r.frags /\ e.r.restype /\ e.r.resid /\ e.r.rel /\ e.r.fields /\ e.r.sort /\ e.r.filter /\ ~e.r.page
\* URL.String cuts a separator that is not there when a type has no selected field and
\* writes "fields%5Btype%": the text does not parse back to the same selection.  Pinned
\* by the golden files of TestMarshalDocument (self links "...?fields%5Bmocktype%").
Dev_StringMalformedForEmptyFieldList(e) ==
    /\ e.ev = "chain" /\ e.ret = "ok" /\ ~ChainOK(e.r) /\ e.hasempty
    /\ e.r.frags /\ e.r.restype /\ e.r.resid /\ e.r.rel /\ e.r.sort /\ e.r.page /\ e.r.filter
=============================================================================
