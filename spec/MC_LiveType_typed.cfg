SPECIFICATION Spec
CONSTANTS
  N = 2
  Depth = 7
VIEW ViewSt
INVARIANTS InvTyped
CHECK_DEADLOCK FALSE
