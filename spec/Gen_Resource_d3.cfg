SPECIFICATION Spec
CONSTANTS
  MaxObjs = 3
  Depth = 3
VIEW View
INVARIANTS EmitState
CHECK_DEADLOCK FALSE
