SPECIFICATION Spec
CONSTANTS
  NProcs = 2
  NOps = 1
  UseDev = TRUE
INVARIANTS NoRace
CHECK_DEADLOCK FALSE
