SPECIFICATION Spec
CONSTANTS
  MaxObjs = 3
  Depth = 25
INVARIANTS InvTyped EmitWalk
CHECK_DEADLOCK FALSE
