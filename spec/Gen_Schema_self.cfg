SPECIFICATION GenSpec
CONSTANTS
  TN = {"a"}
  AN = {}
  RN = {"r", "s"}
  MaxTypes = 1
  Rich = TRUE
VIEW View
INVARIANTS EmitState
CHECK_DEADLOCK FALSE
