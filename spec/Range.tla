-------------------------------- MODULE Range --------------------------------
(* jsonapi.Range (range.go): select by id, filter, sort by rules, cut a page. *)
(* Serves C09.  A resource: [id, x, y] with x, y values as in Filter.tla.     *)
(* A rule: [f |-> "x" | "y" | "id", desc |-> BOOLEAN].                        *)
EXTENDS Filter

IdRank(i) == CASE i = "a" -> 1 [] i = "b" -> 2 [] i = "c" -> 3 [] i = "d" -> 4 [] i = "e" -> 5
               [] i = "f" -> 6 [] i = "g" -> 7 [] i = "h" -> 8 [] OTHER -> 99

\* three-way comparison of two resources under one rule; nilmode says where nil
\* goes under a descending rule: "reverse" (the whole order reversed) or "first"
Cmp1(a, b, r, nilmode) ==
    IF r.f = "id" THEN
        LET c == IF IdRank(a.id) < IdRank(b.id) THEN -1 ELSE IF IdRank(a.id) > IdRank(b.id) THEN 1 ELSE 0
        IN IF r.desc THEN -c ELSE c
    ELSE
        LET va == IF r.f = "x" THEN a.x ELSE a.y
            vb == IF r.f = "x" THEN b.x ELSE b.y
        IN IF va.nil /\ vb.nil THEN 0
           ELSE IF va.nil THEN (IF r.desc /\ nilmode = "reverse" THEN 1 ELSE -1)
           ELSE IF vb.nil THEN (IF r.desc /\ nilmode = "reverse" THEN -1 ELSE 1)
           ELSE LET c == IF LexLess(va.s, vb.s) THEN -1 ELSE IF LexLess(vb.s, va.s) THEN 1 ELSE 0
                IN IF r.desc THEN -c ELSE c

RECURSIVE Cmp(_, _, _, _)
Cmp(a, b, rules, nilmode) ==
    IF rules = <<>> THEN 0
    ELSE LET c == Cmp1(a, b, Head(rules), nilmode) IN
         IF c # 0 THEN c ELSE Cmp(a, b, Tail(rules), nilmode)

RECURSIVE Concat(_)
Concat(pages) == IF pages = <<>> THEN <<>> ELSE Head(pages) \o Concat(Tail(pages))

ById(col, i) == CHOOSE r \in AsSet(col) : r.id = i

\* the filter: none, a leaf on x, a group around the leaf, or a group without members at the root -
\* an empty and allows everything, an empty or (or a list under an operator that is none) nothing
FltWrap(e) == IF "wrap" \in DOMAIN e.flt THEN e.flt.wrap ELSE ""
FltPass(e, r) ==
    CASE FltWrap(e) = "and0" -> TRUE
      [] FltWrap(e) \in {"or0", "nope0"} -> FALSE
      [] OTHER -> ~e.flt.on \/ Leaf(e.cls, e.flt.op, r.x, e.flt.cv)

Matching(e) ==
    { r \in AsSet(e.col) :
        /\ (e.ids = <<>> \/ r.id \in AsSet(e.ids))
        /\ FltPass(e, r) }

SortedUnder(e, p, nilmode) ==
    \A i \in 1..(Len(p) - 1) : Cmp(ById(e.col, p[i]), ById(e.col, p[i + 1]), e.rules, nilmode) <= 0

Min(a, b) == IF a < b THEN a ELSE b
Max(a, b) == IF a > b THEN a ELSE b

\* one run = the pages 0, 1, 2, ... obtained from one input order
RunOK(e, run) ==
    LET p == Concat(run.pages)
        m == {r.id : r \in Matching(e)}
    IN /\ run.after = run.order          \* the input collection keeps its members and order
       /\ run.nonnil
       /\ \A k \in 1..Len(run.pages) :    \* page k-1 holds positions [(k-1)*size, k*size)
             Len(run.pages[k]) = Min(e.size, Max(0, Cardinality(m) - (k - 1) * e.size))
       /\ e.size > 0 =>
             /\ AsSet(p) = m /\ Len(p) = Cardinality(m)
             /\ (SortedUnder(e, p, "reverse") \/ SortedUnder(e, p, "first"))

RangeOK(e) ==
    /\ e.ret = "ok"
    /\ \A i \in 1..Len(e.runs) : RunOK(e, e.runs[i])
    \* with id among the rules the order is total: every input order gives the same pages
    /\ (\E i \in 1..Len(e.rules) : e.rules[i].f = "id") =>
          \A i, j \in 1..Len(e.runs) : e.runs[i].pages = e.runs[j].pages

-----------------------------------------------------------------------------
(* Deviations of the pinned code                                           *)
\* uint64, *uint64 and *[]byte are missing from sortedResources.Less: a rule on an
\* attribute of such a kind is skipped (pinned by TestSortResources, whose expected
\* order was computed with these rules skipped).  Identified as: the recorded pages
\* are exactly right for the rule list with the rules on such attributes removed.
MissingKinds == {"uint64", "*uint64", "*bytes"}
Dev_KindMissingFromLess(e) ==
    /\ e.ev = "range" /\ e.ret = "ok" /\ ~RangeOK(e)
    /\ LET keep == SelectSeq(e.rules, LAMBDA r : ~((r.f = "x" /\ e.kindx \in MissingKinds) \/
                                                    (r.f = "y" /\ e.kindy \in MissingKinds)))
       IN keep # e.rules /\ RangeOK([e EXCEPT !.rules = keep])
\* (fixed) the page bounds were computed as int: a size from 2^63 up ("everything on
\* one page") became negative and the first page came back empty.  e.huge > 0: the
\* real size was one of the huge ones, e.size is a stand-in larger than the collection
Dev_HugeSizeEmptyPage(e) ==
    /\ e.ev = "range" /\ e.ret = "ok" /\ ~RangeOK(e) /\ e.huge > 0
    /\ \A i \in 1..Len(e.runs) : \A k \in 1..Len(e.runs[i].pages) : e.runs[i].pages[k] = <<>>
\* a wrapped struct returns an untyped nil for a nil pointer: v2.(*T) panics
Dev_WrappedNilPanicsInLess(e) ==
    /\ e.ev = "range" /\ e.ret = "panic" /\ e.impl \in {"wrap", "mixed"}
    /\ \E r \in AsSet(e.col) : r.x.nil \/ r.y.nil
=============================================================================
