--------------------------- MODULE MC_MetaHolders ---------------------------
(* (M) the meta design over every history of Depth calls; (A) the alphabet   *)
(* and one history per reachable state.                                      *)
EXTENDS MetaHolders, Json, SequencesExt

CONSTANTS Depth, UseVals

Op(o, h, g, k, v) == [op |-> o, h |-> h, g |-> g, k |-> k, v |-> v]
Alphabet ==
       { Op("Put", h, "", k, v) : h \in Holders, k \in Keys, v \in UseVals }
  \cup { Op("Del", h, "", k, "") : h \in Holders, k \in Keys }
  \cup { Op("Share", s[1], s[2], "", "") : s \in {s \in Holders \X Holders : s[1] # s[2]} }
  \cup { Op("Copy", h, "", "", "") : h \in Resources }
  \cup { Op("Wire", h, "", "", "") : h \in Holders }

VARIABLES st, hist
vars == <<st, hist>>
Init == st = Init0 /\ hist = <<>>
Next == /\ Len(hist) < Depth
        /\ \E op \in Alphabet : st' = Step(st, op) /\ hist' = Append(hist, op)
Spec == Init /\ [][Next]_vars
\* what can be told apart from outside: what every holder shows, who shares with whom, the ghost
ViewSt == <<[h \in Holders |-> <<IsNil(st, h), Show(st, h), Sharers(st, h)>>], st.ints, Len(hist)>>

InvHeap == /\ \A h \in Holders : st.ptr[h] \in 0..(st.nxt - 1)
           /\ Len(st.heap) = st.nxt - 1
           /\ \A h \in Holders : st.ints[h] \subseteq DOMAIN Show(st, h)
InvDocGetString == DocGetString(st)
InvIntReadable == IntReadable(st)
LastOp == hist'[Len(hist')]
\* a write through one holder shows through exactly the holders that share its map
OnlySharersChange ==
    [][LastOp.op \in {"Put", "Del"} =>
         \A g \in Holders : g \notin Sharers(st, LastOp.h) =>
              Show(st', g) = Show(st, g) /\ IsNil(st', g) = IsNil(st, g)]_vars
SharersSeeTheSame ==
    [][LastOp.op \in {"Put", "Del"} => \A g \in Sharers(st', LastOp.h) : Show(st', g) = Show(st', LastOp.h)]_vars
\* the wire gives the holder a map nobody shares, and nothing in it that encoding/json would not read
WireFresh ==
    [][LastOp.op = "Wire" =>
         /\ Sharers(st', LastOp.h) = {LastOp.h}
         /\ \A k \in DOMAIN Show(st', LastOp.h) : Show(st', LastOp.h)[k] \notin {"i_7", "T_1"}
         /\ DOMAIN Show(st', LastOp.h) = DOMAIN Show(st, LastOp.h)
         /\ \A g \in Holders \ {LastOp.h} : Show(st', g) = Show(st, g) /\ st'.ptr[g] = st.ptr[g]]_vars
\* the wire is idempotent on what is shown
WireTwice == \A h \in Holders : LET s1 == Step(st, Op("Wire", h, "", "", "")) IN
                 Show(Step(s1, Op("Wire", h, "", "", "")), h) = Show(s1, h)
EmitAlpha == PrintT(<<"ALPHA", ToJson(SetToSeq(Alphabet))>>)
EmitAlphaOnce == hist # <<>> \/ EmitAlpha
EmitState == PrintT(<<"S", ToJson([hist |-> hist])>>)
=============================================================================
