SPECIFICATION Spec
CONSTANTS
  NProcs = 3
  NOps = 2
  UseDev = FALSE
INVARIANTS NoRace SchemaUnchanged EmitSched
CHECK_DEADLOCK FALSE
