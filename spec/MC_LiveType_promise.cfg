SPECIFICATION Spec
CONSTANTS
  N = 2
  Depth = 7
VIEW ViewSt
INVARIANTS InvPromise
CHECK_DEADLOCK FALSE
