SPECIFICATION Spec
CONSTANTS
  Depth = 5
  UseVals = {"s_abc", "i_7", "f_2p5", "nil", "T_1"}
VIEW ViewSt
INVARIANTS InvHeap WireTwice
PROPERTIES OnlySharersChange SharersSeeTheSame WireFresh
CHECK_DEADLOCK FALSE
