------------------------------ MODULE LiveType ------------------------------
(* Growth family G01 (outside the twenty listed properties): soft resources  *)
(* that share one *Type while the type is edited - directly (Type.AddAttr,   *)
(* Type.RemoveAttr: what Schema.AddAttr / RemoveAttr do to a schema type) or *)
(* through any of the resources (SoftResource.AddAttr / RemoveField).        *)
(*                                                                           *)
(* soft_resource.go says: "Changing the type automatically changes the       *)
(* resource's attributes and relationships.  When a field is added, its      *)
(* value is the zero value of the field's type."  The code keeps that        *)
(* promise lazily: every public method of a SoftResource first runs check(), *)
(* which gives a zero value to the fields it has no value for and drops the  *)
(* values of names that are no fields any more.  Nothing runs on the         *)
(* resources that merely share the type.  This module models exactly that    *)
(* (one action per public call, check() as its first micro-step), next to    *)
(* the view the documentation promises (want), so that TLC can say where the *)
(* two part: a name that is removed and added again before a resource was    *)
(* touched keeps, in that resource, the value stored under the old field -   *)
(* of the old kind if the kind changed.                                      *)
(*                                                                           *)
(* st = [ty    |-> [name -> kind]                the shared type's attributes *)
(*       data  |-> <<[name -> value]>>            sr.data of each resource   *)
(*       want  |-> <<[name -> value]>>            what the documentation says *)
(*       stale |-> <<set of names>>]              added while an old value was kept *)
(* value = [k |-> kind, v |-> 0..2]: 0 is the zero value (nil for "pint")     *)
EXTENDS Integers, Sequences, FiniteSets, TLC

Names == {"a", "b"}
NameOrder == <<"a", "b">>
Kinds == {"string", "int", "pint"}        \* pint: a nullable int
Val(k, v) == [k |-> k, v |-> v]
Zero(k) == Val(k, 0)

Put(f, x, y) == [z \in DOMAIN f \cup {x} |-> IF z = x THEN y ELSE f[z]]
Drop(f, x) == [z \in DOMAIN f \ {x} |-> f[z]]
None == [z \in {} |-> 0]                   \* the function without any argument

Init0(n) == [ty |-> None, data |-> [i \in 1..n |-> None], want |-> [i \in 1..n |-> None], stale |-> [i \in 1..n |-> {}]]
NRes(st) == Len(st.data)

\* check(): zero values for the fields without a value, no value for what is no field
Sync(st, i) ==
    [st EXCEPT !.data[i] = [f \in DOMAIN st.ty |-> IF f \in DOMAIN st.data[i] THEN st.data[i][f] ELSE Zero(st.ty[f])],
               !.stale[i] = st.stale[i] \cap DOMAIN st.ty]     \* a value that is dropped is not kept

\* what resource i shows once it is looked at
View(st, i) == Sync(st, i).data[i]
AsSeq(fn) == LET on == SelectSeq(NameOrder, LAMBDA f : f \in DOMAIN fn)
             IN [j \in 1..Len(on) |-> [f |-> on[j], k |-> fn[on[j]].k, v |-> fn[on[j]].v]]

\* the shared type gains / loses an attribute; no resource is touched
\* (a resource that still holds a value under the name - it was not looked at since the name was
\* removed - will show that value under the new field: the name is stale there)
AddToType(st, f, k) ==
    [st EXCEPT !.ty = Put(st.ty, f, k), !.want = [i \in 1..NRes(st) |-> Put(st.want[i], f, Zero(k))],
               !.stale = [i \in 1..NRes(st) |-> st.stale[i] \cup ({f} \cap DOMAIN st.data[i])]]
RemoveFromType(st, f) ==
    [st EXCEPT !.ty = Drop(st.ty, f), !.want = [i \in 1..NRes(st) |-> Drop(st.want[i], f)]]

\* op = [op, i, f, k, v]; result = [post, ret, obs]
Step(st, op) ==
    CASE op.op = "TAdd" ->      \* Type.AddAttr
           IF op.f \in DOMAIN st.ty THEN [post |-> st, ret |-> "err", obs |-> <<>>]
           ELSE [post |-> AddToType(st, op.f, op.k), ret |-> "ok", obs |-> <<>>]
      [] op.op = "TRemove" ->   \* Type.RemoveAttr
           [post |-> RemoveFromType(st, op.f), ret |-> "ok", obs |-> <<>>]
      [] op.op = "RAdd" ->      \* SoftResource.AddAttr: check(), then the type gains the attribute unless the name is taken
           LET s == Sync(st, op.i) IN
           [post |-> IF op.f \in DOMAIN s.ty THEN s ELSE AddToType(s, op.f, op.k), ret |-> "ok", obs |-> <<>>]
      [] op.op = "RRemove" ->   \* SoftResource.RemoveField: check(), then the type loses the field
           [post |-> RemoveFromType(Sync(st, op.i), op.f), ret |-> "ok", obs |-> <<>>]
      [] op.op = "Set" ->       \* SoftResource.Set: check(), then a value of the field's current kind is stored
           LET s == Sync(st, op.i) IN
           [post |-> IF op.f \in DOMAIN s.ty /\ s.ty[op.f] = op.k
                     THEN [s EXCEPT !.data[op.i] = Put(s.data[op.i], op.f, Val(op.k, op.v)),
                                    !.want[op.i] = Put(s.want[op.i], op.f, Val(op.k, op.v)),
                                    !.stale[op.i] = s.stale[op.i] \ {op.f}]
                     ELSE s,
            ret |-> "ok", obs |-> <<>>]
      [] op.op = "Read" ->      \* Attrs() and Get of every attribute: check(), then the stored values
           LET s == Sync(st, op.i) IN [post |-> s, ret |-> "ok", obs |-> AsSeq(s.data[op.i])]

-----------------------------------------------------------------------------
(* What holds of the lazy design, whatever the interleaving                  *)
\* a resource that is looked at shows exactly the type's attributes ...
ShowsTheFields(st) == \A i \in 1..NRes(st) : DOMAIN View(st, i) = DOMAIN st.ty
\* ... and the promised value for every name but the stale ones (added again while the resource still
\* held the value of the field removed under that name, and not set since)
FreshUnlessReAdded(st) ==
    \A i \in 1..NRes(st) : \A f \in DOMAIN st.ty : f \notin st.stale[i] => View(st, i)[f] = st.want[i][f]
\* the promise itself, which the lazy design does NOT keep (TLC shows the shortest history)
Promise(st) == \A i \in 1..NRes(st) : View(st, i) = st.want[i]
\* a weaker promise, not kept either: what a resource shows is at least a value of the field's kind
Typed(st) == \A i \in 1..NRes(st) : \A f \in DOMAIN st.ty : View(st, i)[f].k = st.ty[f]

\* the deviation, event by event: a Read that shows something else than the promised view
Dev_StaleValueAfterReAdd(st, op, obs) == op.op = "Read" /\ obs # AsSeq(Sync(st, op.i).want[op.i])
=============================================================================
