----------------------------- MODULE MC_Document -----------------------------
(* (M) an operational MarshalDocument / Include over a bounded universe of    *)
(* documents satisfies WellFormed, Selected, NoDupLinkage; every document     *)
(* built by a history of Include calls keeps the linkage unique.              *)
EXTENDS Document, SequencesExt

V(r)   == [nil |-> FALSE, r |-> r, ids |-> <<>>]
NilV   == [nil |-> TRUE, r |-> 0, ids |-> <<>>]
Ids(q) == [nil |-> FALSE, r |-> 0, ids |-> q]

R1(id, o, m) == [type |-> "t1", id |-> id, extra |-> FALSE, vals |-> [a |-> V(1), n |-> NilV, o |-> Ids(o), m |-> Ids(m), o2 |-> Ids(<<>>), m2 |-> Ids(<<"w">>)]]
R2(id, p)    == [type |-> "t2", id |-> id, extra |-> FALSE,
                 vals |-> [f \in {"b", "p", "o"} \cup T2Extra |-> IF f = "p" THEN Ids(p) ELSE IF f = "o" THEN Ids(<<>>) ELSE IF f = "b" THEN V(2) ELSE V(1)]]
Pool == { R1("x", <<>>, <<>>), R1("y", <<"u">>, <<"v", "u">>), R2("u", <<"x">>), R2("x", <<>>) }

FieldSels == { <<>>, <<"a">>, <<"a", "o">>, <<"n", "m", "o", "a", "m2", "o2">>, <<"id", "zz", "a">>, <<"m", "m", "m2">> }
DataSels  == { <<>>, <<"o">>, <<"m", "o">>, <<"zz">>, <<"m2">> }

VARIABLES doc, st, steps
vars == <<doc, st, steps>>

KeyOf(r) == <<r.type, r.id>>
Init == \E k \in {"null", "one", "many", "errors"}, f1 \in FieldSels, d1 \in DataSels, miss \in BOOLEAN,
           p \in {<<>>} \cup {<<a>> : a \in Pool} \cup {<<a, b>> : a \in Pool, b \in Pool} :
        /\ (k = "one" => Len(p) = 1) /\ (k \in {"null", "errors"} => p = <<>>)
        /\ NoDup([i \in 1..Len(p) |-> KeyOf(p[i])])
        /\ doc = [kind |-> k, primary |-> p, included |-> <<>>, nerrors |-> IF k = "errors" THEN 1 ELSE 0,
                  fields |-> IF miss THEN [t1 |-> f1] ELSE [t1 |-> f1, t2 |-> <<"c7", "b", "p", "c1">>],
                  reldata |-> [t1 |-> d1, t2 |-> <<"p">>]]
        /\ st = [primary |-> [i \in 1..Len(p) |-> KeyOf(p[i])], included |-> <<>>]
        /\ steps = 0

\* Include(res) for any pool resource
Include(r) ==
    /\ steps < 3
    /\ st' = IncludeRes(st, KeyOf(r))
    /\ doc' = IF st' = st THEN doc ELSE [doc EXCEPT !.included = Append(@, r)]
    /\ steps' = steps + 1
Next == \E r \in Pool : Include(r)
Spec == Init /\ [][Next]_vars

\* operational marshal: the abstract output
ObjOf(r) ==
    [type |-> r.type, id |-> r.id, typestr |-> TRUE, idstr |-> TRUE, selfok |-> TRUE,
     attrs |-> [f \in ExpAttrs(doc, r) |-> r.vals[f]],
     rels |-> [f \in ExpRels(doc, r) |->
                 [selfok |-> TRUE, relatedok |-> TRUE, data |-> ExpData(doc, r, f),
                  ids |-> IF ExpData(doc, r, f) \in {"one", "many"} THEN r.vals[f].ids ELSE <<>>, typesok |-> TRUE]]]
RECURSIVE InsById(_, _)
InsById(s, r) == IF s = <<>> THEN <<r>>
                 ELSE IF r.id = "u" \/ (r.id = "x" /\ Head(s).id = "y") THEN <<r>> \o s
                 ELSE <<Head(s)>> \o InsById(Tail(s), r)
MarshalOp ==
    LET errs == doc.nerrors > 0
        hasdata == ~errs
        incs == IF hasdata THEN [i \in 1..Len(doc.included) |-> ObjOf(doc.included[i])] ELSE <<>>
    IN [valid |-> TRUE, topobject |-> TRUE, hasjsonapi |-> TRUE, selflink |-> TRUE,
        hasdata |-> hasdata, haserrors |-> errs, hasincluded |-> Len(incs) > 0,
        data |-> IF hasdata THEN [i \in 1..Len(doc.primary) |-> ObjOf(doc.primary[i])] ELSE <<>>,
        included |-> incs]

InvWellFormed == WellFormed(doc, MarshalOp)
InvSelected   == Selected(doc, MarshalOp)
InvNoDup      == NoDupLinkage(MarshalOp) /\ NoDup(st.primary \o st.included)
InvIncluded   == [i \in 1..Len(doc.included) |-> KeyOf(doc.included[i])] = st.included
\* nothing outside the selection leaks: every exposed member is selected and belongs to the type
InvNoLeak == \A o \in AsSet(MarshalOp.data) \cup AsSet(MarshalOp.included) :
                /\ DOMAIN o.attrs \subseteq AttrsOf(o.type) \cap Sel(doc, o.type)
                /\ DOMAIN o.rels \subseteq RelsOf(o.type) \cap Sel(doc, o.type)
                /\ \A f \in DOMAIN o.rels : o.rels[f].data # "absent" => f \in Data(doc, o.type)
=============================================================================
