--------------------------- MODULE MC_SharedSchema ---------------------------
(* (M) every interleaving of NProcs processes running NOps operations each:     *)
(* with the intended footprints no two overlapping operations conflict and the  *)
(* schema never changes; (A) every complete schedule is emitted for replay      *)
(* under the race detector.                                                     *)
EXTENDS SharedSchema, Json

CONSTANTS NProcs, NOps, UseDev

VARIABLES open,   \* process -> operation in flight or ""
          done,   \* process -> number of completed operations
          mem,    \* location -> version (bumped by a write)
          hist
vars == <<open, done, mem, hist>>
P == 1..NProcs

W(op) == Wr(UseDev, op)

Init == open = [p \in P |-> ""] /\ done = [p \in P |-> 0] /\ mem = [l \in Locs |-> 0] /\ hist = <<>>
Begin(p, op) == /\ open[p] = "" /\ done[p] < NOps
                /\ open' = [open EXCEPT ![p] = op]
                /\ mem' = [l \in Locs |-> IF l \in W(op) THEN mem[l] + 1 ELSE mem[l]]
                /\ hist' = Append(hist, [p |-> p, op |-> op, ph |-> "B"])
                /\ UNCHANGED done
End(p) == /\ open[p] # ""
          /\ hist' = Append(hist, [p |-> p, op |-> open[p], ph |-> "E"])
          /\ open' = [open EXCEPT ![p] = ""] /\ done' = [done EXCEPT ![p] = @ + 1]
          /\ UNCHANGED mem
Next == \E p \in P : End(p) \/ \E op \in Ops : Begin(p, op)
Spec == Init /\ [][Next]_vars

NoRace == \A p, q \in P : (p # q /\ open[p] # "" /\ open[q] # "") => ~Conflict(UseDev, open[p], open[q])
SchemaUnchanged == \A l \in Locs : mem[l] = 0
HistAgrees == WellFormedSched(hist) \/ \E p \in P : open[p] # ""

AllDone == \A p \in P : done[p] = NOps
EmitSched == AllDone => PrintT(<<"SCHED", ToJson([sched |-> hist])>>)
=============================================================================
