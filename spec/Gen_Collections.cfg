SPECIFICATION Spec
CONSTANT MaxItems = 3
VIEW ViewCol
INVARIANTS EmitState EmitAlpha
CHECK_DEADLOCK FALSE
