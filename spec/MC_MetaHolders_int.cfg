SPECIFICATION Spec
CONSTANTS
  Depth = 2
  UseVals = {"s_abc", "i_7"}
VIEW ViewSt
INVARIANTS InvIntReadable
CHECK_DEADLOCK FALSE
