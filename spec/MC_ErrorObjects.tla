--------------------------- MODULE MC_ErrorObjects ---------------------------
(* (M) invariants of the error-object design over every history of Depth     *)
(* calls on N slots; (A) the alphabet and one history per reachable state.   *)
EXTENDS ErrorObjects, Json, SequencesExt

CONSTANTS N, Depth, UseCtors

Args == {<<"x", "y", "z">>, <<"", "", "">>, <<"y", "y", "y">>}
Statuses == {"", "400", "404", "0404", "+404", "abc", "999", "200", "503"}
Op(o, i, c, a, f, v) == [op |-> o, i |-> i, c |-> c, a |-> a, f |-> f, v |-> v]
NoArgs == <<"", "", "">>
Alphabet ==
       { Op("New", i, c, a, "", "") : i \in 1..N, c \in UseCtors, a \in Args }
  \cup { Op("SetText", i, "", NoArgs, "status", s) : i \in 1..N, s \in Statuses }
  \cup { Op("SetText", i, "", NoArgs, f, v) : i \in 1..N, f \in Texts \ {"status"}, v \in {"", "t"} }
  \cup { Op("Put", i, m, NoArgs, k, v) : i \in 1..N, m \in Maps, k \in {"k", "type"}, v \in {"m", ""} }
  \cup { Op("Delete", i, m, NoArgs, k, "") : i \in 1..N, m \in Maps, k \in {"k", "type", "parameter"} }
  \cup { Op("Look", i, "", NoArgs, "", "") : i \in {1} }

VARIABLES st, hist
vars == <<st, hist>>
Init == st = Init0(N) /\ hist = <<>>
Next == /\ Len(hist) < Depth
        /\ \E op \in Alphabet : op.op # "Look" /\ st' = Step(st, op) /\ hist' = Append(hist, op)
Spec == Init /\ [][Next]_vars
ViewSt == st

InvCtors == \A c \in Ctors, a \in Args : CtorWellFormed(c, a)
InvTextTotal == \A i \in 1..N : TextTotal(st[i])
InvDocText == \A i \in 1..N : DocText(st[i])
\* a call about one slot changes no other slot
OthersUntouched == [][\A i \in 1..N : i # hist'[Len(hist')].i => st'[i] = st[i]]_vars
EmitAlpha == PrintT(<<"ALPHA", ToJson(SetToSeq(Alphabet))>>)
EmitAlphaOnce == hist # <<>> \/ EmitAlpha
EmitState == PrintT(<<"S", ToJson([hist |-> hist])>>)
=============================================================================
