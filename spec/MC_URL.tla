------------------------------- MODULE MC_URL -------------------------------
(* (M) the intended parser is consistent with the schema on every request of  *)
(* a bounded universe (each request an initial state), and its sorting rules  *)
(* define a total order; (A) the component vocabularies are emitted for the   *)
(* driver, which renders raw URLs from them.                                  *)
EXTENDS URL, Json

Rule(n, d) == [name |-> n, desc |-> d]
FragsV == { <<"ta">>, <<"ta", "1">>, <<"ta", "1", "r">>, <<"ta", "1", "rs">>, <<"ta", "1", "relationships", "rs">>,
            <<"ta", "1", "relationships", "r">>, <<"tb">>, <<"tb", "2", "s">>, <<"tc">>, <<"tc", "3">>, <<"zz">>, <<>>,
            <<"ta", "1", "zz">>, <<"ta", "1", "relationships", "zz">>, <<"ta", "1", "rs", "x", "y", "z">>, <<"meta">>,
            <<"ta", "1", "relationships">>, <<"tb", "2", "relationships">>, <<"ta", "1", "rs", "x", "r">>,
            <<"ta", "1", "relationships", "rs", "x">>, <<"td">>, <<"ta", "1", "t">>,
            <<"e">>, <<"e", "1">>, <<"ta", "meta">>, <<"tb", "relationships">>, <<"ta", "meta", "rs">>,
            \* five fragments and more, the last one a to-many relationship
            <<"ta", "1", "x", "y", "rs">>, <<"ta", "1", "relationships", "rs", "rs">>, <<"tb", "2", "a", "b", "c", "s">> }
FieldsV == { <<>>, [ta |-> <<"x">>], [ta |-> <<"x", "y", "r">>], [ta |-> <<"x", "x">>], [ta |-> <<>>],
             [ta |-> <<"id", "zz">>], [ta |-> <<"id">>], [ta |-> <<"id", "x", "id">>], [tb |-> <<"id", "id">>], [tb |-> <<"z">>], [zz |-> <<"a">>], [tc |-> <<"id">>],
             [ta |-> <<"rs", "r">>, tb |-> <<"q", "z", "zz">>], [tc |-> <<"zz">>], [tb |-> <<"z", "s", "z">>], [td |-> <<"q", "w">>, tb |-> <<"z">>],
             [e |-> <<"v">>], [e |-> <<"id">>, ta |-> <<"x">>],
             \* two names that differ by their case only, in both orders
             [ta |-> <<"X", "x">>], [ta |-> <<"x", "y", "X">>, tb |-> <<"z">>], [ta |-> <<"x", "X", "x">>],
             \* each list names a field of the other type
             [ta |-> <<"x", "z">>, tb |-> <<"z", "x">>], [ta |-> <<"q">>, tb |-> <<"r", "y">>, td |-> <<"x", "w">>] }
SortV == { <<>>, <<Rule("x", FALSE)>>, <<Rule("x", TRUE)>>, <<Rule("id", FALSE)>>, <<Rule("id", TRUE), Rule("x", FALSE)>>,
           <<Rule("zz", FALSE)>>, <<Rule("", TRUE)>>, <<Rule("x", FALSE), Rule("x", FALSE)>>,
           <<Rule("x", FALSE), Rule("x", TRUE), Rule("y", FALSE), Rule("id", FALSE)>>,
           <<Rule("y", TRUE), Rule("x", FALSE)>>, <<Rule("z", FALSE), Rule("id", FALSE), Rule("z", TRUE)>>,
           <<Rule("r", FALSE)>>, <<Rule("x", FALSE), Rule("y", FALSE), Rule("x", FALSE)>>,
           <<Rule("y", FALSE), Rule("y", TRUE), Rule("y", FALSE)>>, <<Rule("z", FALSE), Rule("z", FALSE)>>, <<Rule("-x", TRUE)>>, <<Rule("-id", TRUE)>>, <<Rule("-", TRUE), Rule("y", FALSE)>>, <<Rule("x", FALSE), Rule("y", FALSE), Rule("x", FALSE), Rule("y", FALSE), Rule("id", FALSE)>>,
           <<Rule("X", FALSE), Rule("x", TRUE)>>, <<Rule("x", FALSE), Rule("X", FALSE), Rule("x", TRUE)>>,
           \* rules made of white space only
           <<Rule("x", FALSE), Rule(" ", FALSE)>>, <<Rule(" ", FALSE)>>, <<Rule(" ", TRUE), Rule("y", FALSE)>> }
InclV == { <<>>, <<<<"r">>>>, <<<<"rs">>>>, <<<<"r">>, <<"rs">>>>, <<<<"rs">>, <<"r">>>>, <<<<"zz">>, <<"yy">>>>,
           <<<<"zz">>>>, <<<<"r", "q">>>>, <<<<"r">>, <<"r", "q">>>>, <<<<"r", "q", "rs", "s">>>>, <<<<"r", "zz">>>>,
           <<<<"r">>, <<"r", "zz">>>>, <<<<"q">>>>, <<<<"s", "r">>, <<"q">>, <<"zz">>>>, <<<<"r">>, <<"r">>>>,
           <<<<"aa">>, <<"bb">>, <<"rs">>>>, <<<<"rs", "s", "rs">>, <<"rs", "s">>, <<"r">>>>,
           \* a chain of three paths, each extending the one before; a path asked for three times; twice next to its extension
           <<<<"r">>, <<"r", "q">>, <<"r", "q", "rs">>>>, <<<<"r">>, <<"r">>, <<"r">>>>, <<<<"rs">>, <<"rs">>, <<"rs", "s">>>>,
           <<<<"t">>>>, <<<<"r", "q">>, <<"t", "q">>>>, <<<<"t", "q">>, <<"r", "q">>, <<"rs", "q">>>>, <<<<"t", "q", "s">>, <<"r", "q", "t">>>> }
FilterV == {"none", "label", "json", "empty", "bad"}
PageV   == {"none", "size", "sizebad", "both", "other"}    \* other: a page argument that is neither number nor size

VARIABLE req
Mk(f, fl, s, i, ft, p, u) == [frags |-> f, fields |-> fl, sort |-> s, include |-> i, filter |-> ft, page |-> p, unknown |-> u]
\* every component varied against every path, the others at their neutral value
Init == \/ \E f \in FragsV, fl \in FieldsV : req = Mk(f, fl, <<>>, <<>>, "none", "none", FALSE)
        \/ \E f \in FragsV, s \in SortV : req = Mk(f, <<>>, s, <<>>, "none", "none", FALSE)
        \/ \E f \in FragsV, i \in InclV : req = Mk(f, <<>>, <<>>, i, "none", "none", FALSE)
        \/ \E f \in FragsV, ft \in FilterV, p \in PageV, u \in BOOLEAN : req = Mk(f, <<>>, <<>>, <<>>, ft, p, u)
        \/ \E fl \in FieldsV, s \in SortV, i \in InclV : req = Mk(<<"ta">>, fl, s, i, "none", "none", FALSE)
Next == UNCHANGED req
Spec == Init /\ [][Next]_req

InvConsistent == ParseOK(req, Parse(req))
InvTotalOrder == LET o == Parse(req) IN (o.ret = "ok" /\ o.iscol) => \E i \in 1..Len(o.sort) : o.sort[i].name = "id"
\* accepted exactly when the path resolves and no parameter is malformed (vacuity guard: both outcomes occur)
InvRouteNeeded == Parse(req).ret = "ok" => Route(req.frags).ok

Emit == PrintT(<<"VOCAB", ToJson([frags |-> SetToSeq(FragsV), fields |-> SetToSeq(FieldsV), sort |-> SetToSeq(SortV),
                                   include |-> SetToSeq(InclV), filter |-> SetToSeq(FilterV), page |-> SetToSeq(PageV)])>>)
=============================================================================
