SPECIFICATION Spec
CONSTANTS
  MaxItems = 2
  PtrOnly = TRUE
  SetSrcOn = {1, 3}
VIEW View
INVARIANTS EmitState
CHECK_DEADLOCK FALSE
