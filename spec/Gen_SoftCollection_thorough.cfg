SPECIFICATION Spec
CONSTANTS MaxItems = 3
VIEW View
INVARIANTS EmitState
CHECK_DEADLOCK FALSE
