SPECIFICATION Spec
CONSTANTS
  MaxItems = 3
  SetSrcOn = {1}
VIEW View
INVARIANTS EmitState
CHECK_DEADLOCK FALSE
