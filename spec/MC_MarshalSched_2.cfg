SPECIFICATION Spec
CONSTANTS
  Fields <- F2
  RelData <- D2
  ManyIds <- M2
INVARIANTS InvDeterministic InvFrame
CHECK_DEADLOCK FALSE
