------------------------------- MODULE MC_Rel -------------------------------
(* (M) the laws of C16 hold for the intended Normalize over every          *)
(* relationship of the universe; (A) TLC emits every relationship and      *)
(* every coherent schema (grown by AddOneWay / AddTwoWay) of the bound.     *)
EXTENDS Rel, Json, SequencesExt

CONSTANTS TNs, RNs, MaxRels   \* type names, relationship names (symbol sequences)

\* universes (cfg files cannot hold tuples): 1=a 2=b 3=c 4=_
TNsQ == {<<1>>, <<1,2>>, <<1,4,2>>, <<10>>}   \* 10 = "A": a name that differs from "a" by case only
RNsQ == {<<3>>, <<2,3>>, <<2,4,3>>}
TNsT == {<<1>>, <<1,2>>, <<1,4,2>>, <<2>>, <<10>>}
RNsT == {<<3>>, <<2,3>>, <<2,4,3>>, <<1>>}     \* (a fifth name, <<1,2>>, doubled the 12 M states of this universe for no new shape)

\* (a relationship VALUE may also carry the empty type name on either end; no schema holds such a type)
AllRelVals == { [ft |-> a, fn |-> n, to1 |-> c, tt |-> b, tn |-> m, fo1 |-> d] :
                  a \in TNs \cup {<<>>}, b \in TNs \cup {<<>>}, n \in RNs, m \in RNs \cup {<<>>}, c \in BOOLEAN, d \in BOOLEAN }

LawsOfIntended == \A r \in AllRelVals : InDomain(r) => LawsOK(r, ObsOf(Normalize, r))
\* sanity of the named deviation: the pinned rule breaks a law somewhere in the universe
DevBreaksLaw == \E r \in AllRelVals : InDomain(r) /\ ~LawsOK(r, ObsOf(NormalizeByConcatenation, r))
ASSUME LawsOfIntended
ASSUME DevBreaksLaw

VARIABLES types
Init == types \in { [i \in 1..Len(q) |-> [name |-> q[i], rels |-> <<>>]] :
                      q \in {<<>>} \cup { <<a>> : a \in TNs } \cup { q \in TNs \X TNs : q[1] # q[2] } }
NamesOf(i) == { types[i].rels[j].fn : j \in 1..Len(types[i].rels) }
NRels == LET RECURSIVE S(_)
             S(i) == IF i = 0 THEN 0 ELSE Len(types[i].rels) + S(i - 1)
         IN S(Len(types))
AddOneWay == \E i \in 1..Len(types) : \E j \in 1..Len(types) : \E n \in RNs : \E c \in BOOLEAN :
    /\ n \notin NamesOf(i)
    /\ types' = [types EXCEPT ![i].rels = Append(@, [ft |-> types[i].name, fn |-> n, to1 |-> c,
                                                   tt |-> types[j].name, tn |-> <<>>, fo1 |-> FALSE])]
\* (d: the other side may state its own cardinality differently - Check does not compare them)
AddTwoWay == \E i \in 1..Len(types) : \E j \in 1..Len(types) : \E n \in RNs : \E m \in RNs : \E c \in BOOLEAN : \E d \in BOOLEAN :
    /\ n \notin NamesOf(i) /\ m \notin NamesOf(j) /\ ~(i = j /\ n = m)
    /\ LET r == [ft |-> types[i].name, fn |-> n, to1 |-> c, tt |-> types[j].name, tn |-> m, fo1 |-> ~c]
           t1 == [types EXCEPT ![i].rels = Append(@, r)]
       IN types' = [t1 EXCEPT ![j].rels = Append(@, [Invert(r) EXCEPT !.to1 = d])]
\* a relationship that is its own inverse: same type, same name and same cardinality on both ends
\* (one entry in the type, one pair made of one relationship)
AddSelfInverse == \E i \in 1..Len(types) : \E n \in RNs : \E c \in BOOLEAN :
    /\ n \notin NamesOf(i)
    /\ types' = [types EXCEPT ![i].rels = Append(@, [ft |-> types[i].name, fn |-> n, to1 |-> c,
                                                   tt |-> types[i].name, tn |-> n, fo1 |-> c])]
Next == NRels < MaxRels /\ (AddOneWay \/ AddTwoWay \/ AddSelfInverse)
Spec == Init /\ [][Next]_types

\* model-level: with the intended Normalize, the listing built by keying on
\* the normalised relationship has one entry per class
InvListing == Cardinality({NameKey(Normalize(r)) : r \in AllRels(types)}) = Cardinality(Classes(types))

EmitRels  == PrintT(<<"RELS", ToJson(SetToSeq(AllRelVals))>>)
EmitState == PrintT(<<"S", ToJson([state |-> types])>>)
=============================================================================
