-------------------------------- MODULE Codec --------------------------------
(* Decoding of attribute values and resource payloads (type.go               *)
(* Attr.UnmarshalToType, resource.go UnmarshalResource / Partial).  Serves    *)
(* C06 (fidelity), C01 (round trip), C05 (robustness / conformance), C13.     *)
(*                                                                           *)
(* Integers: TLC's integers are 32-bit, so an integer literal is the pair     *)
(* (tier, offset) relative to an ordered list of anchors                      *)
(*   1 min64  2 min32  3 zero  4 max32  5 umax32  6 max64  7 umax64  8 two70  *)
(* with |offset| <= 2 around the wide anchors and |offset| <= 70000 around    *)
(* zero (so the 8- and 16-bit ranges are exact); a value far from every       *)
(* anchor has far = TRUE and lies strictly between anchor t and t+1.          *)
(* An integer: [t, o, far, id] (id: decimal text, only for far values).       *)
EXTENDS Integers, Sequences, FiniteSets, TLC

Big == 1000000
Key(v) == <<v.t, IF v.far THEN Big ELSE v.o>>
Leq(a, b) == a[1] < b[1] \/ (a[1] = b[1] /\ a[2] <= b[2])

IntKinds == {"int", "int8", "int16", "int32", "int64", "uint", "uint8", "uint16", "uint32", "uint64"}
Lo(k) == CASE k = "int8" -> <<3, -128>> [] k = "int16" -> <<3, -32768>> [] k = "int32" -> <<2, 0>>
           [] k \in {"int", "int64"} -> <<1, 0>>
           [] OTHER -> <<3, 0>>          \* unsigned kinds
Hi(k) == CASE k = "int8" -> <<3, 127>> [] k = "uint8" -> <<3, 255>>
           [] k = "int16" -> <<3, 32767>> [] k = "uint16" -> <<3, 65535>>
           [] k = "int32" -> <<4, 0>> [] k = "uint32" -> <<5, 0>>
           [] k \in {"int", "int64"} -> <<6, 0>>
           [] OTHER -> <<7, 0>>          \* uint, uint64
InRange(k, v) == Leq(Lo(k), Key(v)) /\ Leq(Key(v), Hi(k))

\* Literal classes of a JSON value offered for an attribute:
\*   "null" "true" "false" "int" (plain integer, incl. -0) "frac" "exp" (number with
\*   fraction / exponent; lit.isint says whether it denotes an integer, lit.n which)
\*   "str" (a JSON string that is neither RFC 3339 nor base64) "time" (RFC 3339 text)
\*   "b64" (canonical base64) "b64nc" (base64 that is not canonical) "arr" "obj"
\*   "timelax" (a text Go's time parser takes although RFC 3339 does not define it: a one-digit hour, a
\*   comma before the fraction, an offset of 24 hours or of 60 minutes)
StrClasses == {"str", "time", "b64", "b64nc", "timelax"}

\* The outcome of decoding: out \in {"accept", "reject", "panic"}; for accept:
\*   isnil, n (integer kinds), same (the stored value equals the independent reading
\*   of the literal: code points / instant / bytes / truth value)
DecodeOK(kind, nullable, lit, r) ==
    IF r.out = "panic" THEN FALSE
    ELSE IF lit.cls = "null" THEN
        IF nullable THEN r.out = "accept" /\ r.isnil ELSE r.out = "reject"
    ELSE IF r.out = "accept" /\ r.isnil THEN FALSE
    ELSE IF kind \in IntKinds THEN
        CASE lit.cls = "int" -> \* a canonical in-range literal is accepted and stored unchanged; a
                                \* non-canonical spelling (-0) may also be refused; out of range is refused
                                IF InRange(kind, lit.n) THEN (r.out = "accept" /\ r.n = lit.n) \/ (~lit.canon /\ r.out = "reject")
                                ELSE r.out = "reject"
          [] lit.cls \in {"frac", "exp"} ->
                \* "stored unchanged": rejecting is fine; accepting only the integer it denotes
                r.out = "reject" \/ (lit.isint /\ InRange(kind, lit.n) /\ r.out = "accept" /\ r.n = lit.n)
          [] OTHER -> r.out = "reject"
    ELSE IF kind = "bool" THEN
        IF lit.cls \in {"true", "false"} THEN r.out = "accept" /\ r.same ELSE r.out = "reject"
    ELSE IF kind = "string" THEN
        IF lit.cls \in StrClasses THEN r.out = "accept" /\ r.same ELSE r.out = "reject"
    ELSE IF kind = "time" THEN
        \* (a lax time text may be refused; if it is accepted, it is the instant the text spells)
        IF lit.cls = "time" THEN r.out = "accept" /\ r.same
        ELSE IF lit.cls = "timelax" THEN r.out = "reject" \/ (r.out = "accept" /\ r.same)
        ELSE r.out = "reject"
    ELSE IF kind = "bytes" THEN
        CASE lit.cls = "b64" -> r.out = "accept" /\ r.same
          [] lit.cls = "b64nc" -> r.out = "reject" \/ (r.out = "accept" /\ r.same)
          [] lit.cls = "arr" -> TRUE   \* encoding/json reads an array of numbers as bytes: not the property's business
          [] OTHER -> r.out = "reject"
    ELSE FALSE

\* C05's view of one decode: never a panic; a result or an error, never both; a
\* returned value has exactly the declared Go type
DecodeRobust(r) == r.out # "panic" /\ (r.out = "accept" => r.typeok) /\ ~r.both

-----------------------------------------------------------------------------
(* Resource payloads (C06 second half)                                      *)
\* rel: [name, to1, shape \in {"absent","nodata","null","ident","list","badshape"},
\*       listed: Seq(id), got: Seq(id) (what Get returns afterwards)]
RelOK(rel, out) ==
    CASE rel.shape \in {"badshape", "badlinks", "badmeta"} -> out = "reject"   \* a member of the wrong JSON kind
      [] rel.shape \in {"absent", "nodata", "null"} -> out = "accept" => rel.got = <<>>
      [] rel.shape \in {"ident", "identbadtype", "identnotype"} -> out = "accept" => (rel.to1 /\ rel.got = rel.listed)
      [] rel.shape = "badtypenoid" -> out = "accept" => rel.got = <<>>
      [] rel.shape = "list"  -> out = "accept" => (~rel.to1 /\ rel.got = rel.listed)
      [] rel.shape \in {"listbadtail", "listbadnoid"} -> out = "reject"     \* every member of the list is of the target type (with or without an id)
      [] OTHER -> FALSE

\* an identifier object for a to-many, or a list for a to-one, cannot be accepted
ShapeFits(rel) == (rel.shape \in {"ident", "identbadtype", "identnotype", "badtypenoid"} => rel.to1) /\ (rel.shape = "list" => ~rel.to1)

\* e: [out, rels, attrs_same (present attributes hold the payload's values),
\*     absent_zero (absent fields hold zero values), idtype_same, remarshal_same]
PayloadOK(e) ==
    /\ e.out # "panic"
    /\ \A i \in 1..Len(e.rels) : RelOK(e.rels[i], e.out)
    /\ (\E i \in 1..Len(e.rels) : ~ShapeFits(e.rels[i])) => e.out = "reject"
    /\ e.unknownrel => e.out = "reject"          \* a relationship the type does not have, whatever its object carries
    /\ e.trailing => e.out = "reject"            \* the payload is one JSON value, nothing after it
    /\ e.unknowntype => e.out = "reject"         \* every resource's type exists in the schema
    /\ e.out = "accept" => e.attrs_same /\ e.absent_zero /\ e.idtype_same /\ e.remarshal_same

\* a type with a two-way relationship to itself (up <-> down): a payload that carries data for one
\* side, the other, both or neither is accepted both ways, and the partial result reports exactly
\* the sides that carry data, with the ids listed
SelfPairOK(e) ==
    /\ e.out = "accept" /\ e.part = "accept"
    /\ {e.prels[i] : i \in 1..Len(e.prels)} = {e.want[i] : i \in 1..Len(e.want)} /\ Len(e.prels) = Len(e.want)
    /\ e.vals_ok

\* payloads of the smaller types along the life of one schema object (a type without any relationship;
\* a type that is read, removed, and added again with other fields): what the schema holds when the call
\* is made decides, whatever was answered before
PTypeOK(e) ==
    LET expect == IF e.typeknown /\ ~e.unknownattr /\ ~e.unknownrel THEN "accept" ELSE "reject"
        Set(q) == {q[i] : i \in 1..Len(q)}
    IN /\ e.part = expect /\ e.out = expect
       /\ e.part = "accept" =>
             /\ e.pname = e.tname
             /\ Set(e.pattrs) = Set(e.wantattrs) /\ Len(e.pattrs) = Len(e.wantattrs)
             /\ Set(e.prels) = Set(e.wantrels) /\ Len(e.prels) = Len(e.wantrels)
             /\ e.vals_ok

\* the members of an accepted array of resource payloads: each keeps its own type, id and values
ColPayloadOK(e) ==
    /\ e.out = "accept"                       \* every member is a valid payload of a type of the schema
    /\ e.count_same /\ e.types_same /\ e.ids_same /\ e.vals_same

-----------------------------------------------------------------------------
(* C01: a resource marshaled with all fields and all relationship data and     *)
(* unmarshaled against the same schema.  r: what the driver observed, field    *)
(* by field, with independent comparisons (integers exactly, code points,      *)
(* instants, bytes, nil-ness, to-one ids, to-many as sets).                    *)
RoundTripOK(e) ==
    /\ e.ret = "ok" /\ e.r.ok
    /\ e.r.type_same /\ e.r.id_same
    /\ e.r.attrs_same /\ e.r.nil_same
    /\ e.r.to1_same /\ e.r.tomany_same
    /\ e.r.litclass_ok      \* integers as JSON numbers with all their digits, nil as null

-----------------------------------------------------------------------------
(* C05: feeding a byte string to an entry point.                              *)
\* out: "ok" (a result, no error), "err" (an error, no result), "both", "neither", "panic"
FeedOK(e) ==
    /\ e.out \in {"ok", "err"}
    /\ (e.out = "ok" => e.conforms)
    /\ (e.cls = "notjson" => e.out = "err")

-----------------------------------------------------------------------------
(* C13: partial unmarshaling reports exactly the fields present.               *)
AsSet(q) == {q[i] : i \in 1..Len(q)}
PartialOK(e) ==
    /\ e.part # "panic"
    /\ e.out # "panic" => e.part = e.out                 \* accepted iff full unmarshaling accepts
    /\ e.unknownrel => e.part = "reject"
    /\ e.trailing => e.part = "reject"
    /\ e.unknowntype => e.part = "reject"
    /\ e.part = "accept" =>
          /\ e.pname_ok
          /\ AsSet(e.pattrs) = AsSet(e.present) /\ Len(e.pattrs) = Cardinality(AsSet(e.present))
          /\ AsSet(e.prels) = AsSet(e.wantrels) /\ Len(e.prels) = Cardinality(AsSet(e.wantrels))
          /\ e.pdefs_ok /\ e.pvals_same

-----------------------------------------------------------------------------
(* Deviations of the pinned code                                           *)
\* strconv.Atoi then a narrowing conversion: out-of-range literals wrap silently
Dev_NarrowingWraps(e) ==
    /\ e.ev = "decode" /\ e.kind \in {"int8", "int16", "int32"} /\ e.lit.cls = "int"
    /\ ~InRange(e.kind, e.lit.n) /\ InRange("int64", e.lit.n) /\ e.r.out = "accept"
\* (fixed) encoding/json treats null as a no-op: non-nullable string / time accepted null as zero
Dev_NullAcceptedAsZero(e) ==
    /\ e.ev = "decode" /\ ~e.null /\ e.lit.cls = "null" /\ e.kind \in {"string", "time"}
    /\ e.r.out = "accept" /\ ~e.r.isnil
\* null is accepted for a non-nullable byte string (read as the empty / nil slice): a wrapped
\* struct whose []byte field is unset is marshaled as null, and TestUnmarshalDocument compares
\* the round trip with reflect.DeepEqual (nil vs empty), so neither side can be changed
\* (fixed) a time text with an offset of 24 hours, which RFC 3339 does not define and Go's parser lets
\* through, was accepted although the stored time cannot be written: re-marshaling gave an empty payload
Dev_UnwritableTimeAccepted(e) ==
    /\ e.ev = "decode" /\ e.kind = "time" /\ e.lit.cls = "timelax" /\ e.r.out = "accept" /\ ~e.r.remarshal_ok
Dev_NullBytesAccepted(e) ==
    /\ e.ev = "decode" /\ ~e.null /\ e.lit.cls = "null" /\ e.kind = "bytes"
    /\ e.r.out = "accept" /\ ~e.r.isnil /\ e.r.typeok
\* the bytes branch panics instead of returning an error
Dev_BytesDecodeErrorPanics(e) ==
    \/ (e.ev = "decode" /\ e.kind = "bytes" /\ e.r.out = "panic" /\ e.lit.cls \notin {"b64", "null"})
    \/ (e.ev = "feed" /\ e.out = "panic" /\ e.bytesbad)
\* an identifier whose type is not the relationship's target type is accepted and re-marshals with the target type
Dev_LinkageTypeIgnored(e) ==
    /\ e.ev = "payload" /\ e.out = "accept" /\ ~e.remarshal_same
    /\ e.attrs_same /\ e.absent_zero /\ e.idtype_same
    /\ \E i \in 1..Len(e.rels) : e.rels[i].shape = "identbadtype"
\* (fixed) UnmarshalIdentifiers dereferenced a nil pointer for a null element
Dev_IdentifiersNullElementPanics(e) == e.ev = "feed" /\ e.out = "panic" /\ e.entry = "UnmarshalIdentifiers" /\ ~e.bytesbad
\* a payload whose type is unknown or missing is accepted: the resource's type is the zero Type
Dev_UnknownTypeAccepted(e) ==
    /\ e.ev = "feed" /\ e.out = "ok" /\ ~e.conforms /\ e.cls = "json"
=============================================================================
