-------------------------- MODULE Trace_MetaHolders --------------------------
(* (B) stateful monitor of the growth family G05: the model state is stepped *)
(* along every recorded history (a "reset" event starts one); after every    *)
(* call the driver wrote down what EVERY holder shows (nil or not, the keys, *)
(* what the five accessors answer for every key of the universe), and all of *)
(* it must be what the model state says.                                     *)
EXTENDS MetaHolders, Json, IOUtils

Trace == ndJsonDeserialize(IOEnv.TRACE_FILE)
VARIABLES l, st, off

SetOf(seq) == {seq[j] : j \in 1..Len(seq)}
HolderOK(s, h, o) ==
    /\ o.isnil = IsNil(s, h)
    /\ SetOf(o.keys) = DOMAIN Show(s, h) /\ Len(o.keys) = Cardinality(DOMAIN Show(s, h))
    /\ \A k \in Keys : LET a == Acc(Show(s, h), k) IN
          /\ o.acc[k].has = a.has /\ o.acc[k].str = a.str /\ o.acc[k].int = a.int
          /\ o.acc[k].bool = a.bool /\ o.acc[k].time = a.time

Init == l = 1 /\ st = Init0 /\ off = FALSE
Next == /\ l <= Len(Trace)
        /\ l' = l + 1
        /\ LET e == Trace[l] IN
           IF e.ev = "reset" THEN st' = Init0 /\ off' = FALSE
           ELSE LET post == Step(st, e.op)
                    same == e.ret = "ok" /\ \A h \in Holders : HolderOK(post, h, e.obs[h])
                IN /\ st' = post
                   /\ off' = (off \/ ~same)
                   /\ IF same \/ off THEN TRUE ELSE PrintT(<<"REJ", l, "G05", "NONE">>)
                   /\ IF same /\ ~off /\ \E h \in Holders, k \in Keys : Dev_AbsentKeyReadsNilText(post, h, k, e.obs[h].acc[k].str)
                      THEN PrintT(<<"REJ", l, "G05", "Dev_AbsentKeyReadsNilText">>) ELSE TRUE
                   /\ IF same /\ ~off /\ \E h \in Holders, k \in Keys : Dev_IntUnreadableAfterWire(post, h, k, e.obs[h].acc[k].int)
                      THEN PrintT(<<"REJ", l, "G05", "Dev_IntUnreadableAfterWire">>) ELSE TRUE
Spec == Init /\ [][Next]_<<l, st, off>>
AllConsumed == TLCGet("stats").diameter - 1 = Len(Trace)
=============================================================================
