SPECIFICATION Spec
CONSTANTS
  Depth = 1
  UseVals = {"s_abc"}
VIEW ViewSt
INVARIANTS InvDocGetString
CHECK_DEADLOCK FALSE
