SPECIFICATION Spec
POSTCONDITION AllConsumed
CHECK_DEADLOCK FALSE
