--------------------------- MODULE SoftCollection ---------------------------
(* jsonapi.SoftCollection (soft_collection.go) as an ordered in-memory      *)
(* store.  State: the collection's current type, the ordered stored items  *)
(* (snapshots), and the source resources handed to Add (which the caller   *)
(* keeps and may modify later).  One action per public call.  Serves C19.  *)
(*                                                                         *)
(* A field definition: [kind |-> "attr" | "rel", k, null, to1, tt]         *)
(*   (k/null meaningful for attributes; to1/tt for relationships)          *)
(* A value: [nil |-> BOOLEAN, r |-> rank, ids |-> Seq(id)]                  *)
(*   rank 0 is the zero value of every kind; relationships use ids          *)
(*   (to-one: <<>> or <<id>>).                                              *)
(* A type:   [name, fields |-> [fname -> def]]                             *)
(* An item / a source: [id, fields (sources only), vals |-> [fname -> value]] *)
EXTENDS Integers, Sequences, FiniteSets, TLC

ValidKinds == {"string", "int", "int8", "int16", "int32", "int64",
               "uint", "uint8", "uint16", "uint32", "uint64",
               "bool", "time", "bytes"}

Zero(def) == IF def.kind = "attr" THEN [nil |-> def.null, r |-> 0, ids |-> <<>>]
             ELSE [nil |-> FALSE, r |-> 0, ids |-> <<>>]

\* would a value stored under definition d1 be well-typed under d2?
SameDef(d1, d2) ==
    /\ d1.kind = d2.kind
    /\ IF d1.kind = "attr" THEN d1.k = d2.k /\ d1.null = d2.null ELSE d1.to1 = d2.to1

AttrNames(t) == {f \in DOMAIN t.fields : t.fields[f].kind = "attr"}
RelNames(t)  == {f \in DOMAIN t.fields : t.fields[f].kind = "rel"}

\* re-type one stored item: keep the well-typed values, zero for the rest
Retype(item, oldf, newf) ==
    [item EXCEPT !.vals = [f \in DOMAIN newf |->
        IF f \in DOMAIN oldf /\ f \in DOMAIN item.vals /\ SameDef(oldf[f], newf[f])
        THEN item.vals[f] ELSE Zero(newf[f])]]

RetypeAll(items, oldf, newf) == [i \in 1..Len(items) |-> Retype(items[i], oldf, newf)]

Put(f, k, v) == [x \in DOMAIN f \cup {k} |-> IF x = k THEN v ELSE f[x]]

\* A source may be a soft resource created on the collection's own *Type (src.shared): it then
\* follows every extension of that type, like the stored items, until the collection gets a new type.
ShareUpd(srcs, newf) ==
    [i \in 1..Len(srcs) |->
        IF srcs[i].shared
        THEN [srcs[i] EXCEPT !.fields = newf,
                             !.vals = [f \in DOMAIN newf |-> IF f \in DOMAIN srcs[i].vals THEN srcs[i].vals[f] ELSE Zero(newf[f])]]
        ELSE srcs[i]]
Unshare(srcs) == [i \in 1..Len(srcs) |-> [srcs[i] EXCEPT !.shared = FALSE]]

-----------------------------------------------------------------------------
(* Results: st = [ctype, items, srcs]; op carries its arguments.           *)

ResSetType(st, op) ==
    [post |-> [st EXCEPT !.ctype = op.typ,
                         !.items = RetypeAll(st.items, st.ctype.fields, op.typ.fields),
                         !.srcs = Unshare(st.srcs)],
     ret |-> "ok"]

ResAdd(st, op) ==
    LET src  == st.srcs[op.src]
        oldf == st.ctype.fields
        newf == [f \in DOMAIN oldf \cup DOMAIN src.fields |->
                    IF f \in DOMAIN oldf THEN oldf[f] ELSE src.fields[f]]
        item == [id |-> src.id,
                 vals |-> [f \in DOMAIN newf |->
                    IF f \in DOMAIN src.fields /\ SameDef(src.fields[f], newf[f])
                    THEN src.vals[f] ELSE Zero(newf[f])]]
    IN [post |-> [st EXCEPT !.ctype.fields = newf,
                            !.items = Append(RetypeAll(st.items, oldf, newf), item),
                            !.srcs = ShareUpd(st.srcs, newf)],
        ret |-> "ok"]

ResRemove(st, op) ==
    LET hits == {i \in 1..Len(st.items) : st.items[i].id = op.id} IN
    IF hits = {} THEN [post |-> st, ret |-> "ok"]
    ELSE LET k == CHOOSE i \in hits : \A j \in hits : i <= j IN
         [post |-> [st EXCEPT !.items = [i \in 1..(Len(st.items) - 1) |->
                                            IF i < k THEN st.items[i] ELSE st.items[i + 1]]],
          ret |-> "ok"]

ResAddField(st, op) == \* AddAttr / AddRel: Type.AddAttr / Type.AddRel semantics
    LET d == op.def
        bad == \/ op.name = ""
               \/ (d.kind = "attr" /\ (d.k \notin ValidKinds \/ op.name \in AttrNames(st.ctype)))
               \/ (d.kind = "rel"  /\ (d.tt = "" \/ op.name \in RelNames(st.ctype)))
        newf == Put(st.ctype.fields, op.name, d)
    IN IF bad THEN [post |-> st, ret |-> "err"]
       ELSE [post |-> [st EXCEPT !.ctype.fields = newf,
                                 !.items = RetypeAll(st.items, st.ctype.fields, newf),
                                 !.srcs = ShareUpd(st.srcs, newf)],
             ret |-> "ok"]

\* the caller modifies a resource it added earlier: the stored snapshots do not move
ResSetSrc(st, op) ==
    [post |-> [st EXCEPT !.srcs[op.src].vals[op.name] = op.val], ret |-> "ok"]

\* two SetType calls in a row, nothing read in between (one step of the driver, two of the model):
\* first the type op.mid, then the type op.typ
ResSetTypeTwice(st, op) == ResSetType(ResSetType(st, [op EXCEPT !.typ = op.mid]).post, op)

Res(st, op) ==
    CASE op.op = "SetType" -> ResSetType(st, op)
      [] op.op = "SetTypeTwice" -> ResSetTypeTwice(st, op)
      [] op.op = "Add"     -> ResAdd(st, op)
      [] op.op = "Remove"  -> ResRemove(st, op)
      [] op.op \in {"AddAttr", "AddRel"} -> ResAddField(st, op)
      [] op.op = "SetSrc"  -> ResSetSrc(st, op)

\* AddAttr with the name of a relationship (or the reverse) would make one name
\* both: the property does not say what then happens; outside the domain.
InDomain(st, op) ==
    op.op \in {"AddAttr", "AddRel"} =>
        ~(op.name \in DOMAIN st.ctype.fields /\ st.ctype.fields[op.name].kind # op.def.kind)

\* Add of a resource one of whose attributes is named like a relationship of the collection (or
\* the reverse): the collection keeps its own definition of the field; what value the new item
\* holds for it is not determined by the property (a string may or may not pass as a to-one id),
\* so that one value is not compared.
CrossKind(st, op) ==
    IF op.op = "Add" THEN
        LET src == st.srcs[op.src] IN
        {f \in DOMAIN src.fields \cap DOMAIN st.ctype.fields : src.fields[f].kind # st.ctype.fields[f].kind}
    ELSE IF op.op = "SetType" THEN   \* a field that changes from attribute to relationship or back
        {f \in DOMAIN op.typ.fields \cap DOMAIN st.ctype.fields : op.typ.fields[f].kind # st.ctype.fields[f].kind}
    ELSE IF op.op = "SetTypeTwice" THEN
        {f \in DOMAIN op.mid.fields \cap DOMAIN st.ctype.fields : op.mid.fields[f].kind # st.ctype.fields[f].kind}
        \cup {f \in DOMAIN op.typ.fields \cap DOMAIN op.mid.fields : op.typ.fields[f].kind # op.mid.fields[f].kind}
        \cup {f \in DOMAIN op.typ.fields \cap DOMAIN st.ctype.fields : op.typ.fields[f].kind # st.ctype.fields[f].kind}
    ELSE {}
NoVal0 == [nil |-> FALSE, r |-> 0, ids |-> <<>>]
MaskItem(it, X) == [it EXCEPT !.vals = [f \in DOMAIN it.vals |-> IF f \in X THEN NoVal0 ELSE it.vals[f]]]
Mask(items, X, op) ==
    IF items = <<>> \/ X = {} THEN items
    ELSE IF op.op = "Add" THEN [items EXCEPT ![Len(items)] = MaskItem(items[Len(items)], X)]   \* only the new item
    ELSE [i \in 1..Len(items) |-> MaskItem(items[i], X)]

Allowed(pre, op, post, ret) ==
    ~InDomain(pre, op) \/
    (LET r == Res(pre, op)
         X == CrossKind(pre, op)
     IN /\ ret = r.ret
        /\ [post EXCEPT !.items = Mask(post.items, X, op)] = [r.post EXCEPT !.items = Mask(r.post.items, X, op)])

-----------------------------------------------------------------------------
(* Reads: Len, At(i) for i in -1..Len+1, Resource(id)                      *)
\* obs = [len, at |-> Seq of ids or "nil" for i = -1..Len+1, byid |-> [id -> index or 0]]
ObsOK(post, obs) ==
    /\ obs.len = Len(post.items)
    /\ Len(obs.at) = Len(post.items) + 3
    /\ \A j \in 1..Len(obs.at) :
          LET i == j - 2 IN  \* index -1 .. Len+1
          obs.at[j] = IF i >= 0 /\ i < Len(post.items) THEN post.items[i + 1].id ELSE "nil"
    /\ \A id \in DOMAIN obs.byid :
          LET hits == {i \in 1..Len(post.items) : post.items[i].id = id} IN
          obs.byid[id] = IF hits = {} THEN 0 ELSE CHOOSE i \in hits : \A j \in hits : i <= j

\* every stored resource exposes exactly the collection's current fields
ItemsTyped(st) == \A i \in 1..Len(st.items) : DOMAIN st.items[i].vals = DOMAIN st.ctype.fields

-----------------------------------------------------------------------------
(* The pinned code's deviations                                            *)
\* SetType on a non-empty collection leaves the stored resources on the old type
Dev_SetTypeLeavesItemsBehind(e) ==
    /\ e.op.op = "SetType" /\ e.ret = "ok" /\ Len(e.pre.items) > 0
    /\ e.post.ctype = e.op.typ /\ e.post.items = e.pre.items
=============================================================================
