---------------------------- MODULE Trace_Resource ----------------------------
(* (B) monitor for C17 / C18: every recorded step on the store of live real  *)
(* objects, and every equality pair.                                        *)
EXTENDS Resource, Json, IOUtils

Trace == ndJsonDeserialize(IOEnv.TRACE_FILE)
VARIABLE l

\* which property a rejected step is charged to: a change in an entry that was
\* not acted on is C18 (independence); anything else about the entry itself is C17
PropOf(e) == IF e.ev = "eq" THEN "C17"
             ELSE IF e.ret = "panic" THEN (IF e.op.op \in {"Copy", "NewLike", "ZeroNew", "TypeCopy", "MutSlice", "TypeEdit"} THEN "C18" ELSE "C17")
             ELSE IF ~FrameOK(e.pre, e.op, e.post) THEN "C18"
             ELSE IF e.op.op \in {"Copy", "NewLike", "ZeroNew", "TypeCopy", "TypeEdit"} THEN "C18"
             ELSE IF e.op.op = "DerivedNew" THEN "C17"
             ELSE "C17"

Dev(e) == IF Dev_CopySharesSlices(e) THEN "Dev_CopySharesSlices"
          ELSE IF Dev_EqualIgnoresAttrNames(e) THEN "Dev_EqualIgnoresAttrNames"
          ELSE IF Dev_WrapperCopyDropsID(e) THEN "Dev_WrapperCopyDropsID"
          ELSE IF Dev_EqualPanics(e) THEN "Dev_EqualPanics"
          ELSE IF Dev_EqualIgnoresRelNames(e) THEN "Dev_EqualIgnoresRelNames"
          ELSE "NONE"

PreTyped(e) == \A h \in 1..Len(e.pre) : IsRes(e.pre[h]) =>
                  /\ DOMAIN e.pre[h].vals = DOMAIN e.pre[h].fields
                  /\ \A f \in DOMAIN e.pre[h].vals : e.pre[h].vals[f].r >= 0

Judge(e) ==
    CASE e.ev = "eq"   -> e.ret = "ok" /\ EqOK(e.a, e.b, e.obs)
      [] e.ev = "step" -> (PreTyped(e) /\ Enabled(e.pre, e.op)) =>
                             /\ e.ret = "ok"
                             /\ Allowed(e.pre, e.op, e.post, e.ret)
                             /\ FrameOK(e.pre, e.op, e.post)
      [] OTHER -> FALSE

Init == l = 1
Next == /\ l <= Len(Trace)
        /\ l' = l + 1
        /\ IF Judge(Trace[l]) THEN TRUE ELSE PrintT(<<"REJ", l, PropOf(Trace[l]), Dev(Trace[l])>>)
        \* a New whose result is not the zero-valued resource of the type breaks C17 as well
        \* ("a freshly created resource ... has that type's name, fields and all zero values")
        /\ IF ~Judge(Trace[l]) /\ Trace[l].ev = "step" /\ Trace[l].op.op = "NewLike" /\ PropOf(Trace[l]) = "C18"
              /\ FrameOK(Trace[l].pre, Trace[l].op, Trace[l].post)
           THEN PrintT(<<"REJ", l, "C17", Dev(Trace[l])>>) ELSE TRUE
        /\ IF Trace[l].ev = "step" /\ ~(PreTyped(Trace[l]) /\ Enabled(Trace[l].pre, Trace[l].op))
           THEN PrintT(<<"NOTE", l, "C17", "step outside the domain (not enabled in the model): not judged">>) ELSE TRUE
Spec == Init /\ [][Next]_l
AllConsumed == TLCGet("stats").diameter - 1 = Len(Trace)
=============================================================================
