------------------------- MODULE MC_SoftCollection -------------------------
(* Bounded universe for the SoftCollection family (C19): one base type,     *)
(* a replacement type, four source resources (same, narrower, wider with a  *)
(* duplicate id, conflicting definitions).                                  *)
EXTENDS SoftCollection, Json, SequencesExt

CONSTANTS MaxItems, SetSrcOn,  \* SetSrcOn: the sources whose field x the caller modifies later
          PtrOnly             \* TRUE: explore only the steps around the nullable attribute of source 1

A(k, n)  == [kind |-> "attr", k |-> k, null |-> n, to1 |-> FALSE, tt |-> ""]
R(o, t)  == [kind |-> "rel", k |-> "", null |-> FALSE, to1 |-> o, tt |-> t]
V(r)     == [nil |-> FALSE, r |-> r, ids |-> <<>>]
NilV     == [nil |-> TRUE, r |-> 0, ids |-> <<>>]
Ids(s)   == [nil |-> FALSE, r |-> 0, ids |-> s]

TBase  == [name |-> "ct",  fields |-> [x |-> A("string", FALSE), n |-> A("int", TRUE),
                                        r |-> R(TRUE, "tt"), m |-> R(FALSE, "tt")]]
\* (n: the same name and kind as in TBase, not nullable any more)
TOther == [name |-> "ct2", fields |-> [x |-> A("int", FALSE), z |-> A("string", FALSE), m |-> R(FALSE, "tt"), n |-> A("int", FALSE)]]

Srcs0 == <<
  [id |-> "1", name |-> "ct", shared |-> FALSE, fields |-> TBase.fields,
   vals |-> [x |-> V(1), n |-> NilV, r |-> Ids(<<"a">>), m |-> Ids(<<"b", "a">>)]],
  [id |-> "2", name |-> "narrow", shared |-> FALSE, fields |-> [x |-> A("string", FALSE)], vals |-> [x |-> V(2)]],
  [id |-> "1", name |-> "wide", shared |-> FALSE,
   \* (w: a nullable attribute the collection does not know, holding nil)
   \* (... and two to-many relationships that both hold ids: one the collection knows, one it does not)
   fields |-> [x |-> A("string", FALSE), y |-> A("bool", FALSE), q |-> R(FALSE, "tt"), w |-> A("int", TRUE), m |-> R(FALSE, "tt")],
   vals |-> [x |-> V(1), y |-> V(1), q |-> Ids(<<"b">>), w |-> NilV, m |-> Ids(<<"c", "a">>)]],
  [id |-> "3", name |-> "conflict", shared |-> FALSE,
   fields |-> [x |-> A("int", FALSE), n |-> A("int", FALSE), r |-> R(FALSE, "tt")],
   vals |-> [x |-> V(1), n |-> V(1), r |-> Ids(<<"a">>)]],
  \* an attribute named like a relationship of the collection and a relationship named like an attribute
  \* (its id "0" stands for the empty id: a resource that was never given one)
  [id |-> "0", name |-> "crosskind", shared |-> FALSE,
   fields |-> [r |-> A("string", FALSE), x |-> R(TRUE, "tt"), n |-> A("int", TRUE)],
   vals |-> [r |-> V(1), x |-> Ids(<<"a">>), n |-> V(2)]],
  \* a soft resource created on the collection's own *Type
  [id |-> "2", name |-> "ct", shared |-> TRUE, fields |-> TBase.fields,
   vals |-> [x |-> V(2), n |-> V(1), r |-> Ids(<<>>), m |-> Ids(<<"a">>)]]
>>

NoDef == A("", FALSE)
NoVal == V(0)
NoTyp == [name |-> "", fields |-> <<>>]
Op(o, typ, src, id, name, def, val) ==
    [op |-> o, typ |-> typ, mid |-> NoTyp, src |-> src, id |-> id, name |-> name, def |-> def, val |-> val]

\* the nullable attribute of source 1: from nil to a value, and from a value to another one.  These
\* steps are explored by the model only in the small universe PtrOnly (with them the full one has
\* five times as many states); the driver applies them to every state it rebuilds in either case.
NOps == { Op("SetSrc", NoTyp, 1, "", "n", NoDef, V(r)) : r \in {1, 2} }
PtrAlphabet == NOps \cup { Op("Add", NoTyp, 1, "", "", NoDef, NoVal), Op("Remove", NoTyp, 0, "1", "", NoDef, NoVal),
                           Op("SetSrc", NoTyp, 1, "", "x", NoDef, V(2)) }
Alphabet ==
       { Op("SetType", t, 0, "", "", NoDef, NoVal) : t \in {TBase, TOther} }
  \* away to another type and back (or on to a third), nothing read in between
  \cup { [Op("SetTypeTwice", p[1], 0, "", "", NoDef, NoVal) EXCEPT !.mid = p[2]] : p \in {<<TBase, TOther>>, <<TOther, TBase>>} }
  \cup { Op("Add", NoTyp, s, "", "", NoDef, NoVal) : s \in 1..Len(Srcs0) }
  \cup { Op("Remove", NoTyp, 0, id, "", NoDef, NoVal) : id \in {"1", "2", "3", "9", "0"} }
  \cup { Op("AddAttr", NoTyp, 0, "", p[1], p[2], NoVal) :
            p \in { <<"y", A("bool", FALSE)>>, <<"x", A("string", FALSE)>>, <<"", A("string", FALSE)>>,
                    <<"w", A("invalid", FALSE)>>, <<"n", A("int", TRUE)>>, <<"z", A("int", TRUE)>> } }
  \cup { Op("AddRel", NoTyp, 0, "", p[1], p[2], NoVal) :
            p \in { <<"q", R(FALSE, "tt")>>, <<"r", R(TRUE, "tt")>>, <<"", R(TRUE, "tt")>>, <<"v", R(TRUE, "")>> } }
  \cup { Op("SetSrc", NoTyp, s, "", "x", NoDef, V(r)) : s \in SetSrcOn, r \in {1, 2} }
  \cup { Op("SetSrc", NoTyp, 1, "", "m", NoDef, Ids(<<"c">>)) }
  \cup NOps


VARIABLES st, ret, hist
vars == <<st, ret, hist>>

Init == st = [ctype |-> TBase, items |-> <<>>, srcs |-> Srcs0] /\ ret = "ok" /\ hist = <<>>
Do(op) == /\ InDomain(st, op)
          /\ (op.op = "SetSrc" => op.val # st.srcs[op.src].vals[op.name])
          /\ LET r == Res(st, op) IN
               /\ Len(r.post.items) <= MaxItems
               /\ st' = r.post /\ ret' = r.ret /\ hist' = Append(hist, op)
Next == \E op \in (IF PtrOnly THEN PtrAlphabet ELSE Alphabet \ NOps) : Do(op)
Spec == Init /\ [][Next]_vars
View == st

InvItemsTyped == ItemsTyped(st)
InvWellTyped  == \* every stored value is a value of its field's kind (nil only if nullable)
    \A i \in 1..Len(st.items) : \A f \in DOMAIN st.items[i].vals :
        LET d == st.ctype.fields[f]  v == st.items[i].vals[f] IN
          /\ (v.nil => d.kind = "attr" /\ d.null)
          /\ (d.kind = "attr" => v.ids = <<>>)
          /\ (d.kind = "rel" /\ d.to1 => Len(v.ids) <= 1)
ErrLeavesUnchanged == [][ret' = "err" => st' = st]_vars
\* a later Set on a source never moves a stored snapshot; reads never change anything
SnapshotsStable == [][(hist' # hist /\ hist'[Len(hist')].op = "SetSrc") => st'.items = st.items /\ st'.ctype = st.ctype]_vars
\* order is preserved: Add appends, Remove deletes one element, nothing else reorders
OrderKept == [][LET a == [i \in 1..Len(st.items) |-> st.items[i].id]
                    b == [i \in 1..Len(st'.items) |-> st'.items[i].id]
                IN \/ a = b
                   \/ (Len(b) = Len(a) + 1 /\ SubSeq(b, 1, Len(a)) = a)
                   \/ (Len(b) = Len(a) - 1 /\ \E k \in 1..Len(a) :
                          b = SubSeq(a, 1, k - 1) \o SubSeq(a, k + 1, Len(a)))]_vars

EmitAlpha == PrintT(<<"ALPHA", ToJson(SetToSeq(Alphabet))>>)
EmitInit  == PrintT(<<"INIT", ToJson([ctype |-> TBase, srcs |-> Srcs0])>>)
EmitState == PrintT(<<"S", ToJson([hist |-> hist])>>)
=============================================================================
