---------------------------- MODULE ErrorObjects ----------------------------
(* Growth family G04 (outside the twenty listed properties): error objects.  *)
(* error.go: an Error is a value with five texts and three maps; NewError    *)
(* and the thirty NewErr* constructors return one with maps of its own;      *)
(* Error() renders it as a line of text and MarshalJSON as a JSON:API error  *)
(* object that holds exactly the members that are not empty.                 *)
(*                                                                           *)
(* The model keeps a few error values side by side (slots), one action per   *)
(* call a program makes: a constructor fills a slot, the program writes a    *)
(* text or a map entry of one slot.  What every slot shows after every call  *)
(* (its text, its JSON members, its maps) is a function of the model state,  *)
(* so the monitor can say after each recorded call whether the code did what *)
(* the model does - in particular that a call about one slot changes no      *)
(* other: the constructors hand out fresh maps, nothing is shared.           *)
(*                                                                           *)
(* slot = [id, code, status, title, detail |-> text, links, source, meta |-> [key -> text]] *)
EXTENDS Integers, Sequences, FiniteSets, TLC

None == [z \in {} |-> ""]
Put(f, x, y) == [z \in DOMAIN f \cup {x} |-> IF z = x THEN y ELSE f[z]]
Drop(f, x) == [z \in DOMAIN f \ {x} |-> f[z]]
M1(k, v) == Put(None, k, v)
M2(k, v, k2, v2) == Put(M1(k, v), k2, v2)
M3(k, v, k2, v2, k3, v3) == Put(M2(k, v, k2, v2), k3, v3)

\* NewError(): nothing but three empty maps
Blank == [id |-> "", code |-> "", status |-> "", title |-> "", detail |-> "", links |-> None, source |-> None, meta |-> None]
E(s, t, d, src, meta) == [Blank EXCEPT !.status = s, !.title = t, !.detail = d, !.source = src, !.meta = meta]
Q(a) == "\"" \o a \o "\""         \* %q of a plain word

Ctors == {"BadRequest", "MalformedFilterParameter", "InvalidPageNumberParameter", "InvalidPageSizeParameter",
          "InvalidFieldValueInBody", "DuplicateFieldInFieldsParameter", "MissingDataMember", "UnknownFieldInBody",
          "UnknownFieldInURL", "UnknownParameter", "UnknownRelationshipInPath", "UnknownTypeInURL",
          "UnknownFieldInFilterParameter", "UnknownOperatorInFilterParameter", "InvalidValueInFilterParameter",
          "UnknownCollationInFilterParameter", "UnknownFilterParameterLabel", "Unauthorized", "Forbidden", "NotFound",
          "PayloadTooLarge", "RequestURITooLong", "UnsupportedMediaType", "TooManyRequests",
          "RequestHeaderFieldsTooLarge", "InternalServerError", "ServiceUnavailable", "NotImplemented", "Error"}

\* the constructor table, as error.go has it (a: the arguments, three texts; the unused ones are ignored)
Ctor(c, a) ==
  CASE c = "Error" -> Blank
    [] c = "BadRequest" -> E("400", a[1], a[2], None, None)
    [] c = "MalformedFilterParameter" ->
         E("400", "Malformed filter parameter", "The filter parameter is not a string or a valid JSON object.",
           M1("parameter", "filter"), M1("bad-filter", a[1]))
    [] c = "InvalidPageNumberParameter" ->
         E("400", "Invalid page number parameter", "The page number parameter is not positive integer (including 0).",
           M1("parameter", "page[number]"), M1("bad-page-number", a[1]))
    [] c = "InvalidPageSizeParameter" ->
         E("400", "Invalid page size parameter", "The page size parameter is not positive integer (including 0).",
           M1("parameter", "page[size]"), M1("bad-page-size", a[1]))
    [] c = "InvalidFieldValueInBody" ->
         E("400", "Invalid field value in body", "The field value is invalid for the expected type.",
           None, M3("field", a[1], "bad-value", a[2], "type", a[3]))
    [] c = "DuplicateFieldInFieldsParameter" ->
         E("400", "Duplicate field", "The fields parameter contains the same field more than once.",
           M1("parameter", "fields[" \o a[1] \o "]"), M1("duplicate-field", a[2]))
    [] c = "MissingDataMember" -> E("400", "Missing data member", "Missing data top-level member in payload.", None, None)
    [] c = "UnknownFieldInBody" ->
         E("400", "Unknown field in body", Q(a[2]) \o " is not a known field.", M1("pointer", ""),
           M2("unknown-field", a[2], "type", a[1]))
    [] c = "UnknownFieldInURL" ->
         E("400", "Unknown field in URL", Q(a[1]) \o " is not a known field.", None, M1("unknown-field", a[1]))
    [] c = "UnknownParameter" ->
         E("400", "Unknown parameter", Q(a[1]) \o " is not a known parameter.", M1("parameter", a[1]), M1("unknown-parameter", a[1]))
    [] c = "UnknownRelationshipInPath" ->
         E("400", "Unknown relationship", Q(a[2]) \o " is not a relationship of " \o Q(a[1]) \o ".", None,
           M3("unknown-relationship", a[2], "type", a[1], "path", a[3]))
    [] c = "UnknownTypeInURL" ->
         E("400", "Unknown type in URL", Q(a[1]) \o " is not a known type.", None, M1("unknown-type", a[1]))
    [] c = "UnknownFieldInFilterParameter" ->
         E("400", "Unknown field in filter parameter", Q(a[1]) \o " is not a known field.", M1("parameter", "filter"), M1("unknown-field", a[1]))
    [] c = "UnknownOperatorInFilterParameter" ->
         E("400", "Unknown operator in filter parameter", Q(a[1]) \o " is not a known operator.", M1("parameter", "filter"), M1("unknown-operator", a[1]))
    [] c = "InvalidValueInFilterParameter" ->
         E("400", "Unknown value in filter parameter", Q(a[1]) \o " is not a known value.", M1("parameter", "filter"), M1("invalid-value", a[1]))
    [] c = "UnknownCollationInFilterParameter" ->
         E("400", "Unknown collation in filter parameter", Q(a[1]) \o " is not a known collation.", M1("parameter", "filter"), M1("unknown-collation", a[1]))
    [] c = "UnknownFilterParameterLabel" ->
         E("400", "Unknown label in filter parameter", Q(a[1]) \o " is not a known filter query label.", M1("parameter", "filter"), M1("unknown-label", a[1]))
    [] c = "Unauthorized" -> E("401", "Unauthorized", "Authentification is required to perform this request.", None, None)
    [] c = "Forbidden" -> E("403", "Forbidden", "Permission is required to perform this request.", None, None)
    [] c = "NotFound" -> E("404", "Not found", "The URI does not exist.", None, None)
    [] c = "PayloadTooLarge" -> E("413", "Payload too large", "That's what she said.", None, None)
    [] c = "RequestURITooLong" -> E("414", "URI too long", "", None, None)
    [] c = "UnsupportedMediaType" -> E("415", "Unsupported media type", "", None, None)
    [] c = "TooManyRequests" -> E("429", "Too many requests", "", None, None)
    [] c = "RequestHeaderFieldsTooLarge" -> E("431", "Header fields too large", "", None, None)
    [] c = "InternalServerError" -> E("500", "Internal server error", "", None, None)
    [] c = "ServiceUnavailable" -> E("503", "Service unavailable", "", None, None)
    [] c = "NotImplemented" -> E("501", "Not Implemented", "", None, None)

\* net/http's name of the status that the text reads as a number (strconv.Atoi: a sign and leading zeros pass)
StatusName(s) ==
  CASE s \in {"400"} -> "Bad Request"
    [] s \in {"401"} -> "Unauthorized"
    [] s \in {"403"} -> "Forbidden"
    [] s \in {"404", "0404", "+404"} -> "Not Found"
    [] s \in {"413"} -> "Request Entity Too Large"
    [] s \in {"414"} -> "Request URI Too Long"
    [] s \in {"415"} -> "Unsupported Media Type"
    [] s \in {"429"} -> "Too Many Requests"
    [] s \in {"431"} -> "Request Header Fields Too Large"
    [] s \in {"500"} -> "Internal Server Error"
    [] s \in {"501"} -> "Not Implemented"
    [] s \in {"503"} -> "Service Unavailable"
    [] s \in {"200"} -> "OK"
    [] OTHER -> ""          \* "", "abc", "999", "4 04", ...

\* Error()
Text(e) ==
  IF StatusName(e.status) # ""
  THEN IF e.detail # "" THEN e.status \o " " \o StatusName(e.status) \o ": " \o e.detail
       ELSE IF e.title # "" THEN e.status \o " " \o StatusName(e.status) \o ": " \o e.title
       ELSE e.status \o " " \o StatusName(e.status)
  ELSE IF e.detail # "" THEN e.detail ELSE e.title

\* MarshalJSON: the members that are not empty
Texts == {"id", "code", "status", "title", "detail"}
Maps == {"links", "source", "meta"}
Members(e) == {m \in Texts : e[m] # ""} \cup {m \in Maps : DOMAIN e[m] # {}}

\* op = [op, i, c, a, f, v]
Step(st, op) ==
  CASE op.op = "New" -> [st EXCEPT ![op.i] = Ctor(op.c, op.a)]
    [] op.op = "SetText" -> [st EXCEPT ![op.i] = [st[op.i] EXCEPT ![op.f] = op.v]]
    [] op.op = "Put" -> [st EXCEPT ![op.i] = [st[op.i] EXCEPT ![op.c] = Put(st[op.i][op.c], op.f, op.v)]]
    [] op.op = "Delete" -> [st EXCEPT ![op.i] = [st[op.i] EXCEPT ![op.c] = Drop(st[op.i][op.c], op.f)]]
    [] op.op = "Look" -> st

Init0(n) == [i \in 1..n |-> Blank]
-----------------------------------------------------------------------------
(* What holds of the design                                                  *)
\* a constructor's error names a status net/http knows, has a title, its text starts with the status,
\* and its source names at most one of pointer / parameter
CtorWellFormed(c, a) ==
  LET e == Ctor(c, a) IN
  c # "Error" /\ ~(c = "BadRequest" /\ a[1] = "") =>
     /\ StatusName(e.status) # "" /\ e.title # ""
     /\ Members(e) \subseteq {"status", "title", "detail", "source", "meta"}
     /\ Cardinality(DOMAIN e.source) <= 1 /\ DOMAIN e.source \subseteq {"pointer", "parameter"}
\* Error() says nothing only when there is nothing to say
TextTotal(e) == Text(e) = "" <=> (StatusName(e.status) = "" /\ e.detail = "" /\ e.title = "")
\* what the documentation of Error() says ("If the error does not contain a valid error status code, it
\* returns an empty string") and the code does not do: TLC shows the shortest history
DocText(e) == StatusName(e.status) = "" => Text(e) = ""

\* the deviation, slot by slot
Dev_TextWithoutValidStatus(e, text) == StatusName(e.status) = "" /\ text # "" /\ text = Text(e)
=============================================================================
