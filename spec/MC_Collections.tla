--------------------------- MODULE MC_Collections ---------------------------
(* (M) the list laws of the documented collections; (A) histories for the driver *)
EXTENDS Collections, Json, SequencesExt

CONSTANT MaxItems
Items == { [kind |-> k, tname |-> t, id |-> i] : k \in {"soft", "wrap"}, t \in {"ta", "tb"}, i \in {"1", "2"} }
NoItem == [kind |-> "", tname |-> "", id |-> ""]
Op(o, it, i) == [op |-> o, it |-> it, i |-> i]
Alphabet == { Op("Add", it, 0) : it \in Items } \cup { Op("At", NoItem, i) : i \in -1..MaxItems + 1 }
            \cup { Op(o, NoItem, 0) : o \in {"Len", "GetType", "Wire"} }

VARIABLES col, hist
vars == <<col, hist>>
Init == \E impl \in {"resources", "wrapcol"} : col = [impl |-> impl, items |-> <<>>] /\ hist = <<>>
Next == \E it \in Items : /\ Len(col.items) < MaxItems
                          /\ col' = [col EXCEPT !.items = AddDoc(col, it)]
                          /\ hist' = Append(hist, Op("Add", it, 0))
Spec == Init /\ [][Next]_vars
ViewCol == col

\* Add appends or does nothing; the members keep their order; At agrees with the list at every index
AppendOnly == [][\/ col'.items = col.items
                 \/ (Len(col'.items) = Len(col.items) + 1 /\ SubSeq(col'.items, 1, Len(col.items)) = col.items)]_vars
InvAt == \A i \in -1..MaxItems + 1 : (AtDoc(col, i) = "nil") = (i < 0 \/ i >= Len(col.items))
InvWrapColHomogeneous == col.impl = "wrapcol" => \A j \in 1..Len(col.items) : col.items[j].kind = "wrap" /\ col.items[j].tname = SampleType
EmitAlpha == hist # <<>> \/ col.impl # "resources" \/ PrintT(<<"ALPHA", ToJson(SetToSeq(Alphabet))>>)
EmitState == PrintT(<<"S", ToJson([impl |-> col.impl, hist |-> hist])>>)
=============================================================================
