---------------------------- MODULE MetaHolders ----------------------------
(* Growth family G05 (outside the twenty listed properties): meta values.    *)
(* meta.go: Meta is a map[string]any with five accessors; a Document has a   *)
(* Meta field, SoftResource and Wrapper are MetaHolders (Meta / SetMeta keep *)
(* the map they are given: "Implementations don't have to deeply copy the    *)
(* maps").  The design therefore has a heap: holders point to maps, SetMeta  *)
(* with another holder's map makes two holders share one, a write through    *)
(* one shows through the other, Copy leaves the meta behind, and the wire    *)
(* (marshal, then unmarshal) gives the holder a map of its own in which      *)
(* every value is what encoding/json reads back: an int comes back as a      *)
(* float64, a time.Time as its RFC 3339 text, an empty or nil map as nil.    *)
(*                                                                           *)
(* st = [ptr  |-> holder -> map id (0: nil),                                 *)
(*       heap |-> map id -> [key -> value token],                            *)
(*       nxt  |-> next free id,                                              *)
(*       ints |-> holder -> keys that were given an int (ghost: what the     *)
(*                documentation of GetInt lets a reader expect)]             *)
EXTENDS Integers, Sequences, FiniteSets, TLC

Holders == {"doc", "soft", "wrap"}
Resources == {"soft", "wrap"}
Keys == {"j", "k"}
Vals == {"s_abc", "s_time", "i_7", "f_7", "f_2p5", "b_t", "b_f", "nil", "T_1"}

None == [z \in {} |-> ""]
Put(f, x, y) == [z \in DOMAIN f \cup {x} |-> IF z = x THEN y ELSE f[z]]
Drop(f, x) == [z \in DOMAIN f \ {x} |-> f[z]]

\* what encoding/json reads back of what it wrote
WireVal(v) == CASE v = "i_7" -> "f_7" [] v = "T_1" -> "s_time" [] OTHER -> v

\* the accessors, value by value ("absent": the key is not there)
StrOf(v) == CASE v = "s_abc" -> "abc" [] v = "s_time" -> "2001-02-03T04:05:06Z" [] v \in {"i_7", "f_7"} -> "7"
              [] v = "f_2p5" -> "2.5" [] v = "b_t" -> "true" [] v = "b_f" -> "false"
              [] v = "T_1" -> "2001-02-03 04:05:06 +0000 UTC" [] OTHER -> "<nil>"      \* nil and absent: fmt.Sprint(nil)
IntOf(v) == IF v = "i_7" THEN 7 ELSE 0
BoolOf(v) == v = "b_t"
TimeOf(v) == IF v = "s_time" THEN "2001-02-03T04:05:06Z" ELSE "zero"                    \* a time.Time VALUE is not read
Acc(m, k) == LET v == IF k \in DOMAIN m THEN m[k] ELSE "absent" IN
             [has |-> k \in DOMAIN m, str |-> StrOf(v), int |-> IntOf(v), bool |-> BoolOf(v), time |-> TimeOf(v)]

Show(st, h) == IF st.ptr[h] = 0 THEN None ELSE st.heap[st.ptr[h]]
IsNil(st, h) == st.ptr[h] = 0
Sharers(st, h) == IF st.ptr[h] = 0 THEN {h} ELSE {g \in Holders : st.ptr[g] = st.ptr[h]}

Init0 == [ptr |-> [h \in Holders |-> 0], heap |-> <<>>, nxt |-> 1, ints |-> [h \in Holders |-> {}]]

Alloc(st, h, m) == [st EXCEPT !.ptr[h] = st.nxt, !.heap = Append(st.heap, m), !.nxt = st.nxt + 1]

\* op = [op, h, g, k, v]
Step(st, op) ==
  CASE op.op = "Put" ->      \* m := h.Meta(); if m == nil { m = Meta{}; h.SetMeta(m) }; m[k] = v
         LET s1 == IF st.ptr[op.h] = 0 THEN Alloc(st, op.h, None) ELSE st
             id == s1.ptr[op.h]
             sh == Sharers(s1, op.h) IN
         [s1 EXCEPT !.heap[id] = Put(s1.heap[id], op.k, op.v),
                    !.ints = [g \in Holders |-> IF g \in sh THEN (IF op.v = "i_7" THEN s1.ints[g] \cup {op.k} ELSE s1.ints[g] \ {op.k})
                                                ELSE s1.ints[g]]]
    [] op.op = "Del" ->      \* delete(h.Meta(), k): nothing happens on a nil map
         IF st.ptr[op.h] = 0 THEN st
         ELSE LET id == st.ptr[op.h]
                  sh == Sharers(st, op.h) IN
              [st EXCEPT !.heap[id] = Drop(st.heap[id], op.k),
                         !.ints = [g \in Holders |-> IF g \in sh THEN st.ints[g] \ {op.k} ELSE st.ints[g]]]
    [] op.op = "Share" ->    \* g.SetMeta(h.Meta())
         [st EXCEPT !.ptr[op.g] = st.ptr[op.h], !.ints[op.g] = st.ints[op.h]]
    [] op.op = "Copy" ->     \* the resource is replaced by its Copy(): the meta stays behind
         [st EXCEPT !.ptr[op.h] = 0, !.ints[op.h] = {}]
    [] op.op = "Wire" ->     \* the holder is replaced by what the schema reads of what was written for it
         LET m == Show(st, op.h) IN
         IF DOMAIN m = {} THEN [st EXCEPT !.ptr[op.h] = 0]
         ELSE Alloc(st, op.h, [k \in DOMAIN m |-> WireVal(m[k])])
    [] op.op = "Look" -> st

-----------------------------------------------------------------------------
\* what a reader of meta.go may expect and the code does not do
\* "An empty string is returned if the key could not be found or the type is not compatible."
DocGetString(st) == \A h \in Holders, k \in Keys : k \notin DOMAIN Show(st, h) => Acc(Show(st, h), k).str = ""
\* "GetInt returns the int associated with the given key": an int that was put is read as that int
IntReadable(st) == \A h \in Holders : \A k \in st.ints[h] : Acc(Show(st, h), k).int = 7

Dev_AbsentKeyReadsNilText(st, h, k, str) == k \notin DOMAIN Show(st, h) /\ str = "<nil>"
Dev_IntUnreadableAfterWire(st, h, k, n) == k \in st.ints[h] /\ n = 0
=============================================================================
