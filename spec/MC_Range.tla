------------------------------ MODULE MC_Range ------------------------------
(* (M) an operational Range (select, filter, stable insertion sort by the   *)
(* rules, page) satisfies RangeOK - pages partition the matching resources, *)
(* order independence with id among the rules - for every case of a bounded *)
(* universe (each case is an initial state).                                *)
EXTENDS Range, SequencesExt

V(s)   == [nil |-> FALSE, s |-> s, ids |-> <<>>]
NilV   == [nil |-> TRUE, s |-> <<>>, ids |-> <<>>]

XVals == {NilV, V(<<0>>), V(<<1>>)}
Perms3 == { q \in [1..3 -> {"a", "b", "c"}] : \A i, j \in 1..3 : q[i] = q[j] => i = j }
Rule(f, d) == [f |-> f, desc |-> d]
Rules1 == { Rule(f, d) : f \in {"x", "y", "id"}, d \in BOOLEAN }
RuleLists == {<<>>} \cup { <<r>> : r \in Rules1 } \cup { <<r, s>> : r \in Rules1, s \in Rules1 }

VARIABLE c
Init == \E xa \in XVals, xb \in XVals, xc \in XVals, rl \in RuleLists, sz \in 0..3,
           fl \in {[on |-> FALSE, op |-> "=", cv |-> NilV], [on |-> TRUE, op |-> ">=", cv |-> V(<<1>>)],
                   [on |-> TRUE, op |-> "!=", cv |-> NilV]},
           ids \in {<<>>, <<"a", "c">>, <<"b", "zz">>} :
        c = [xa |-> xa, xb |-> xb, xc |-> xc, rules |-> rl, size |-> sz, flt |-> fl, ids |-> ids]
Next == UNCHANGED c
Spec == Init /\ [][Next]_c

Col == << [id |-> "a", x |-> c.xa, y |-> V(<<0>>)], [id |-> "b", x |-> c.xb, y |-> V(<<1>>)],
          [id |-> "c", x |-> c.xc, y |-> V(<<0>>)] >>

E0 == [cls |-> "num", col |-> Col, ids |-> c.ids, flt |-> c.flt, rules |-> c.rules, size |-> c.size]

\* operational Range on one input order
RECURSIVE InsertSorted(_, _, _)
InsertSorted(s, r, rules) ==   \* stable: r goes after the elements that are not greater
    IF s = <<>> THEN <<r>>
    ELSE IF Cmp(r, Head(s), rules, "reverse") < 0 THEN <<r>> \o s
    ELSE <<Head(s)>> \o InsertSorted(Tail(s), r, rules)
RECURSIVE SortAll(_, _)
SortAll(s, rules) == IF s = <<>> THEN <<>> ELSE InsertSorted(SortAll(Front(s), rules), Last(s), rules)

RangeOp(order) ==
    LET input == [i \in 1..3 |-> ById(Col, order[i])]
        sel   == SelectSeq(input, LAMBDA r : r \in Matching(E0))
        eff   == IF c.rules = <<>> THEN <<Rule("id", FALSE)>> ELSE c.rules
        srt   == SortAll(sel, eff)
        idsOf == [i \in 1..Len(srt) |-> srt[i].id]
        page(k) == SubSeq(idsOf, Min(Len(idsOf), k * c.size) + 1, Min(Len(idsOf), (k + 1) * c.size))
    IN [order |-> order, pages |-> [k \in 1..5 |-> page(k - 1)], after |-> order, nonnil |-> TRUE]

InvRangeOK == RangeOK([E0 EXCEPT !.rules = c.rules] @@
                      [runs |-> [i \in 1..Cardinality(Perms3) |-> RangeOp(SetToSeq(Perms3)[i])], ret |-> "ok"])
=============================================================================
