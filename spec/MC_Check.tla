------------------------------ MODULE MC_Check ------------------------------
(* C15 at model level: an operational transcription of Schema.Check (the   *)
(* loop of schema.go:186-243, with the inverse's target type compared) is  *)
(* checked against the declarative Offending set over ALL schemas of a     *)
(* bounded universe (TLC enumerates them as initial states).               *)
EXTENDS Schema, Json, SequencesExt

CONSTANTS TN, RN, XN, Missing,  \* XN: further names an inverse may carry (misnamed inverses)
          FX                      \* further values of FromType (the empty one: a relationship declared by hand)

VARIABLE s

RelVals(owner) ==
    { [ft |-> f, fn |-> n, to1 |-> TRUE, tt |-> t, tn |-> m, fo1 |-> FALSE] :
        f \in {owner} \cup (TN \ {owner}) \cup FX, n \in RN, t \in TN \cup {Missing}, m \in RN \cup XN \cup {""} }

\* Schemas are grown one literal relationship at a time (no validation: Check
\* must cope with any schema, however it was made), so TLC reaches every
\* schema of the universe by breadth-first search.
Ord == SetToSeq(TN)
Init == s \in { [i \in 1..k |-> EmptyType(Ord[i])] : k \in 1..Len(Ord) }
Next == \E i \in 1..Len(s) : \E r \in RelVals(s[i].name) :
          /\ r.fn \notin DOMAIN s[i].rels
          /\ s' = [s EXCEPT ![i].rels = Put(s[i].rels, r.fn, r)]
Spec == Init /\ [][Next]_s

\* the loop of Check: number of errors it appends
CheckOp(ts) ==
    LET errsOf(i, k) ==
          LET r == ts[i].rels[k]
              e1 == IF ~HasT(ts, r.tt) THEN 1 ELSE 0
              e2 == IF r.tn = "" THEN 0
                    ELSE IF r.ft # ts[i].name THEN 1
                    ELSE IF HasT(ts, r.tt) /\
                            \E k2 \in DOMAIN ts[IdxOf(ts, r.tt)].rels :
                               LET r2 == ts[IdxOf(ts, r.tt)].rels[k2] IN
                                 r.fn = r2.tn /\ r.tn = r2.fn /\ r2.tt = ts[i].name
                         THEN 0 ELSE 1
          IN e1 + e2
        pairs == RelsOf(ts)
        RECURSIVE Sum(_)
        Sum(S) == IF S = {} THEN 0 ELSE LET p == CHOOSE p \in S : TRUE IN errsOf(p[1], p[2]) + Sum(S \ {p})
    IN Sum(pairs)

\* the loop of Check again: whom its errors name
BlamedOp(ts) ==
    LET bad(i, k) ==
          LET r == ts[i].rels[k] IN
             \/ ~HasT(ts, r.tt)
             \/ /\ r.tn # ""
                /\ \/ r.ft # ts[i].name
                   \/ ~(HasT(ts, r.tt) /\ \E k2 \in DOMAIN ts[IdxOf(ts, r.tt)].rels :
                                             LET r2 == ts[IdxOf(ts, r.tt)].rels[k2] IN
                                               r.fn = r2.tn /\ r.tn = r2.fn /\ r2.tt = ts[i].name)
    IN { <<ts[p[1]].name, ts[p[1]].rels[p[2]].fn>> : p \in {q \in RelsOf(ts) : bad(q[1], q[2])} }
InvCheckBlame == BlameOK(s, SetToSeq(BlamedOp(s)), 0)
InvCheckExact == (CheckOp(s) = 0) <=> (Offending(s) = {})
InvCheckCount == CheckOp(s) >= Cardinality(Offending(s))
InvCheckAllowed == CheckAllowed(s, s, "ok", CheckOp(s))

\* (A) generation: every schema of the universe
EmitState == PrintT(<<"S", ToJson([state |-> s])>>)
=============================================================================
