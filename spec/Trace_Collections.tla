-------------------------- MODULE Trace_Collections --------------------------
(* (B) monitor of the growth family G02: self-contained events (the members of *)
(* a collection can be read without changing anything).                        *)
EXTENDS Collections, Json, IOUtils

Trace == ndJsonDeserialize(IOEnv.TRACE_FILE)
VARIABLE l
Dev(e) == IF Dev_WrapColAcceptsOtherTypes(e.pre, e.op, e.post, e.ret) THEN "Dev_WrapColAcceptsOtherTypes"
          ELSE IF Dev_WrapColAtNegativePanics(e.pre, e.op, e.ret) THEN "Dev_WrapColAtNegativePanics"
          ELSE "NONE"
\* obs comes as a string for At and GetType, a number for Len, a list for Wire: one field per form
ObsOf(e) == CASE e.op.op = "Len" -> e.obs.n [] e.op.op = "Wire" -> e.obs.members [] OTHER -> e.obs.s
Init == l = 1
Next == /\ l <= Len(Trace)
        /\ l' = l + 1
        /\ LET e == Trace[l] IN
           IF Allowed(e.pre, e.op, e.post, e.ret, ObsOf(e)) THEN TRUE ELSE PrintT(<<"REJ", l, "G02", Dev(e)>>)
Spec == Init /\ [][Next]_l
AllConsumed == TLCGet("stats").diameter - 1 = Len(Trace)
=============================================================================
