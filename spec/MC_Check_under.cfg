SPECIFICATION Spec
CONSTANTS
  TN = {"a", "a_b"}
  RN = {"c", "b_c"}
  XN = {}
  Missing = "zz"
  FX = {}
INVARIANTS InvCheckExact InvCheckCount InvCheckAllowed InvCheckBlame
CHECK_DEADLOCK FALSE
