SPECIFICATION Spec
CONSTANTS
  TN = {"a", "b", "c"}
  RN = {"r"}
  XN = {"q"}
  Missing = "zz"
  FX = {}
INVARIANTS EmitState
CHECK_DEADLOCK FALSE
