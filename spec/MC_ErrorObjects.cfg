SPECIFICATION Spec
CONSTANTS
  N = 2
  Depth = 4
  UseCtors = {"Error", "BadRequest", "UnknownFieldInBody", "NotFound", "RequestURITooLong", "DuplicateFieldInFieldsParameter"}
VIEW ViewSt
INVARIANTS InvCtors InvTextTotal
PROPERTIES OthersUntouched
CHECK_DEADLOCK FALSE
