SPECIFICATION Spec
CONSTANTS
  TN = {"a", "b"}
  RN = {"r"}
  XN = {"x"}
  Missing = "zz"
  FX = {"", "zz"}
INVARIANTS InvCheckExact InvCheckCount InvCheckAllowed InvCheckBlame
CHECK_DEADLOCK FALSE
