----------------------------- MODULE Trace_Struct -----------------------------
(* (B) monitor for C20: every struct declared at run time, with what Check,    *)
(* BuildType, Wrap and the Resource operations did on it.                      *)
EXTENDS Struct, Json, IOUtils

Trace == ndJsonDeserialize(IOEnv.TRACE_FILE)
VARIABLE l

Init == l = 1
Next == /\ l <= Len(Trace)
        /\ l' = l + 1
        /\ LET e == Trace[l] IN
           IF e.ev = "struct" /\ StructOK(e.shape, e.obs) THEN TRUE
           ELSE PrintT(<<"REJ", l, "C20", IF Dev_TypeNameReadAsFieldTag(e) THEN "Dev_TypeNameReadAsFieldTag"
                                    ELSE IF Dev_CheckAcceptsUnsound(e) THEN "Dev_CheckAcceptsUnsound"
                                    ELSE IF Dev_SetWritesUntaggedNamesake(e) THEN "Dev_SetWritesUntaggedNamesake"
                                    ELSE IF Dev_StringIDOnNamedTypePanics(e) THEN "Dev_StringIDOnNamedTypePanics" ELSE "NONE">>)
Spec == Init /\ [][Next]_l
AllConsumed == TLCGet("stats").diameter - 1 = Len(Trace)
=============================================================================
