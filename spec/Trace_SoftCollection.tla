------------------------- MODULE Trace_SoftCollection -------------------------
(* (B) monitor for C19: every recorded real SoftCollection call.            *)
EXTENDS SoftCollection, Json, IOUtils

Trace == ndJsonDeserialize(IOEnv.TRACE_FILE)
VARIABLE l

Dev(e) == IF Dev_SetTypeLeavesItemsBehind(e) THEN "Dev_SetTypeLeavesItemsBehind" ELSE "NONE"

\* A pre-state in which a stored resource is already off the collection's type
\* (the residue of an earlier rejected step of the same history) is not judged
\* again: the step that broke it was.
PreOK(e) == /\ \A f \in DOMAIN e.pre.ctype.fields : e.pre.ctype.fields[f].kind \in {"attr", "rel"}   \* not both (out-of-domain history)
            /\ ItemsTyped(e.pre)
            /\ \A i \in 1..Len(e.obs.preitemdefs) : e.obs.preitemdefs[i] = e.pre.ctype.fields

Judge(e) ==
    /\ e.ret # "panic"
    /\ PreOK(e) =>
        /\ Allowed(e.pre, e.op, e.post, e.ret)
        /\ ObsOK(e.post, e.obs)
        /\ \A i \in 1..Len(e.obs.itemdefs) : e.obs.itemdefs[i] = e.post.ctype.fields
        /\ ItemsTyped(e.post)

Init == l = 1
Next == /\ l <= Len(Trace)
        /\ l' = l + 1
        /\ IF Judge(Trace[l]) THEN TRUE ELSE PrintT(<<"REJ", l, "C19", Dev(Trace[l])>>)
        /\ IF PreOK(Trace[l]) THEN TRUE ELSE PrintT(<<"NOTE", l, "C19", "pre-state already off-type: step not judged">>)
Spec == Init /\ [][Next]_l
AllConsumed == TLCGet("stats").diameter - 1 = Len(Trace)
=============================================================================
