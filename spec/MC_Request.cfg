SPECIFICATION Spec
INVARIANTS InvTable
CHECK_DEADLOCK FALSE
