---------------------------- MODULE Trace_Schema ----------------------------
(* (B) trace validation for the schema family: a monitor over recorded     *)
(* real calls.  Every event is self-contained ({pre, op, post, ret, obs}   *)
(* are projections of the REAL Schema before/after the call); the monitor  *)
(* never blocks: a rejected event is printed with the named deviation that *)
(* explains it ("NONE" otherwise) and the next event is still judged.      *)
EXTENDS Schema, Json, IOUtils

Trace == ndJsonDeserialize(IOEnv.TRACE_FILE)
VARIABLE l

Dev(e) ==
    IF e.ev = "step" /\ Dev_RemoveTypeNonLastPanics(e) THEN "Dev_RemoveTypeNonLastPanics"
    ELSE IF e.ev = "step" /\ Dev_TwoWayHalfAdded(e) THEN "Dev_TwoWayHalfAdded"
    ELSE IF e.ev = "step" /\ Dev_InvalidNullableKindAccepted(e) THEN "Dev_InvalidNullableKindAccepted"
    ELSE IF e.ev = "step" /\ Dev_RemoveKeepsHandKeyedField(e) THEN "Dev_RemoveKeepsHandKeyedField"
    ELSE IF e.ev = "check" /\ Dev_CheckIgnoresInverseTarget(e) THEN "Dev_CheckIgnoresInverseTarget"
    ELSE "NONE"

Judge(e) ==
    CASE e.ev = "step"  -> /\ Allowed(e.pre, e.op, e.post, e.ret)
                           /\ (e.ret # "panic" => ObsOK(e.post, e.obs))
                           /\ (WellFormed(e.pre) /\ e.ret # "panic" => WellFormed(e.post))
      \* (next_nerrs: Check, right afterwards, of a coherent schema that holds every type name this one mentions)
      [] e.ev = "check" -> /\ CheckAllowed(e.pre, e.post, e.ret, e.obs.nerrs) /\ e.obs.next_nerrs = 0
                           \* every offending relationship is named by an error; nothing of the schema was written, not even a nil map made empty
                           /\ BlameOK(e.pre, e.obs.blamed, e.obs.unparsed) /\ e.obs.deep_same
      [] OTHER -> FALSE

Init == l = 1
Next == /\ l <= Len(Trace)
        /\ l' = l + 1
        /\ IF Judge(Trace[l]) THEN TRUE
           ELSE PrintT(<<"REJ", l, IF Trace[l].ev = "check" THEN "C15" ELSE "C14", Dev(Trace[l])>>)
Spec == Init /\ [][Next]_l
AllConsumed == TLCGet("stats").diameter - 1 = Len(Trace)
=============================================================================
