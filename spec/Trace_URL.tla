------------------------------ MODULE Trace_URL ------------------------------
(* (B) monitor for C07 / C08: every recorded parse and every String() chain.   *)
EXTENDS URL, Json, IOUtils

Trace == ndJsonDeserialize(IOEnv.TRACE_FILE)
VARIABLE l

DevUrl(e) == IF Dev_EmptyFilterPanics(e) THEN "Dev_EmptyFilterPanics"
             ELSE IF Dev_TooManySortRulesPanics(e) THEN "Dev_TooManySortRulesPanics"
             ELSE IF Dev_InvalidIncludeAfterInvalidKept(e) THEN "Dev_InvalidIncludeAfterInvalidKept"
             ELSE IF Dev_IncludePruning(e) THEN "Dev_IncludePruning"
             ELSE "NONE"

Init == l = 1
Next == /\ l <= Len(Trace)
        /\ l' = l + 1
        /\ LET e == Trace[l] IN
           CASE e.ev = "url" -> IF ParseOK(e.req, e.out) THEN TRUE ELSE PrintT(<<"REJ", l, "C07", DevUrl(e)>>)
             [] e.ev = "chain" -> IF e.ret = "ok" /\ ChainOK(e.r) THEN TRUE
                                  ELSE PrintT(<<"REJ", l, "C08", IF Dev_StringDropsOtherPageArguments(e) THEN "Dev_StringDropsOtherPageArguments"
                                                             ELSE IF Dev_StringMalformedForEmptyFieldList(e) THEN "Dev_StringMalformedForEmptyFieldList"
                                                             ELSE IF Dev_LabelNotJSONEncoded(e) THEN "Dev_LabelNotJSONEncoded"
                                                            ELSE IF Dev_StringDoesNotEscape(e) THEN "Dev_StringDoesNotEscape" ELSE "NONE">>)
             [] OTHER -> PrintT(<<"REJ", l, "C07", "unknown-event">>)
Spec == Init /\ [][Next]_l
AllConsumed == TLCGet("stats").diameter - 1 = Len(Trace)
=============================================================================
