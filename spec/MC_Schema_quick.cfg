SPECIFICATION Spec
CONSTANTS
  TN = {"a", "b"}
  AN = {"x"}
  RN = {"r"}
  MaxTypes = 2
  Rich = TRUE
VIEW View
INVARIANTS InvWellFormed InvLookups CoherentAfterTwoWay
PROPERTIES ErrLeavesUnchanged RemoveAbsentIsNoop TwoWayPost
CHECK_DEADLOCK FALSE
