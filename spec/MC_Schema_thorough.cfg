SPECIFICATION Spec
CONSTANTS
  TN = {"a", "b", "c"}
  AN = {"x"}
  RN = {"r"}
  MaxTypes = 2
  Rich = TRUE
VIEW View
INVARIANTS InvWellFormed InvLookups CoherentAfterTwoWay
PROPERTIES ErrLeavesUnchanged RemoveAbsentIsNoop TwoWayPost
CHECK_DEADLOCK FALSE
