SPECIFICATION GenSpec
CONSTANTS
  TN = {"a", "b"}
  AN = {}
  RN = {"r", "s"}
  MaxTypes = 2
  Rich = FALSE
CONSTRAINT FewFields
VIEW View
INVARIANTS EmitState
CHECK_DEADLOCK FALSE
