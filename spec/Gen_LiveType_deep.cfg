SPECIFICATION Spec
CONSTANTS
  N = 2
  Depth = 6
VIEW ViewSt
INVARIANTS EmitState EmitAlphaOnce
CHECK_DEADLOCK FALSE
