-------------------------------- MODULE Struct --------------------------------
(* Struct declarations handed to Check / BuildType / Wrap (helpers.go,          *)
(* wrapper.go).  Serves C20.                                                    *)
(* A shape: [id |-> ID variant, fields |-> Seq([gotype, json, api])]            *)
(*   id \in {"ok" (ID string `json:"id" api:"st"`), "noapi", "absent", "int",   *)
(*           "jsonother" (json:"identifier"), "nojson", "last" (as "ok", declared *)
(*           after the other fields), "named" (as "ok", of a defined string type)}*)
(*   api: the whole api tag text; json: the json tag ("" = none)               *)
EXTENDS Integers, Sequences, FiniteSets, TLC

AttrKind(g) == CASE g = "string" -> [k |-> "string", null |-> FALSE]
                 [] g = "*int" -> [k |-> "int", null |-> TRUE]
                 [] g = "[]uint8" -> [k |-> "bytes", null |-> FALSE]
                 [] g = "bool" -> [k |-> "bool", null |-> FALSE]
                 [] g = "time.Time" -> [k |-> "time", null |-> FALSE]
                 [] g = "*uint64" -> [k |-> "uint64", null |-> TRUE]
                 [] g = "*[]uint8" -> [k |-> "bytes", null |-> TRUE]
                 [] g = "*time.Time" -> [k |-> "time", null |-> TRUE]
                 [] g = "*bool" -> [k |-> "bool", null |-> TRUE]
                 [] g = "*string" -> [k |-> "string", null |-> TRUE]
                 [] OTHER -> [k |-> "unsupported", null |-> FALSE]

\* the api tag split at commas
RECURSIVE SplitComma(_)
SplitComma(s) ==
    IF s = "" THEN <<"">>
    ELSE LET RECURSIVE Scan(_, _, _)
             Scan(i, cur, acc) ==
                IF i > Len(s) THEN Append(acc, cur)
                ELSE IF SubSeq(s, i, i) = "," THEN Scan(i + 1, "", Append(acc, cur))
                ELSE Scan(i + 1, cur \o SubSeq(s, i, i), acc)
         IN Scan(1, "", <<>>)

\* the json name of a field: "" = no json key at all, "~" = the key with an empty value (json:"")
JName(f) == IF f.json = "~" THEN "" ELSE f.json

IsAttr(f) == f.api = "attr"
IsRel(f)  == SplitComma(f.api)[1] = "rel"
Tagged(f) == IsAttr(f) \/ IsRel(f)

\* the api tag of the ID field is the type's name, whatever it spells: a type may be called attr or rel
\* ("tname-*": ID string `json:"id" api:"<name>"`; "named-attr": the same with an ID of a defined string type)
TypeName(id) == CASE id \in {"tname-attr", "named-attr"} -> "attr"
                  [] id = "tname-rel" -> "rel"
                  [] id = "tname-rel2" -> "rel,tx"
                  [] id = "tname-rel4" -> "rel,a,b,c"
                  [] OTHER -> "st"
\* ("embedded": the ID field is promoted from a struct that the declaration embeds)
SaneIds == {"ok", "last", "named", "tname-attr", "tname-rel", "tname-rel2", "tname-rel4", "named-attr", "embedded"}

\* the declaration is one the library can serve: this is what a sound Check accepts at most
Sane(sh) ==
    /\ sh.id \in SaneIds    \* ID string first, ID string after the other fields, ID of a defined string type, a type called like a tag
    /\ \A i \in 1..Len(sh.fields) : LET f == sh.fields[i] IN
          /\ IsAttr(f) => AttrKind(f.gotype).k # "unsupported" /\ JName(f) \notin {"", "id"}
          /\ IsRel(f) => /\ Len(SplitComma(f.api)) \in {2, 3}
                         /\ SplitComma(f.api)[2] # ""
                         /\ f.gotype \in {"string", "[]string"}
                         /\ JName(f) \notin {"", "id"}
    /\ \A i, j \in 1..Len(sh.fields) :
          (Tagged(sh.fields[i]) /\ Tagged(sh.fields[j]) /\ JName(sh.fields[i]) = JName(sh.fields[j])) => i = j

\* the type the tags and Go field types declare
Expected(sh) ==
    LET A == {i \in 1..Len(sh.fields) : IsAttr(sh.fields[i])}
        R == {i \in 1..Len(sh.fields) : IsRel(sh.fields[i])}
        idx(S, n) == CHOOSE i \in S : JName(sh.fields[i]) = n
    IN [name |-> TypeName(sh.id),
        attrs |-> [n \in {JName(sh.fields[i]) : i \in A} |-> AttrKind(sh.fields[idx(A, n)].gotype)],
        rels |-> [n \in {JName(sh.fields[i]) : i \in R} |->
                    LET f == sh.fields[idx(R, n)]  t == SplitComma(f.api) IN
                    [to1 |-> f.gotype # "[]string", tt |-> t[2], tn |-> IF Len(t) = 3 THEN t[3] ELSE ""]]]

\* o: [check, build, wrap \in {"ok", "err", "panic"}, panics: Seq(STRING), built, wrapped]
StructOK(sh, o) ==
    /\ o.check # "panic"
    /\ o.next = "ok"        \* the sound declaration checked right afterwards is accepted, whatever this one was
    /\ o.check = "ok" =>
          /\ o.panics = <<>> /\ o.build = "ok" /\ o.wrap = "ok"
          /\ Sane(sh)                      \* otherwise "exactly the tagged fields" cannot hold
          /\ o.built = Expected(sh) /\ o.wrapped = Expected(sh)
    /\ o.check = "err" => o.build = "err" /\ o.wrap \in {"err", "panic"}   \* Wrap refuses by panicking

-----------------------------------------------------------------------------
(* The pinned code: Check accepts declarations that later panic or yield a     *)
(* type that is not the declared one.                                          *)
\* (fixed) the ID field's api tag was read a second time as a field declaration: in a type called attr
\* the ID was also an attribute "id", in a type called "rel,x" a relationship "id", and a type called
\* rel was refused (Check, BuildType and Wrap alike)
Dev_TypeNameReadAsFieldTag(e) ==
    /\ e.ev = "struct" /\ e.shape.id \in {"tname-attr", "tname-rel", "tname-rel2", "tname-rel4", "named-attr"}
    /\ Sane(e.shape)
Dev_CheckAcceptsUnsound(e) ==
    /\ e.ev = "struct" /\ e.obs.check = "ok" /\ ~Sane(e.shape)
\* (fixed) Wrapper.Set wrote the first field with the json name, tagged or not, while Get
\* read the first TAGGED one: a field without api tag that shares the json name of an
\* attribute or relationship declared after it received the value (panic: wrong Go type)
Dev_SetWritesUntaggedNamesake(e) ==
    /\ e.ev = "struct" /\ e.obs.check = "ok" /\ Sane(e.shape) /\ e.obs.panics # <<>>
    /\ \E i, j \in 1..Len(e.shape.fields) :
          i < j /\ ~Tagged(e.shape.fields[i]) /\ Tagged(e.shape.fields[j])
          /\ e.shape.fields[i].json = e.shape.fields[j].json
\* (fixed) Wrapper.Set("id", "x") wrote the id twice, the second time through the generic field
\* setter, which refuses a string for an ID field of a defined string type: Check accepts such a
\* struct, UnmarshalResource into it panicked
Dev_StringIDOnNamedTypePanics(e) ==
    \* (the same second write hit a field tagged json:"id" with an unknown api tag declared before ID)
    /\ e.ev = "struct" /\ e.obs.check = "ok" /\ Sane(e.shape)
    /\ \E i \in 1..Len(e.obs.panics) : e.obs.panics[i] \in {"setid", "unmarshal"}
=============================================================================
