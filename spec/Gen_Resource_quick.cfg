SPECIFICATION Spec
CONSTANTS
  MaxObjs = 3
  Depth = 2
VIEW View
INVARIANTS EmitState
CHECK_DEADLOCK FALSE
