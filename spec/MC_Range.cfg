SPECIFICATION Spec
INVARIANTS InvRangeOK
CHECK_DEADLOCK FALSE
