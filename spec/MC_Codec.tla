------------------------------ MODULE MC_Codec ------------------------------
(* (M) the decode table of Codec.tla over a universe of kinds x literals:   *)
(* an intended Decode (operational) satisfies DecodeOK; for plain integers  *)
(* the outcome is unique; accept and reject partition the literals; a value *)
(* encoded as the library encodes it decodes to itself.                     *)
EXTENDS Codec

Kinds == IntKinds \cup {"bool", "string", "time", "bytes"}
Near(t, o) == [t |-> t, o |-> o, far |-> FALSE, id |-> ""]
Far(t)     == [t |-> t, o |-> 0, far |-> TRUE, id |-> "far"]
IntVals == { Near(t, o) : t \in {1, 2, 4, 5, 6, 7, 8}, o \in -2..2 }
      \cup { Near(3, o) : o \in {-70000, -32769, -32768, -32767, -129, -128, -127, -1, 0, 1, 126, 127, 128,
                                 254, 255, 256, 32766, 32767, 32768, 65534, 65535, 65536, 70000} }
      \cup { Far(t) : t \in 1..8 }
Lit(c, n, i) == [cls |-> c, n |-> n, isint |-> i, canon |-> TRUE]
Lits == { Lit("int", n, TRUE) : n \in IntVals }
   \cup { Lit(c, n, i) : c \in {"frac", "exp"}, n \in {Near(3, 1), Near(3, 300), Near(6, 1)}, i \in BOOLEAN }
   \cup { [Lit("int", Near(3, 0), TRUE) EXCEPT !.canon = FALSE] }   \* -0
   \cup { Lit(c, Near(3, 0), FALSE) : c \in {"null", "true", "false", "str", "time", "timelax", "b64", "b64nc", "arr", "obj"} }

\* the intended decoder: a set of allowed results (nondeterministic only where the property is)
Res(out, isnil, n, same) == [out |-> out, isnil |-> isnil, n |-> n, same |-> same, typeok |-> TRUE, both |-> FALSE]
Reject == Res("reject", FALSE, Near(3, 0), FALSE)
Decode(kind, nullable, lit) ==
    IF lit.cls = "null" THEN (IF nullable THEN {Res("accept", TRUE, Near(3, 0), TRUE)} ELSE {Reject})
    ELSE IF kind \in IntKinds THEN
        CASE lit.cls = "int" -> IF InRange(kind, lit.n)
                                THEN {Res("accept", FALSE, lit.n, TRUE)} \cup (IF lit.canon THEN {} ELSE {Reject})
                                ELSE {Reject}
          [] lit.cls \in {"frac", "exp"} ->
                {Reject} \cup (IF lit.isint /\ InRange(kind, lit.n) THEN {Res("accept", FALSE, lit.n, TRUE)} ELSE {})
          [] OTHER -> {Reject}
    ELSE IF kind = "bool" THEN (IF lit.cls \in {"true", "false"} THEN {Res("accept", FALSE, Near(3, 0), TRUE)} ELSE {Reject})
    ELSE IF kind = "string" THEN (IF lit.cls \in StrClasses THEN {Res("accept", FALSE, Near(3, 0), TRUE)} ELSE {Reject})
    ELSE IF kind = "time" THEN (IF lit.cls = "time" THEN {Res("accept", FALSE, Near(3, 0), TRUE)}
                                ELSE IF lit.cls = "timelax" THEN {Reject, Res("accept", FALSE, Near(3, 0), TRUE)} ELSE {Reject})
    ELSE (IF lit.cls = "arr" THEN {Reject, Res("accept", FALSE, Near(3, 0), FALSE)} ELSE IF lit.cls = "b64" THEN {Res("accept", FALSE, Near(3, 0), TRUE)}
          ELSE IF lit.cls = "b64nc" THEN {Reject, Res("accept", FALSE, Near(3, 0), TRUE)} ELSE {Reject})

VARIABLE c
Init == c \in [kind : Kinds, null : BOOLEAN, lit : Lits]
Next == UNCHANGED c
Spec == Init /\ [][Next]_c

D == Decode(c.kind, c.null, c.lit)
InvSound      == \A r \in D : DecodeOK(c.kind, c.null, c.lit, r) /\ DecodeRobust(r)
InvNonEmpty   == D # {}
InvIntUnique  == (c.kind \in IntKinds /\ c.lit.cls = "int" /\ c.lit.canon) => Cardinality(D) = 1
\* nothing accepted for an integer kind is out of range, whatever the literal
InvNoWrap     == \A r \in D : (c.kind \in IntKinds /\ r.out = "accept" /\ ~r.isnil) => InRange(c.kind, r.n) /\ r.n = c.lit.n
\* round trip: the literal the library writes for a stored value decodes to that value
InvRoundTrip  == (c.kind \in IntKinds /\ c.lit.cls = "int" /\ c.lit.canon /\ InRange(c.kind, c.lit.n)) =>
                    D = {Res("accept", FALSE, c.lit.n, TRUE)}
\* the wider the kind, the more it accepts (ranges are nested as Go's are)
InvNested     == (c.lit.cls = "int" /\ InRange("int8", c.lit.n)) =>
                    InRange("int16", c.lit.n) /\ InRange("int32", c.lit.n) /\ InRange("int64", c.lit.n)
=============================================================================
