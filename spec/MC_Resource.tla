---------------------------- MODULE MC_Resource ----------------------------
(* Bounded exploration of the Resource family: breadth-first to a given     *)
(* depth from seeded histories (a fully populated soft resource, a fully    *)
(* populated wrapped struct, the empty store), and simulation walks.        *)
EXTENDS Resource, Json, SequencesExt

CONSTANTS MaxObjs, Depth

A(k, n)  == [kind |-> "attr", k |-> k, null |-> n, to1 |-> FALSE, tt |-> ""]
R(o, t)  == [kind |-> "rel", k |-> "", null |-> FALSE, to1 |-> o, tt |-> t]
V(r)     == [nil |-> FALSE, r |-> r, ids |-> <<>>]
NilV     == [nil |-> TRUE, r |-> 0, ids |-> <<>>]
Ids(s)   == [nil |-> FALSE, r |-> 0, ids |-> s]

TFields == [s |-> A("string", FALSE), n |-> A("int", TRUE), b |-> A("bytes", FALSE), q |-> A("bytes", TRUE),
            o |-> R(TRUE, "tt"), m |-> R(FALSE, "tt")]

\* types with no relationship / no attribute at all (their other map is empty)
TAttrsOnly == [s |-> A("string", FALSE)]
TRelsOnly  == [m |-> R(FALSE, "tt")]
\* two attributes whose names differ by their case only
\* ... and one whose name is a json tag with an option (for this library the whole tag is the name)
TCase == [s |-> A("string", FALSE), S |-> A("string", FALSE)] @@ ("j,omitempty" :> A("string", FALSE))
\* two to-many relationships (and nothing else)
TManys == [m |-> R(FALSE, "tt"), k |-> R(FALSE, "tt")]
\* relationships that name no target type (SoftResource.AddRel takes them; the library's own tests declare them)
TLoose == [o |-> R(TRUE, ""), m |-> R(FALSE, "")]
NoDef == A("", FALSE)
Op(o, h, impl, f, v, id, def, unt) ==
    [op |-> o, h |-> h, impl |-> impl, tname |-> "rt", fields |-> IF o = "New" THEN TFields ELSE <<>>,
     f |-> f, v |-> v, id |-> id, def |-> def, untyped |-> unt]
NewOf(impl, tn, flds) == [Op("New", 0, impl, "", V(0), "", NoDef, FALSE) EXCEPT !.tname = tn, !.fields = flds]

H == 1..MaxObjs
Alphabet ==
       { Op("New", 0, i, "", V(0), "", NoDef, FALSE) : i \in {"soft", "wrap"} }
  \cup { NewOf(i, "rta", TAttrsOnly) : i \in {"soft", "wrap"} } \cup { NewOf(i, "rtr", TRelsOnly) : i \in {"soft", "wrap"} }
  \cup { NewOf(i, "rtc", TCase) : i \in {"soft", "wrap"} }
  \cup { NewOf(i, "rtm", TManys) : i \in {"soft", "wrap"} }
  \cup { NewOf("soft", "rtl", TLoose) }
  \cup { Op("ZeroNew", 0, "soft", "", V(0), "", NoDef, FALSE) }
  \cup { Op("Set", h, "", p[1], p[2], "", NoDef, FALSE) : h \in H,
            p \in { <<"s", V(1)>>, <<"s", V(2)>>, <<"n", V(0)>>, <<"n", V(1)>>, <<"n", V(2)>>, <<"n", NilV>>, <<"b", V(1)>>, <<"b", V(2)>>,
                    <<"q", V(1)>>, <<"q", NilV>>, <<"o", Ids(<<"a">>)>>, <<"o", Ids(<<>>)>>,
                    <<"m", Ids(<<"b", "a">>)>>, <<"m", Ids(<<"c", "b", "a">>)>>, <<"m", Ids(<<>>)>>,
                    <<"m", Ids(<<"a", "b", "a">>)>>, <<"S", V(1)>>, <<"S", V(2)>>, <<"k", Ids(<<"b", "a", "d">>)>>, <<"k", Ids(<<"e">>)>>, <<"j,omitempty", V(1)>> } }
  \cup { Op("Set", h, "", f, NilV, "", NoDef, TRUE) : h \in H, f \in {"n", "q"} }   \* untyped nil
  \cup { Op("Set", h, "", "b", V(0), "", NoDef, TRUE) : h \in H }                  \* empty bytes given as a nil slice
  \cup { Op("SetID", h, "", "", V(0), id, NoDef, FALSE) : h \in H, id \in {"i1", "i2", ""} }
  \cup { Op(o, h, "", "", V(0), "", NoDef, FALSE) : o \in {"Copy", "NewLike", "TypeCopy", "Marshal", "TypeEdit", "DerivedNew"}, h \in H }
  \cup { Op("MutSlice", h, "", f, V(3), "", NoDef, FALSE) : h \in H, f \in {"b", "q", "m"} }
  \cup { Op("Filter", h, "", "m", V(0), "", NoDef, FALSE) : h \in H }
  \cup { Op("AddField", h, "", p[1], V(0), "", p[2], FALSE) : h \in H,
            p \in { <<"z", A("string", FALSE)>>, <<"y", R(FALSE, "tt")>>, <<"s", A("int", FALSE)>> } }
  \cup { Op("RemoveField", h, "", f, V(0), "", NoDef, FALSE) : h \in H, f \in {"s", "m", "zz"} }
  \* (as many fields before and after: an attribute for an attribute, a relationship for a relationship, one for the other)
  \cup { Op("TypeRename", h, "", p[1], V(0), p[2], p[3], FALSE) : h \in H,
            p \in { <<"s", "z", A("string", FALSE)>>, <<"n", "z", A("int", FALSE)>>, <<"m", "y", R(FALSE, "tt")>>, <<"s", "y", R(TRUE, "tt")>> } }

RECURSIVE Run(_, _)
Run(objs, ops) == IF ops = <<>> THEN objs
                  ELSE Run((CHOOSE r \in Res(objs, Head(ops)) : TRUE).post, Tail(ops))

Populate(impl) == <<
    Op("New", 0, impl, "", V(0), "", NoDef, FALSE),
    Op("Set", 1, "", "s", V(1), "", NoDef, FALSE), Op("Set", 1, "", "n", V(1), "", NoDef, FALSE),
    Op("Set", 1, "", "b", V(1), "", NoDef, FALSE), Op("Set", 1, "", "q", V(1), "", NoDef, FALSE),
    Op("Set", 1, "", "o", Ids(<<"a">>), "", NoDef, FALSE), Op("Set", 1, "", "m", Ids(<<"c", "b", "a">>), "", NoDef, FALSE),
    Op("SetID", 1, "", "", V(0), "i1", NoDef, FALSE) >>
\* a soft resource whose type has no field at all, and its copy
Fieldless == << NewOf("soft", "rt0", <<>>), Op("Copy", 1, "", "", V(0), "", NoDef, FALSE) >>
\* a soft resource that was given no type at all (the zero value of the Go type)
Typeless == << NewOf("soft", "", <<>>) >>
\* a resource with two to-many relationships, both holding ids
Manys(impl) == << NewOf(impl, "rtm", TManys),
                  Op("Set", 1, "", "m", Ids(<<"c", "b", "a">>), "", NoDef, FALSE), Op("Set", 1, "", "k", Ids(<<"b", "a", "d">>), "", NoDef, FALSE) >>
Seeds == { <<>>, Populate("soft"), Populate("wrap"), Fieldless, Typeless, Manys("soft"), Manys("wrap"),
           Populate("soft") \o <<Op("Copy", 1, "", "", V(0), "", NoDef, FALSE)>>,
           Populate("wrap") \o <<Op("Copy", 1, "", "", V(0), "", NoDef, FALSE)>> }

VARIABLES objs, ret, hist, depth
vars == <<objs, ret, hist, depth>>

Init == \E sd \in Seeds : objs = Run(<<>>, sd) /\ hist = sd /\ ret = "ok" /\ depth = 0
Do(op) == /\ depth < Depth
          /\ Enabled(objs, op)
          /\ \E r \in Res(objs, op) :
               /\ Len(r.post) <= MaxObjs
               /\ objs' = r.post /\ ret' = r.ret /\ hist' = Append(hist, op) /\ depth' = depth + 1
Next == \E op \in Alphabet : Do(op)
Spec == Init /\ [][Next]_vars
View == <<objs, depth>>

\* C18 frame condition as an action property of the model itself
FrameProp == [][FrameOK(objs, hist'[Len(hist')], objs')]_vars
\* C17: what is read is what was last written / zero: every entry stays well-typed and complete
InvTyped == \A h \in 1..Len(objs) : IsRes(objs[h]) =>
               /\ DOMAIN objs[h].vals = DOMAIN objs[h].fields
               /\ \A f \in DOMAIN objs[h].fields : WellTyped(objs[h].fields[f], objs[h].vals[f])
\* a Copy equals its source at the moment of copying; a NewLike is all zero
CopyProp == [][LET op == hist'[Len(hist')] IN
                 /\ (op.op = "Copy" => objs'[Len(objs')] = objs[op.h])
                 /\ (op.op = "NewLike" => objs'[Len(objs')].vals = ZeroVals(objs[op.h].fields)
                                          /\ objs'[Len(objs')].fields = objs[op.h].fields)]_vars

\* C17 equality pairs: a populated and a zero-valued entry, each varied in exactly one aspect
E1 == [impl |-> "soft", tname |-> "rt", fields |-> TFields, id |-> "i1",
       vals |-> [s |-> V(1), n |-> V(1), b |-> V(1), q |-> V(1), o |-> Ids(<<"a">>), m |-> Ids(<<"c", "b", "a">>)]]
E0 == [impl |-> "soft", tname |-> "rt", fields |-> TFields, id |-> "i1", vals |-> ZeroVals(TFields)]
Rename(e, f, g) == [e EXCEPT !.fields = [x \in (DOMAIN e.fields \ {f}) \cup {g} |-> IF x = g THEN e.fields[f] ELSE e.fields[x]],
                             !.vals   = [x \in (DOMAIN e.vals \ {f}) \cup {g} |-> IF x = g THEN e.vals[f] ELSE e.vals[x]]]
DropF(e, f) == [e EXCEPT !.fields = [x \in DOMAIN e.fields \ {f} |-> e.fields[x]],
                            !.vals   = [x \in DOMAIN e.vals \ {f} |-> e.vals[x]]]
Rekind(e, f, k, nl) == [e EXCEPT !.fields[f].k = k, !.fields[f].null = nl]
Recard(e, f, one, ids) == [e EXCEPT !.fields[f].to1 = one, !.vals[f] = Ids(ids)]
AltVal(e, f) == LET d == e.fields[f] v == e.vals[f] IN
    IF d.kind = "attr" THEN (IF v.nil \/ v.r # 2 THEN V(2) ELSE V(1))
    ELSE IF d.to1 THEN (IF v.ids = <<"b">> THEN Ids(<<"a">>) ELSE Ids(<<"b">>))
    ELSE (IF v.ids = <<"a">> THEN Ids(<<"b">>) ELSE Ids(<<"a">>))
Variants(e) ==
       {e, [e EXCEPT !.tname = "rt2"], [e EXCEPT !.id = "i2"], [e EXCEPT !.id = ""]}
  \cup { Rename(e, f, f \o "2") : f \in DOMAIN e.fields }
  \cup { [e EXCEPT !.vals[f] = AltVal(e, f)] : f \in DOMAIN e.fields }
  \cup { [e EXCEPT !.vals[f] = NilV] : f \in {"n", "q"} }
  \* ... and a pointer to the zero value (an empty byte string, the number 0): a value, not the absence of one
  \cup { [e EXCEPT !.vals[f] = V(0)] : f \in {"n", "q"} }
  \cup { [e EXCEPT !.vals["m"] = Ids(<<"a", "c", "b">>)] }
  \* ids that hold a comma: two lists that read the same once joined by commas, and the empty id against no id
  \cup { [e EXCEPT !.vals["m"] = Ids(<<"a,b">>)], [e EXCEPT !.vals["m"] = Ids(<<"a", "b">>)],
         [e EXCEPT !.vals["m"] = Ids(<<"a", "b,c">>)], [e EXCEPT !.vals["m"] = Ids(<<"a,b", "c">>)], [e EXCEPT !.vals["m"] = Ids(<<"">>)] }
  \* as many ids, all of them among the other side's, yet another set
  \cup { [e EXCEPT !.vals["m"] = Ids(<<"a", "a", "b">>)], [e EXCEPT !.vals["m"] = Ids(<<"c", "c", "c">>)] }
  \* the same attribute name with another kind: a zero of another width prints the same
  \cup { Rekind([e EXCEPT !.vals["n"] = V(0)], "n", k, nl) : k \in {"int", "int64", "uint8"}, nl \in BOOLEAN }
  \cup { Rekind(e, "s", "int", FALSE) }
  \* the same name as an attribute on one side and as a (to-one, empty) relationship on the other: as many fields in all
  \cup { [e EXCEPT !.fields["s"] = R(TRUE, "tt"), !.vals["s"] = Ids(<<>>)] }
  \* one field fewer: everything the smaller one has is in the larger one too (Equal must fail in BOTH directions)
  \cup { DropF(e, f) : f \in DOMAIN e.fields }
  \* the same relationship name with the other cardinality, empty or holding one id
  \cup { Recard(e, "o", FALSE, ids) : ids \in {<<>>, <<"a">>} } \cup { Recard(e, "m", TRUE, ids) : ids \in {<<>>, <<"a">>} }
EqPairs == { <<a, b>> \in (Variants(E1) \cup Variants(E0)) \X (Variants(E1) \cup Variants(E0)) : TRUE }
EmitEq == PrintT(<<"EQ", ToJson(SetToSeq(EqPairs))>>)

EmitAlpha == PrintT(<<"ALPHA", ToJson(SetToSeq(Alphabet))>>)
EmitState == PrintT(<<"S", ToJson([hist |-> hist])>>)
\* simulation: print the history of every behaviour when it reaches the depth bound
EmitWalk  == depth = Depth => PrintT(<<"W", ToJson([hist |-> hist])>>)
=============================================================================
