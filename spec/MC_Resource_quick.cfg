SPECIFICATION Spec
CONSTANTS
  MaxObjs = 3
  Depth = 2
VIEW View
INVARIANTS InvTyped
PROPERTIES FrameProp CopyProp
CHECK_DEADLOCK FALSE
