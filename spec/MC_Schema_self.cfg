SPECIFICATION Spec
CONSTANTS
  TN = {"a"}
  AN = {}
  RN = {"r", "s"}
  MaxTypes = 1
  Rich = TRUE
VIEW View
INVARIANTS InvWellFormed InvLookups CoherentAfterTwoWay
PROPERTIES ErrLeavesUnchanged RemoveAbsentIsNoop TwoWayPost
CHECK_DEADLOCK FALSE
