SPECIFICATION Spec
CONSTANTS
  N = 2
  Depth = 2
  UseCtors = {"BadRequest", "MalformedFilterParameter", "InvalidPageNumberParameter", "InvalidPageSizeParameter", "InvalidFieldValueInBody", "DuplicateFieldInFieldsParameter", "MissingDataMember", "UnknownFieldInBody", "UnknownFieldInURL", "UnknownParameter", "UnknownRelationshipInPath", "UnknownTypeInURL", "UnknownFieldInFilterParameter", "UnknownOperatorInFilterParameter", "InvalidValueInFilterParameter", "UnknownCollationInFilterParameter", "UnknownFilterParameterLabel", "Unauthorized", "Forbidden", "NotFound", "PayloadTooLarge", "RequestURITooLong", "UnsupportedMediaType", "TooManyRequests", "RequestHeaderFieldsTooLarge", "InternalServerError", "ServiceUnavailable", "NotImplemented", "Error"}
VIEW ViewSt
INVARIANTS EmitState EmitAlphaOnce
CHECK_DEADLOCK FALSE
