SPECIFICATION Spec
INVARIANTS InvConsistent InvTotalOrder InvRouteNeeded
CHECK_DEADLOCK FALSE
