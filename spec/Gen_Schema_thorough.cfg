SPECIFICATION GenSpec
CONSTANTS
  TN = {"a", "b", "c"}
  AN = {"x"}
  RN = {"r"}
  MaxTypes = 2
  Rich = TRUE
VIEW View
INVARIANTS EmitState
CHECK_DEADLOCK FALSE
