SPECIFICATION Spec
CONSTANTS
  TN = {"a", "b", "c"}
  AN = {"x"}
  RN = {}
  MaxTypes = 3
  Rich = TRUE
VIEW View
INVARIANTS InvWellFormed InvLookups CoherentAfterTwoWay
PROPERTIES ErrLeavesUnchanged RemoveAbsentIsNoop TwoWayPost
CHECK_DEADLOCK FALSE
