----------------------------- MODULE MC_Schema -----------------------------
(* Bounded universe for model checking (M) and state generation (A) of the *)
(* schema-edit family.                                                     *)
EXTENDS Schema, Json, SequencesExt

CONSTANTS TN,        \* type names
          AN,        \* attribute names
          RN,        \* relationship names
          MaxTypes,  \* bound on Len(types)
          Rich       \* TRUE: AddRel with foreign FromType, both cardinalities for AddTwoWayRel

VARIABLES types, ret, hist, lastop
vars == <<types, ret, hist, lastop>>

RelArgs1 == \* relationships given to AddRel
    { [ft |-> a, fn |-> n, to1 |-> TRUE, tt |-> b, tn |-> m, fo1 |-> FALSE] :
        a \in TN, b \in TN \cup {""}, n \in RN \cup {""}, m \in RN \cup {""} }
RelArgs2 == \* relationships given to AddTwoWayRel (both directions, same type allowed)
    { [ft |-> a, fn |-> n, to1 |-> c, tt |-> b, tn |-> m, fo1 |-> ~c] :
        a \in TN \cup {"zz"}, b \in TN, n \in RN \cup {""}, m \in RN \cup {""}, c \in IF Rich THEN BOOLEAN ELSE {TRUE} }

NoAttr == [name |-> "", k |-> "string", null |-> FALSE]
NoRel  == [ft |-> "", fn |-> "", to1 |-> FALSE, tt |-> "", tn |-> "", fo1 |-> FALSE]
Op(o, t, n, typ, attr, rel) == [op |-> o, t |-> t, n |-> n, typ |-> typ, attr |-> attr, rel |-> rel]

Alphabet ==
       { Op("AddType", "", "", EmptyType(n), NoAttr, NoRel) : n \in TN \cup {""} }
  \cup { Op("RemoveType", t, "", EmptyType(""), NoAttr, NoRel) : t \in TN \cup {"zz"} }
  \cup { Op("AddAttr", t, "", EmptyType(""), [name |-> a, k |-> k, null |-> (k = "int")], NoRel) :
            t \in TN \cup {"zz"}, a \in AN \cup RN \cup {""}, k \in {"string", "int", "invalid"} }
  \* invalid kinds in every spelling: the zero kind made nullable, and a number beyond the last kind
  \cup { Op("AddAttr", t, "", EmptyType(""), [name |-> a, k |-> k, null |-> n], NoRel) :
            t \in TN, a \in AN, k \in {"invalid", "invalid-high"}, n \in BOOLEAN }
  \cup { Op("RemoveAttr", t, a, EmptyType(""), NoAttr, NoRel) : t \in TN \cup {"zz"}, a \in AN \cup {"zz"} }
  \cup { Op("AddRel", p[1], "", EmptyType(""), NoAttr, p[2]) :
            p \in { q \in (TN \cup {"zz"}) \X RelArgs1 : Rich \/ q[2].ft = q[1] \/ q[1] = "zz" } }
  \cup { Op("RemoveRel", t, n, EmptyType(""), NoAttr, NoRel) : t \in TN \cup {"zz"}, n \in RN \cup {"zz"} }
  \cup { Op("AddTwoWayRel", "", "", EmptyType(""), NoAttr, r) : r \in RelArgs2 }

Init == types = <<>> /\ ret = "ok" /\ hist = <<>> /\ lastop = Op("Init", "", "", EmptyType(""), NoAttr, NoRel)

Do(op) == /\ InDomain(op)
          /\ \E r \in Res(types, op) :
               /\ Len(r.post) <= MaxTypes
               /\ types' = r.post /\ ret' = r.ret
               /\ hist' = Append(hist, op) /\ lastop' = op
Next == \E op \in Alphabet : Do(op)
Spec == Init /\ [][Next]_vars

View == types

-----------------------------------------------------------------------------
(* C14 invariants and action properties                                    *)
InvWellFormed == WellFormed(types)
InvLookups    == \A n \in TN \cup {"", "zz"} : HasT(types, n) <=> n \in Names(types)
ErrLeavesUnchanged == [][ret' = "err" => types' = types]_vars
RemoveAbsentIsNoop ==
    [][LET op == lastop' IN
         (\/ (op.op = "RemoveType" /\ ~HasT(types, op.t))
          \/ (op.op = "RemoveAttr" /\ (~HasT(types, op.t) \/ op.n \notin AttrNames(types[IdxOf(types, op.t)])))
          \/ (op.op = "RemoveRel"  /\ (~HasT(types, op.t) \/ op.n \notin RelNames(types[IdxOf(types, op.t)]))))
         => types' = types]_vars
TwoWayPost ==
    [][LET op == lastop' IN
         (op.op = "AddTwoWayRel" /\ TwoWayOK(types, op.rel))
         => /\ ret' = "ok"
            /\ LET r == op.rel IN
                 /\ types'[IdxOf(types', r.ft)].rels[r.fn] = r
                 /\ types'[IdxOf(types', r.tt)].rels[r.tn] = Invert(r)]_vars
\* C14 <-> C15: a schema built only from two-way additions on existing types is coherent
OnlyTwoWay == \A i \in 1..Len(hist) : hist[i].op \in {"AddType", "AddTwoWayRel", "AddAttr", "RemoveAttr"}
CoherentAfterTwoWay == OnlyTwoWay => Offending(types) = {}

\* bound for the universes with two relationship names on two types (cfg "conf"):
\* at most three fields in the whole schema
FewFields == LET n[i \in 0..Len(types)] ==
                   IF i = 0 THEN 0
                   ELSE n[i - 1] + Cardinality(DOMAIN types[i].attrs) + Cardinality(DOMAIN types[i].rels)
             IN n[Len(types)] <= 3

-----------------------------------------------------------------------------
(* (A) generation: every distinct state with the first history reaching it *)
EmitAlpha == PrintT(<<"ALPHA", ToJson(SetToSeq(Alphabet))>>)
EmitState == PrintT(<<"S", ToJson([hist |-> hist, state |-> types])>>)
GenInit   == Init /\ EmitAlpha
GenSpec   == GenInit /\ [][Next]_vars
=============================================================================
