----------------------------- MODULE MC_Request -----------------------------
(* (M) the handler's decision table is total and depends on the body only for *)
(* POST and PATCH; (A) the vocabulary of cases for the driver.                *)
EXTENDS Request, Json, SequencesExt

URLClasses == {"col", "one", "rel", "relationships", "query", "unknowntype", "unknownrel", "badescape", "empty", "badfield"}
BodyClasses == {"none", "empty", "doc-one", "doc-col", "doc-null", "doc-errors", "notjson", "unknowntype", "badattr", "array", "doc-ident"}

VARIABLE c
Init == \E m \in Methods, u \in URLClasses, b \in BodyClasses, n \in BOOLEAN : c = [method |-> m, urlc |-> u, bodyc |-> b, nilschema |-> n]
Next == UNCHANGED c
Spec == Init /\ [][Next]_c

\* for every verdict of the two parsers the handler answers, and the body matters for POST / PATCH only
InvTable == \A uo \in BOOLEAN, bo \in BOOLEAN :
               /\ Handler(c.method, uo, bo) \in {"ok", "err"}
               /\ (c.method \notin WithBody => Handler(c.method, uo, bo) = Handler(c.method, uo, ~bo))
               /\ (~uo => Handler(c.method, uo, bo) = "err")
EmitCase == PrintT(<<"CASE", ToJson(c)>>)
=============================================================================
