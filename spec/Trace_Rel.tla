------------------------------ MODULE Trace_Rel ------------------------------
(* (B) monitor for C16: laws evaluated on the OBSERVED results of the real  *)
(* Invert / Normalize / String, and on the observed Schema.Rels() of every  *)
(* order of adding the types of a coherent schema.                          *)
EXTENDS Rel, Json, IOUtils

Trace == ndJsonDeserialize(IOEnv.TRACE_FILE)
VARIABLE l

Dev(e) == IF Dev_NormalizeByConcatenation(e) THEN "Dev_NormalizeByConcatenation"
          ELSE IF Dev_RelsKeyCollision(e) THEN "Dev_RelsListing"
          ELSE "NONE"

Judge(e) ==
    CASE e.ev = "rel"  -> (InDomain(e.r) => LawsOK(e.r, e.obs)) /\ e.ret = "ok"
      [] e.ev = "rels" -> e.ret = "ok" /\ RelsOK(e.schema, e.perms)
      [] OTHER -> FALSE

Init == l = 1
Next == /\ l <= Len(Trace)
        /\ l' = l + 1
        /\ IF Judge(Trace[l]) THEN TRUE ELSE PrintT(<<"REJ", l, "C16", Dev(Trace[l])>>)
Spec == Init /\ [][Next]_l
AllConsumed == TLCGet("stats").diameter - 1 = Len(Trace)
=============================================================================
