SPECIFICATION Spec
CONSTANTS
  TN = {"a", "b", "c"}
  RN = {"r"}
  XN = {"q"}
  Missing = "zz"
  FX = {}
INVARIANTS InvCheckExact InvCheckCount InvCheckAllowed
CHECK_DEADLOCK FALSE
