SPECIFICATION Spec
CONSTANTS
  TN = {"a", "b", "c"}
  RN = {"r"}
  XN = {"q"}
  Missing = "zz"
  FX = {}
INVARIANTS InvCheckExact InvCheckCount InvCheckAllowed InvCheckBlame
CHECK_DEADLOCK FALSE
