SPECIFICATION Spec
CONSTANTS
  MaxFields = 2
  Pairs = FALSE
INVARIANTS InvExpectedWellDefined EmitState
CHECK_DEADLOCK FALSE
