-------------------------------- MODULE Rel --------------------------------
(* Relationship values (type.go:368-417) and Schema.Rels (schema.go).       *)
(* Names are sequences of symbols (1=a 2=b 3=c 4=_ ...) so that collisions *)
(* of concatenated names ("ab"+"c" vs "a"+"bc", "a_b"."c" vs "a"."b_c")    *)
(* are expressible and ordered explicitly (TLC has no order on strings).   *)
(* A rel: [ft, fn, to1, tt, tn, fo1] with ft fn tt tn \in Seq(Nat).        *)
(* Serves C16.                                                             *)
EXTENDS Integers, Sequences, FiniteSets, TLC

RECURSIVE LexLess(_, _)
LexLess(a, b) ==
    IF a = <<>> THEN b # <<>>
    ELSE IF b = <<>> THEN FALSE
    ELSE IF Head(a) = Head(b) THEN LexLess(Tail(a), Tail(b))
    ELSE Head(a) < Head(b)

Invert(r) == [ft |-> r.tt, fn |-> r.tn, to1 |-> r.fo1, tt |-> r.ft, tn |-> r.fn, fo1 |-> r.to1]

OneWay(r) == r.tn = <<>>

\* Intended: "the one that comes first when sorting both relationships in
\* alphabetical order using the type name first and then the relationship name"
PairLess(r) == LexLess(r.ft, r.tt) \/ (r.ft = r.tt /\ (LexLess(r.fn, r.tn) \/ r.fn = r.tn))
Normalize(r) == IF OneWay(r) \/ PairLess(r) THEN r ELSE Invert(r)

\* The pinned code: compares the concatenations
ConcatLess(r) == LexLess(r.ft \o r.fn, r.tt \o r.tn)
NormalizeByConcatenation(r) == IF ConcatLess(r) \/ OneWay(r) THEN r ELSE Invert(r)

\* In the domain of C16: a relationship has a name and two type names.
InDomain(r) == r.ft # <<>> /\ r.tt # <<>> /\ r.fn # <<>>
\* A relationship that is its own inverse up to cardinality (same type and same name on both
\* ends, cardinalities different) has no canonical direction: the laws that compare it with its
\* inverse do not apply to it, the others do.
Degenerate(r) == r.ft = r.tt /\ r.fn = r.tn /\ r.to1 # r.fo1

\* The laws, on any candidate normalisation function given by its observed
\* values: o = [inv, invinv, norm, normnorm, norminv, str, strinv]
LawsOK(r, o) ==
    /\ o.inv = Invert(r)
    /\ o.invinv = r
    /\ o.norm \in {r, o.inv}
    /\ o.normnorm = o.norm
    /\ (OneWay(r) => o.norm = r)
    /\ (~OneWay(r) /\ ~Degenerate(r) => o.norm = o.norminv /\ o.str = o.strinv)

\* Model-level laws of the intended Normalize
ObsOf(N(_), r) == [inv |-> Invert(r), invinv |-> Invert(Invert(r)), norm |-> N(r), normnorm |-> N(N(r)),
                   norminv |-> N(Invert(r)), str |-> N(r), strinv |-> N(Invert(r))]

-----------------------------------------------------------------------------
(* Schema.Rels on a coherent schema: types = sequence of [name, rels: Seq(rel)] *)

AllRels(ts) == UNION { {ts[i].rels[j] : j \in 1..Len(ts[i].rels)} : i \in 1..Len(ts) }

\* expected listing, as a set of unordered pairs {r, Invert(r)} (one-way: {r})
Classes(ts) == { IF OneWay(r) THEN {r} ELSE {r, Invert(r)} : r \in AllRels(ts) }

\* listed: one observed result of Rels() (a sequence of rels)
ListingOK(ts, listed) ==
    /\ Len(listed) = Cardinality(Classes(ts))
    /\ \A c \in Classes(ts) : Cardinality({i \in 1..Len(listed) : listed[i] \in c}) = 1

\* perms: the results of Rels() for every order of adding the types
RelsOK(ts, perms) ==
    /\ \A p \in 1..Len(perms) : ListingOK(ts, perms[p])
    /\ \A p, q \in 1..Len(perms) : perms[p] = perms[q]

\* the pinned code's deviations
Dev_NormalizeByConcatenation(e) ==
    /\ e.ev = "rel" /\ ~LawsOK(e.r, e.obs)
    /\ e.obs.norm = NormalizeByConcatenation(e.r)
    /\ e.obs.norminv = NormalizeByConcatenation(Invert(e.r))
Dev_RelsKeyCollision(e) ==
    /\ e.ev = "rels" /\ ~RelsOK(e.schema, e.perms)
=============================================================================
