-------------------------------- MODULE Rel --------------------------------
(* Relationship values (type.go:368-417) and Schema.Rels (schema.go).       *)
(* Names are sequences of symbols (1=a 2=b 3=c 4=_ ...) so that collisions *)
(* of concatenated names ("ab"+"c" vs "a"+"bc", "a_b"."c" vs "a"."b_c")    *)
(* are expressible and ordered explicitly (TLC has no order on strings).   *)
(* A rel: [ft, fn, to1, tt, tn, fo1] with ft fn tt tn \in Seq(Nat).        *)
(* Serves C16.                                                             *)
EXTENDS Integers, Sequences, FiniteSets, TLC

RECURSIVE LexLess(_, _)
LexLess(a, b) ==
    IF a = <<>> THEN b # <<>>
    ELSE IF b = <<>> THEN FALSE
    ELSE IF Head(a) = Head(b) THEN LexLess(Tail(a), Tail(b))
    ELSE Head(a) < Head(b)

Invert(r) == [ft |-> r.tt, fn |-> r.tn, to1 |-> r.fo1, tt |-> r.ft, tn |-> r.fn, fo1 |-> r.to1]

OneWay(r) == r.tn = <<>>

\* Intended: "the one that comes first when sorting both relationships in
\* alphabetical order using the type name first and then the relationship name"
PairLess(r) == LexLess(r.ft, r.tt) \/ (r.ft = r.tt /\ (LexLess(r.fn, r.tn) \/ r.fn = r.tn))
Normalize(r) == IF OneWay(r) \/ PairLess(r) THEN r ELSE Invert(r)

\* The pinned code: compares the concatenations
ConcatLess(r) == LexLess(r.ft \o r.fn, r.tt \o r.tn)
NormalizeByConcatenation(r) == IF ConcatLess(r) \/ OneWay(r) THEN r ELSE Invert(r)

\* In the domain of C16: a relationship has a name.  ("all type and relationship names": a relationship
\* VALUE may carry the empty type name on either end, although no schema holds such a type)
InDomain(r) == r.fn # <<>>
\* A relationship that is its own inverse up to cardinality (same type and same name on both
\* ends, cardinalities different) has no canonical direction: the laws that compare it with its
\* inverse do not apply to it, the others do.
Degenerate(r) == r.ft = r.tt /\ r.fn = r.tn /\ r.to1 # r.fo1

\* The laws, on any candidate normalisation function given by its observed
\* values: o = [inv, invinv, norm, normnorm, norminv, str, strinv]
LawsOK(r, o) ==
    /\ o.inv = Invert(r)
    /\ o.invinv = r
    /\ o.norm \in {r, o.inv}
    /\ o.normnorm = o.norm
    /\ (OneWay(r) => o.norm = r)
    /\ (~OneWay(r) /\ ~Degenerate(r) => o.norm = o.norminv /\ o.str = o.strinv)

\* Model-level laws of the intended Normalize
ObsOf(N(_), r) == [inv |-> Invert(r), invinv |-> Invert(Invert(r)), norm |-> N(r), normnorm |-> N(N(r)),
                   norminv |-> N(Invert(r)), str |-> N(r), strinv |-> N(Invert(r))]

-----------------------------------------------------------------------------
(* Schema.Rels on a coherent schema: types = sequence of [name, rels: Seq(rel)] *)

AllRels(ts) == UNION { {ts[i].rels[j] : j \in 1..Len(ts[i].rels)} : i \in 1..Len(ts) }

\* A pair is identified by its two ends (type and name on each side), whatever cardinalities the two
\* declarations state (a coherent schema in the sense of Check may state them differently on the two
\* sides): the key of a one-way relationship is the relationship's names, that of a pair the set of
\* its two ends.
NameKey(r) == IF OneWay(r) THEN {<<r.ft, r.fn, r.tt>>} ELSE {<<r.ft, r.fn>>, <<r.tt, r.tn>>}
Classes(ts) == { NameKey(r) : r \in AllRels(ts) }

\* listed: one observed result of Rels() (a sequence of rels): one entry per class, each entry one of
\* the declared relationships of the class or the inverse of one
ListingOK(ts, listed) ==
    /\ Len(listed) = Cardinality(Classes(ts))
    /\ \A c \in Classes(ts) : Cardinality({i \in 1..Len(listed) : NameKey(listed[i]) = c}) = 1
    /\ \A i \in 1..Len(listed) : \E r \in AllRels(ts) : listed[i] \in {r, Invert(r)}

\* perms: the results of Rels() for every order of adding the types
\* a class whose declarations agree (each is the other or its inverse) has one canonical
\* representative; where the two sides state different cardinalities, which side's statement is
\* listed is left open
Mirrored(ts, c) == \A r \in AllRels(ts) : \A r2 \in AllRels(ts) :
                      (NameKey(r) = c /\ NameKey(r2) = c) => r2 \in {r, Invert(r)}
RelsOK(ts, perms) ==
    /\ \A p \in 1..Len(perms) : ListingOK(ts, perms[p])
    /\ \A p, q \in 1..Len(perms) :
          /\ Len(perms[p]) = Len(perms[q])
          /\ \A i \in 1..Len(perms[p]) :
                /\ NameKey(perms[p][i]) = NameKey(perms[q][i])       \* the same pairs in the same order
                /\ Mirrored(ts, NameKey(perms[p][i])) => perms[p][i] = perms[q][i]

\* the pinned code's deviations
Dev_NormalizeByConcatenation(e) ==
    /\ e.ev = "rel" /\ ~LawsOK(e.r, e.obs)
    /\ e.obs.norm = NormalizeByConcatenation(e.r)
    /\ e.obs.norminv = NormalizeByConcatenation(Invert(e.r))
Dev_RelsKeyCollision(e) ==
    /\ e.ev = "rels" /\ ~RelsOK(e.schema, e.perms)
=============================================================================
