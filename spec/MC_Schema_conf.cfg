SPECIFICATION Spec
CONSTANTS
  TN = {"a", "b"}
  AN = {}
  RN = {"r", "s"}
  MaxTypes = 2
  Rich = FALSE
CONSTRAINT FewFields
VIEW View
INVARIANTS InvWellFormed InvLookups CoherentAfterTwoWay
PROPERTIES ErrLeavesUnchanged RemoveAbsentIsNoop TwoWayPost
CHECK_DEADLOCK FALSE
