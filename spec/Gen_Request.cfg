SPECIFICATION Spec
INVARIANTS EmitCase
CHECK_DEADLOCK FALSE
