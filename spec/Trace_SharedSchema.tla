-------------------------- MODULE Trace_SharedSchema --------------------------
(* (B) monitor for C12: footprint observations and race-detector runs of       *)
(* TLC-generated schedules.                                                    *)
EXTENDS SharedSchema, Json, IOUtils

Trace == ndJsonDeserialize(IOEnv.TRACE_FILE)
VARIABLE l

Init == l = 1
Next == /\ l <= Len(Trace)
        /\ l' = l + 1
        /\ LET e == Trace[l]
               ok == CASE e.ev = "footprint" -> FootprintOK(e)
                       [] e.ev = "sched" -> SchedOK(e)
                       [] OTHER -> FALSE
           IN IF ok THEN TRUE
              ELSE PrintT(<<"REJ", l, "C12", IF Dev_RelsWritesCache(e) THEN "Dev_RelsWritesCache" ELSE "NONE">>)
Spec == Init /\ [][Next]_l
AllConsumed == TLCGet("stats").diameter - 1 = Len(Trace)
=============================================================================
