------------------------------ MODULE MC_Filter ------------------------------
(* (M) the comparison laws of C10 on the specification's own Leaf, over a   *)
(* universe of values with prefixes, different lengths and adjacent ranks;  *)
(* (A) every leaf case (class, nullable, operator, value pair) and every    *)
(* and/or tree shape of the bound, emitted for the driver.                  *)
EXTENDS Filter, Json, SequencesExt

V(s)   == [nil |-> FALSE, s |-> s, ids |-> <<>>]
NilV   == [nil |-> TRUE, s |-> <<>>, ids |-> <<>>]
Ids(q) == [nil |-> FALSE, s |-> <<>>, ids |-> q]

NumVals  == { V(<<r>>) : r \in 0..4 }
SeqVals  == { V(s) : s \in {<<>>, <<0>>, <<1>>, <<1, 0>>, <<1, 1>>, <<1, 2>>, <<2>>, <<2, 1>>, <<2, 1, 0>>} }
BoolVals == { V(<<0>>), V(<<1>>) }
To1Vals  == { Ids(<<>>), Ids(<<"a">>), Ids(<<"b">>) }
ToNVals  == { Ids(<<>>), Ids(<<"a">>), Ids(<<"a", "b">>), Ids(<<"b", "a">>), Ids(<<"a", "c">>), Ids(<<"a", "b", "c">>),
              Ids(<<"c", "d">>), Ids(<<"d", "c">>),
              \* lists that repeat an id (as long as another list, all of their ids among the other's)
              Ids(<<"a", "a", "b">>), Ids(<<"b", "b">>), Ids(<<"c", "c", "c">>) }   \* (the driver's ids make {a, b} and {c, d} join to the same text)
Ops == {"=", "!=", "<", "<=", ">", ">=", "in", "has", "nope"}

ASSUME \A cls \in {"num", "seq"} : LET U == IF cls = "num" THEN NumVals ELSE SeqVals IN
    /\ Trichotomy(cls, U) /\ Complement(cls, U) /\ LeqSplit(cls, U)
    /\ Transitive(cls, U) /\ Antisym(cls, U) /\ NilRules(cls, U)
ASSUME Complement("bool", BoolVals) /\ \A a, b \in BoolVals : \A o \in CmpOps : ~Leaf("bool", o, a, b)
ASSUME \A a, b \in ToNVals : \A o \in CmpOps : ~Leaf("toN", o, a, b)
ASSUME \A cls \in {"num", "seq", "bool", "to1", "toN"} : \A a \in NumVals : ~Leaf(cls, "nope", a, a)

Case(cls, null, op, rv, cv) == [cls |-> cls, null |-> null, op |-> op, rv |-> rv, cv |-> cv]
LeafCases ==
       { Case("num", n, o, a, b) : n \in BOOLEAN, o \in Ops \ {"in", "has"}, a \in NumVals, b \in NumVals }
  \cup { Case("num", TRUE, o, a, b) : o \in Ops \ {"in", "has"},
            a \in NumVals \cup {NilV}, b \in NumVals \cup {NilV} }
  \cup { Case("seq", n, o, a, b) : n \in BOOLEAN, o \in Ops \ {"in", "has"}, a \in SeqVals, b \in SeqVals }
  \cup { Case("seq", TRUE, o, a, b) : o \in Ops \ {"in", "has"},
            a \in SeqVals \cup {NilV}, b \in SeqVals \cup {NilV} }
  \cup { Case("bool", n, o, a, b) : n \in BOOLEAN, o \in Ops \ {"in", "has"}, a \in BoolVals, b \in BoolVals }
  \cup { Case("bool", TRUE, o, a, b) : o \in Ops \ {"in", "has"},
            a \in BoolVals \cup {NilV}, b \in BoolVals \cup {NilV} }
  \cup { Case("to1", FALSE, o, a, b) : o \in {"=", "!=", "nope"}, a \in To1Vals, b \in To1Vals }
  \cup { Case("to1", FALSE, "in", a, b) : a \in To1Vals, b \in ToNVals \cup {Ids(<<"e">>), Ids(<<"e", "a">>), Ids(<<"b", "e">>)} }
  \cup { Case("toN", FALSE, o, a, b) : o \in Ops \ {"in", "has"}, a \in ToNVals, b \in ToNVals }
  \cup { Case("toN", FALSE, "has", a, b) : a \in ToNVals, b \in {Ids(<<"a">>), Ids(<<"c">>)} }

\* tree shapes: depth <= 3, <= 3 children, leaves are indices into a vector of leaf filters
L(i) == [o |-> "leaf", i |-> i, c |-> <<>>]
N(o, c) == [o |-> o, i |-> 0, c |-> c]
Shapes1 == { L(1), L(2), N("and", <<>>), N("or", <<>>) }
Shapes2 == Shapes1 \cup { N(o, c) : o \in {"and", "or"}, c \in {<<a>> : a \in Shapes1} \cup {<<a, b>> : a \in Shapes1, b \in Shapes1} }
Shapes3 == Shapes2 \cup { N(o, <<a, b>>) : o \in {"and", "or"}, a \in Shapes2 \ Shapes1, b \in {L(3), N("or", <<>>), N("and", <<L(1), L(3)>>)} }
         \cup { N(o, <<L(1), L(2), L(3)>>) : o \in {"and", "or"} }
         \* a list of filters under an operator that is neither and nor or: the unknown operator allows nothing,
         \* alone and inside the known groups
         \cup { N("nope", c) : c \in {<<>>, <<L(1)>>, <<L(1), L(2)>>, <<N("and", <<>>)>>} }
         \cup { N(o, <<a, N("nope", c)>>) : o \in {"and", "or"}, a \in {L(1), N("and", <<>>), N("or", <<>>)}, c \in {<<>>, <<L(2)>>, <<L(1), L(1)>>} }

\* every leaf case is a state: the laws that concern one pair are invariants
VARIABLE x
Init == x \in LeafCases
Next == UNCHANGED x
Spec == Init /\ [][Next]_x
L2(o) == Leaf(x.cls, o, x.rv, x.cv)
InvComplement == x.op \notin {"in", "has"} => (L2("=") # L2("!="))
InvSplit == Ordered(x.cls) /\ ~x.rv.nil /\ ~x.cv.nil =>
              /\ L2("<=") = (L2("<") \/ L2("=")) /\ L2(">=") = (L2(">") \/ L2("="))
              /\ Cardinality({o \in {"<", "=", ">"} : L2(o)}) = 1
InvNeverOrdered == (~Ordered(x.cls) \/ x.rv.nil \/ x.cv.nil) => \A o \in CmpOps : ~L2(o)
InvUnknownOp == ~L2("nope")
EmitCases == PrintT(<<"LEAVES", ToJson(SetToSeq(LeafCases))>>)
EmitTrees == PrintT(<<"TREES", ToJson(SetToSeq(Shapes3))>>)
=============================================================================
