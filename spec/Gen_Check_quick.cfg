SPECIFICATION Spec
CONSTANTS
  TN = {"a", "b"}
  RN = {"r", "s"}
  XN = {}
  Missing = "zz"
  FX = {}
INVARIANTS EmitState
CHECK_DEADLOCK FALSE
