SPECIFICATION Spec
CONSTANTS
  TN = {"a", "b"}
  RN = {"r", "s"}
  XN = {}
  Missing = "zz"
INVARIANTS EmitState
CHECK_DEADLOCK FALSE
