SPECIFICATION Spec
CONSTANTS
  TN = {"a", "b"}
  RN = {"r", "s"}
  XN = {}
  Missing = "zz"
INVARIANTS InvCheckExact InvCheckCount InvCheckAllowed
CHECK_DEADLOCK FALSE
