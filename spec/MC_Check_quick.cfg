SPECIFICATION Spec
CONSTANTS
  TN = {"a", "b"}
  RN = {"r", "s"}
  XN = {}
  Missing = "zz"
  FX = {}
INVARIANTS InvCheckExact InvCheckCount InvCheckAllowed InvCheckBlame
CHECK_DEADLOCK FALSE
