SPECIFICATION Spec
CONSTANTS
  Depth = 3
  UseVals = {"s_abc", "s_time", "i_7", "f_7", "f_2p5", "b_t", "b_f", "nil", "T_1"}
VIEW ViewSt
INVARIANTS EmitState EmitAlphaOnce
CHECK_DEADLOCK FALSE
