-------------------------- MODULE Trace_ErrorObjects --------------------------
(* (B) stateful monitor of the growth family G04: the model state is stepped  *)
(* along every recorded history (a "reset" event starts one); after every     *)
(* call the driver wrote down what EVERY slot shows, and all of it must be    *)
(* what the model state says.                                                 *)
EXTENDS ErrorObjects, Json, IOUtils

Trace == ndJsonDeserialize(IOEnv.TRACE_FILE)
N == 2
VARIABLES l, st, off

Pairs(seq) == {<<seq[j].k, seq[j].v>> : j \in 1..Len(seq)}
OfFn(fn) == {<<k, fn[k]>> : k \in DOMAIN fn}
SetOf(seq) == {seq[j] : j \in 1..Len(seq)}
SlotOK(e, o) ==
    /\ o.text = Text(e)
    /\ SetOf(o.members) = Members(e) /\ Len(o.members) = Cardinality(Members(e))
    /\ o.jsonok
    /\ \A m \in Maps : Pairs(o[m]) = OfFn(e[m]) /\ Len(o[m]) = Cardinality(DOMAIN e[m])
    /\ \A t \in Texts : o[t] = e[t]

Init == l = 1 /\ st = Init0(N) /\ off = FALSE
Next == /\ l <= Len(Trace)
        /\ l' = l + 1
        /\ LET e == Trace[l] IN
           IF e.ev = "reset" THEN st' = Init0(N) /\ off' = FALSE
           ELSE LET post == Step(st, e.op)
                    same == e.ret = "ok" /\ Len(e.obs) = N /\ \A i \in 1..N : SlotOK(post[i], e.obs[i])
                IN /\ st' = post
                   /\ off' = (off \/ ~same)
                   /\ IF same \/ off THEN TRUE ELSE PrintT(<<"REJ", l, "G04", "NONE">>)
                   /\ IF same /\ ~off /\ \E i \in 1..N : Dev_TextWithoutValidStatus(post[i], e.obs[i].text)
                      THEN PrintT(<<"REJ", l, "G04", "Dev_TextWithoutValidStatus">>) ELSE TRUE
Spec == Init /\ [][Next]_<<l, st, off>>
AllConsumed == TLCGet("stats").diameter - 1 = Len(Trace)
=============================================================================
