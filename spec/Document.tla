------------------------------ MODULE Document ------------------------------
(* Documents (document.go, resource.go MarshalResource, collection.go).      *)
(* Serves C02 (document round trip), C03 (well-formedness, Include), C04      *)
(* (sparse fieldsets / relationship data), C11 (determinism).                 *)
(*                                                                           *)
(* The schema of this family is fixed:                                       *)
(*   t1: attributes a, n   relationships o, o2 (to-one -> t2), m, m2 (to-many -> t2) *)
(*   t2: attributes b, c1..c8, d1..d9  relationships p, o (to-one -> t1)       *)
(* A resource: [type, id, vals: [field -> [nil, r, ids]]].                    *)
(* A document: [kind, coll, primary, included, nerrors, fields, reldata]      *)
(*   kind \in {"null", "one", "many", "ident", "idents", "errors"}            *)
(*   fields / reldata: [type -> Seq(name)]; a missing type = no entry.        *)
EXTENDS Integers, Sequences, FiniteSets, TLC

\* t2 carries many more attributes so that a selection can name more than eight, sixteen, thirty-two fields;
\* "C1" differs from "c1" by its case only: two names, two attributes
T2Extra == {"c1", "c2", "c3", "c4", "c5", "c6", "c7", "c8", "d1", "d2", "d3", "d4", "d5", "d6", "d7", "d8", "d9",
            "C1", "e01", "e02", "e03", "e04", "e05", "e06", "e07", "e08", "e09", "e10", "e11", "e12", "e13", "e14"}
AttrsOf(t) == IF t = "t1" THEN {"a", "n"} ELSE IF t = "t2" THEN {"b"} \cup T2Extra ELSE {}
\* (t2 has a relationship "o" as well: the same name as t1's, on another type)
RelsOf(t)  == IF t = "t1" THEN {"o", "m", "o2", "m2"} ELSE IF t = "t2" THEN {"p", "o"} ELSE {}
ToOne(t, f) == f \in {"o", "o2", "p"}
\* (t1.m2 leads to t1 itself: one resource has relationships to two types, and the same id under m and
\* under m2 names two different resources)
Target(t, f) == IF t = "t1" /\ f # "m2" THEN "t2" ELSE "t1"

AsSet(q) == {q[i] : i \in 1..Len(q)}
Sel(doc, t)  == IF t \in DOMAIN doc.fields THEN AsSet(doc.fields[t]) ELSE {}
Data(doc, t) == IF t \in DOMAIN doc.reldata THEN AsSet(doc.reldata[t]) ELSE {}

-----------------------------------------------------------------------------
(* C04: what one resource object must expose                                *)
\* a member of a mixed collection may be a soft resource on a type of its own: the schema type's
\* name and one more attribute, "ex" (res.extra)
AttrsOfRes(res) == AttrsOf(res.type) \cup (IF res.extra THEN {"ex"} ELSE {})
ExpAttrs(doc, res) == AttrsOfRes(res) \cap Sel(doc, res.type)
ExpRels(doc, res)  == RelsOf(res.type) \cap Sel(doc, res.type)
ExpData(doc, res, f) ==
    IF f \notin Data(doc, res.type) THEN "absent"
    ELSE IF ToOne(res.type, f) THEN (IF res.vals[f].ids = <<>> THEN "null" ELSE "one")
    ELSE "many"

\* obj: the projection of one resource object of the real output
ObjSelected(doc, res, obj) ==
    /\ DOMAIN obj.attrs = ExpAttrs(doc, res)
    /\ \A f \in DOMAIN obj.attrs : obj.attrs[f] = res.vals[f]
    /\ DOMAIN obj.rels = ExpRels(doc, res)
    /\ \A f \in DOMAIN obj.rels :
          /\ obj.rels[f].data = ExpData(doc, res, f)
          /\ obj.rels[f].data \in {"one", "many"} =>
                /\ AsSet(obj.rels[f].ids) = AsSet(res.vals[f].ids)
                /\ Len(obj.rels[f].ids) = Cardinality(AsSet(res.vals[f].ids)) \/ Len(obj.rels[f].ids) = Len(res.vals[f].ids)
                /\ obj.rels[f].typesok

\* which input resource an output object stands for: same position
Selected(doc, out) ==
    /\ doc.kind \in {"one", "many"} /\ out.haserrors = FALSE =>
          /\ Len(out.data) = Len(doc.primary)
          /\ \A i \in 1..Len(out.data) : ObjSelected(doc, doc.primary[i], out.data[i])
    /\ \A j \in 1..Len(out.included) :
          \E i \in 1..Len(doc.included) :
             /\ doc.included[i].type = out.included[j].type /\ doc.included[i].id = out.included[j].id
             /\ ObjSelected(doc, doc.included[i], out.included[j])

-----------------------------------------------------------------------------
(* C03: structure of the output                                             *)
ObjWellFormed(obj) ==
    /\ obj.typestr /\ obj.idstr /\ obj.selfok
    /\ \A f \in DOMAIN obj.rels :
          /\ obj.rels[f].selfok /\ obj.rels[f].relatedok
          /\ obj.rels[f].data \in {"absent", "null", "one", "many"}   \* "bad" otherwise
          /\ obj.rels[f].typesok      \* every member of the linkage is an object made of the target type and an id
          \* the linkage has the form of the relationship's cardinality: null or one identifier for
          \* a to-one relationship, a list for a to-many one
          /\ (obj.rels[f].data \in {"null", "one"} => ToOne(obj.type, f))
          /\ (obj.rels[f].data = "many" => ~ToOne(obj.type, f))

WellFormed(doc, out) ==
    /\ out.valid /\ out.topobject
    /\ out.hasjsonapi /\ out.selflink
    /\ ~(out.hasdata /\ out.haserrors)
    /\ (out.hasincluded => out.hasdata)
    /\ \A i \in 1..Len(out.data) : ObjWellFormed(out.data[i])
    /\ \A i \in 1..Len(out.included) : ObjWellFormed(out.included[i])

\* The pinned code leaves the type out of the self link of a resource that has no id (the link is the
\* prefix alone, and the relationship links hang off it: "prefix//relationships/name").  Identified as:
\* the output is well-formed once the links of the objects without id are waived.
WaiveLinks(obj) == IF obj.id # "" THEN obj
                   ELSE [obj EXCEPT !.selfok = TRUE,
                                    !.rels = [f \in DOMAIN obj.rels |-> [obj.rels[f] EXCEPT !.selfok = TRUE, !.relatedok = TRUE]]]
Dev_SelfLinkOfResourceWithoutID(doc, out) ==
    /\ ~WellFormed(doc, out)
    /\ WellFormed(doc, [out EXCEPT !.data = [i \in 1..Len(out.data) |-> WaiveLinks(out.data[i])],
                                   !.included = [i \in 1..Len(out.included) |-> WaiveLinks(out.included[i])]])

\* no type/id pair twice across primary data and included
Keys(objs) == [i \in 1..Len(objs) |-> <<objs[i].type, objs[i].id>>]
NoDup(q) == \A i, j \in 1..Len(q) : q[i] = q[j] => i = j
NoDupLinkage(out) == NoDup(Keys(out.data) \o Keys(out.included))

\* Document.Include: append unless the pair is in the primary data or already included
\* st = [primary: Seq(<<type,id>>), included: Seq(<<type,id>>)]
IncludeRes(st, key) ==
    IF key \in AsSet(st.primary) \cup AsSet(st.included) THEN st
    ELSE [st EXCEPT !.included = Append(@, key)]

-----------------------------------------------------------------------------
(* C02: what comes back from UnmarshalDocument(MarshalDocument(doc))         *)
BackKind(doc) == CASE doc.kind = "null" -> "null"
                   [] doc.kind \in {"one", "ident"} -> "one"
                   [] doc.kind \in {"many", "idents"} -> "many"
                   [] doc.kind = "errors" -> "errors"

SameBag(a, b) == /\ Len(a) = Len(b)
                 /\ \A x \in AsSet(a) \cup AsSet(b) : Cardinality({i \in 1..Len(a) : a[i] = x}) = Cardinality({i \in 1..Len(b) : b[i] = x})
ResBack(doc, res, b, full) ==
    /\ b.type = res.type /\ b.id = res.id
    /\ full => /\ \A f \in ExpAttrs(doc, res) : b.vals[f] = res.vals[f]
               /\ \A f \in ExpRels(doc, res) \cap Data(doc, res.type) :
                     IF ToOne(res.type, f) THEN b.vals[f].ids = res.vals[f].ids
                     ELSE SameBag(b.vals[f].ids, res.vals[f].ids)   \* the same ids, each as many times (in any order)

\* C02 speaks of resources of the schema's types: a document with a wider member is not judged
HasWider(doc) == \E i \in 1..Len(doc.primary) : doc.primary[i].extra
RoundTrip(doc, back) ==
  HasWider(doc) \/
    /\ back.ok
    /\ back.kind = BackKind(doc)
    /\ doc.kind = "errors" => back.errors_same /\ back.kind = "errors" /\ Len(back.primary) = 0
    /\ doc.kind # "errors" =>
          /\ Len(back.primary) = Len(doc.primary)
          /\ \A i \in 1..Len(doc.primary) :
                ResBack(doc, doc.primary[i], back.primary[i], doc.kind \in {"one", "many"})
          /\ Len(back.included) = Len(doc.included)
          /\ \A i \in 1..Len(doc.included) : \E j \in 1..Len(back.included) :
                ResBack(doc, doc.included[i], back.included[j], TRUE)
    /\ back.meta_same

-----------------------------------------------------------------------------
(* A soft type "td" in which an attribute and a relationship carry the same  *)
(* name: attributes dup, e; relationships dup (to-one), r2 (to-many).  One   *)
(* marshaled resource, for every selection and every request of data:        *)
(* e = [sel, reldata, out |-> [attrs, rels, data] (the names present), same] *)
DupAttrs == {"dup", "e"}
DupRels  == {"dup", "r2"}
DupOK(e) ==
    /\ AsSet(e.out.attrs) = AsSet(e.sel) \cap DupAttrs      \* exactly the selected attributes ...
    /\ AsSet(e.out.rels)  = AsSet(e.sel) \cap DupRels       \* ... exactly the selected relationships ...
    /\ AsSet(e.out.data)  = AsSet(e.out.rels) \cap AsSet(e.reldata)   \* ... data iff asked for

-----------------------------------------------------------------------------
(* C11: determinism and frame                                               *)
Deterministic(det) == det.allsame /\ det.permsame /\ det.frameok

-----------------------------------------------------------------------------
(* Deviations of the pinned code                                           *)
\* Include compares with the primary data only when the collection's type name
\* equals the resource's: *Resources (what Range returns) has no type name
Dev_IncludeIgnoresResourcesMembers(e) ==
    /\ e.ev = "include" /\ e.ret = "ok" /\ e.coll = "resources"
    /\ e.op \in AsSet(e.pre.primary) /\ e.op \notin AsSet(e.pre.included)
    /\ e.post = [e.pre EXCEPT !.included = Append(@, e.op)]
=============================================================================
