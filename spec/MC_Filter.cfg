SPECIFICATION Spec
INVARIANTS InvComplement InvSplit InvNeverOrdered InvUnknownOp
CHECK_DEADLOCK FALSE
