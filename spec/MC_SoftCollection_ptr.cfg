SPECIFICATION Spec
CONSTANTS
  MaxItems = 2
  PtrOnly = TRUE
  SetSrcOn = {1, 3}
VIEW View
INVARIANTS InvItemsTyped InvWellTyped
PROPERTIES ErrLeavesUnchanged SnapshotsStable OrderKept
CHECK_DEADLOCK FALSE
