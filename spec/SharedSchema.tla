----------------------------- MODULE SharedSchema -----------------------------
(* A built schema shared by concurrent requests (C12).  The memory of a schema  *)
(* is abstracted to five locations; every read-only operation of the property   *)
(* has a footprint (the locations it reads and writes); processes run            *)
(* operations as Begin / End pairs and two operations overlap when neither      *)
(* ended before the other began (they are then unordered by happens-before,     *)
(* which is exactly what the Go race detector judges).                          *)
EXTENDS Integers, Sequences, FiniteSets, TLC

Locs == {"TypesSlice", "TypeRec", "AttrMap", "RelMap", "RelsCache"}
Ops  == {"ParseURL", "UnmarshalDocument", "UnmarshalPartial", "NewResource", "MarshalOwnDoc",
         "GetType", "HasType", "Check", "Rels"}

\* the intended footprints: everything reads, nothing writes
Reads(op) == CASE op \in {"GetType", "HasType"} -> {"TypesSlice", "TypeRec"}
               [] op = "Rels" -> {"TypesSlice", "TypeRec", "RelMap"}
               [] op = "Check" -> {"TypesSlice", "TypeRec", "RelMap"}
               [] OTHER -> {"TypesSlice", "TypeRec", "AttrMap", "RelMap"}
Writes(op) == {}

\* the pinned code: Schema.Rels() rebuilds and stores s.rels on every call
DevWrites(op) == IF op = "Rels" THEN {"RelsCache"} ELSE {}
DevReads(op)  == IF op = "Rels" THEN Reads(op) \cup {"RelsCache"} ELSE Reads(op)

Wr(dev, op) == IF dev THEN DevWrites(op) ELSE Writes(op)
Rd(dev, op) == IF dev THEN DevReads(op) ELSE Reads(op)
Conflict(dev, a, b) == (Wr(dev, a) \cap (Rd(dev, b) \cup Wr(dev, b)) # {}) \/ (Wr(dev, b) \cap (Rd(dev, a) \cup Wr(dev, a)) # {})

\* A schedule: a sequence of [p, op, ph] with ph \in {"B", "E"}.  Well formed: per
\* process, Begin and End alternate and an End closes the operation that began.
RECURSIVE WF(_, _)
WF(s, open) ==   \* open: [process -> op or ""]
    IF s = <<>> THEN \A p \in DOMAIN open : open[p] = ""
    ELSE LET e == Head(s) IN
         IF e.ph = "B" THEN e.p \in DOMAIN open /\ open[e.p] = "" /\ e.op \in Ops /\ WF(Tail(s), [open EXCEPT ![e.p] = e.op])
         ELSE e.p \in DOMAIN open /\ open[e.p] = e.op /\ WF(Tail(s), [open EXCEPT ![e.p] = ""])
Procs(s) == {s[i].p : i \in 1..Len(s)}
WellFormedSched(s) == WF(s, [p \in Procs(s) |-> ""])

\* does the schedule overlap two operations that conflict under the footprints?
RECURSIVE Racy(_, _, _)
Racy(s, open, dev) ==
    IF s = <<>> THEN FALSE
    ELSE LET e == Head(s) IN
         IF e.ph = "B"
         THEN (\E q \in DOMAIN open : q # e.p /\ open[q] # "" /\ Conflict(dev, e.op, open[q]))
              \/ Racy(Tail(s), [open EXCEPT ![e.p] = e.op], dev)
         ELSE Racy(Tail(s), [open EXCEPT ![e.p] = ""], dev)
ModelRace(s)    == Racy(s, [p \in Procs(s) |-> ""], FALSE)
ModelRaceDev(s) == Racy(s, [p \in Procs(s) |-> ""], TRUE)

\* a recorded run of one schedule on the real library under the race detector
SchedOK(e) == WellFormedSched(e.sched) /\ e.races = 0 /\ ~e.fatal /\ ~e.changed /\ ~ModelRace(e.sched)

\* the footprint table against the code: the locations an operation changed
\* (content or identity of the slice / maps) when run alone
FootprintOK(e) == e.op \in Ops /\ {e.writes[i] : i \in 1..Len(e.writes)} \subseteq Writes(e.op) /\ e.ret = "ok"

Dev_RelsWritesCache(e) ==
    \/ (e.ev = "footprint" /\ e.op = "Rels" /\ {e.writes[i] : i \in 1..Len(e.writes)} = {"RelsCache"})
    \/ (e.ev = "sched" /\ ~e.fatal /\ e.races > 0 /\ ModelRaceDev(e.sched))
    \/ (e.ev = "sched" /\ ~e.fatal /\ e.races = 0 /\ e.changed /\ \E i \in 1..Len(e.sched) : e.sched[i].op = "Rels")
=============================================================================
