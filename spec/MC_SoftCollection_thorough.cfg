SPECIFICATION Spec
CONSTANTS
  MaxItems = 3
  SetSrcOn = {1}
VIEW View
INVARIANTS InvItemsTyped InvWellTyped
PROPERTIES ErrLeavesUnchanged SnapshotsStable OrderKept
CHECK_DEADLOCK FALSE
