SPECIFICATION Spec
CONSTANTS
  MaxItems = 3
  SetSrcOn = {1, 2, 3, 4}
VIEW View
INVARIANTS InvItemsTyped InvWellTyped
PROPERTIES ErrLeavesUnchanged SnapshotsStable OrderKept
CHECK_DEADLOCK FALSE
