SPECIFICATION Spec
INVARIANTS InvWellFormed InvSelected InvNoDup InvIncluded InvNoLeak
CHECK_DEADLOCK FALSE
