--------------------------- MODULE Trace_LiveType ---------------------------
(* (B) stateful monitor of the growth family G01: the model state is stepped  *)
(* along every recorded history (a "reset" event starts one).  Two verdicts   *)
(* per call: does the code do what the lazy model does (return value, and     *)
(* for a Read everything the resource shows)?  And does a Read show what the  *)
(* documentation promises?  The first kind of rejection would be a divergence *)
(* between code and model; the second is the named deviation.                 *)
EXTENDS LiveType, Json, IOUtils

Trace == ndJsonDeserialize(IOEnv.TRACE_FILE)
N == 2
VARIABLES l, st, off     \* off: code and model already parted in this history (reported once)

Init == l = 1 /\ st = Init0(N) /\ off = FALSE
Next == /\ l <= Len(Trace)
        /\ l' = l + 1
        /\ LET e == Trace[l] IN
           IF e.ev = "reset" THEN st' = Init0(N) /\ off' = FALSE
           ELSE LET r == Step(st, e.op)
                    same == e.ret = r.ret /\ (e.op.op = "Read" => e.obs = r.obs)
                IN /\ st' = r.post
                   /\ off' = (off \/ ~same)
                   /\ IF same \/ off THEN TRUE ELSE PrintT(<<"REJ", l, "G01", "NONE">>)
                   /\ IF same /\ ~off /\ Dev_StaleValueAfterReAdd(st, e.op, e.obs)
                      THEN PrintT(<<"REJ", l, "G01", IF Typed(r.post) THEN "Dev_StaleValueAfterReAdd" ELSE "Dev_StaleValueOfAnotherKind">>)
                      ELSE TRUE
Spec == Init /\ [][Next]_<<l, st, off>>
AllConsumed == TLCGet("stats").diameter - 1 = Len(Trace)
=============================================================================
