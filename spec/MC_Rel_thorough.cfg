SPECIFICATION Spec
CONSTANTS
  TNs <- TNsT
  RNs <- RNsT
  MaxRels = 3
INVARIANTS InvListing EmitState
CHECK_DEADLOCK FALSE
