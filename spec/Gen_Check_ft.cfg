SPECIFICATION Spec
CONSTANTS
  TN = {"a", "b"}
  RN = {"r"}
  XN = {"x"}
  Missing = "zz"
  FX = {"", "zz"}
INVARIANTS EmitState
CHECK_DEADLOCK FALSE
