SPECIFICATION Spec
CONSTANTS
  Fields <- F1
  RelData <- D1
  ManyIds <- M1
INVARIANTS InvDeterministic InvFrame
CHECK_DEADLOCK FALSE
