SPECIFICATION Spec
CONSTANTS
  MaxFields = 2
  Pairs = TRUE
INVARIANTS InvExpectedWellDefined EmitState
CHECK_DEADLOCK FALSE
