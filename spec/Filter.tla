------------------------------- MODULE Filter -------------------------------
(* Filter.IsAllowed (filter.go) read as logic.  Serves C10 (and C09 through *)
(* Range.tla).                                                              *)
(*                                                                         *)
(* Values of ordered kinds are sequences of naturals compared               *)
(* lexicographically: a number or an instant is a one-element sequence (its *)
(* rank), a string or byte string is the sequence of its symbols - so the   *)
(* order is explicit in the spec, including prefixes and different lengths. *)
(* A value: [nil |-> BOOLEAN, s |-> Seq(Nat), ids |-> Seq(STRING)]           *)
(* Classes: "num" (integers, times), "seq" (strings, byte strings), "bool", *)
(* "to1", "toN".                                                            *)
EXTENDS Integers, Sequences, FiniteSets, TLC

RECURSIVE LexLess(_, _)
LexLess(a, b) ==
    IF a = <<>> THEN b # <<>>
    ELSE IF b = <<>> THEN FALSE
    ELSE IF Head(a) = Head(b) THEN LexLess(Tail(a), Tail(b))
    ELSE Head(a) < Head(b)

AsSet(q) == {q[i] : i \in 1..Len(q)}
Ordered(cls) == cls \in {"num", "seq"}
CmpOps == {"<", "<=", ">", ">="}

\* equality of two values of one class
ValEq(cls, a, b) ==
    CASE cls = "toN" -> AsSet(a.ids) = AsSet(b.ids) /\ Len(a.ids) = Len(b.ids)
      [] cls = "to1" -> a.ids = b.ids
      [] OTHER -> (a.nil /\ b.nil) \/ (~a.nil /\ ~b.nil /\ a.s = b.s)

ValLess(cls, a, b) == Ordered(cls) /\ ~a.nil /\ ~b.nil /\ LexLess(a.s, b.s)

\* a leaf: operator op applied to the resource's value rv and the filter's value cv
Leaf(cls, op, rv, cv) ==
    CASE op = "="  -> ValEq(cls, rv, cv)
      [] op = "!=" -> ~ValEq(cls, rv, cv)
      [] op = "<"  -> ValLess(cls, rv, cv)
      [] op = ">"  -> ValLess(cls, cv, rv)
      [] op = "<=" -> Ordered(cls) /\ ~rv.nil /\ ~cv.nil /\ (ValLess(cls, rv, cv) \/ ValEq(cls, rv, cv))
      [] op = ">=" -> Ordered(cls) /\ ~rv.nil /\ ~cv.nil /\ (ValLess(cls, cv, rv) \/ ValEq(cls, rv, cv))
      \* plain membership; the value of an empty to-one is the empty id, written "e" in the lists
      [] op = "in"  -> cls = "to1" /\ (IF rv.ids = <<>> THEN "e" ELSE rv.ids[1]) \in AsSet(cv.ids)
      [] op = "has" -> cls = "toN" /\ Len(cv.ids) = 1 /\ cv.ids[1] \in AsSet(rv.ids)
      [] OTHER -> FALSE   \* an unknown operator allows nothing


\* is (cls, op) a combination the property speaks about?
OpApplies(cls, op) ==
    CASE cls \in {"num", "seq", "bool"} -> op \notin {"in", "has"}
      [] cls = "to1" -> op \in {"=", "!=", "in", "nope"}
      [] cls = "toN" -> op \notin {"in"}

\* and/or trees: n = [o |-> "and" | "or" | "leaf", v |-> BOOLEAN (leaf verdict), c |-> Seq(node)]
RECURSIVE Tree(_)
Tree(n) ==
    CASE n.o = "leaf" -> n.v
      [] n.o = "and"  -> \A i \in 1..Len(n.c) : Tree(n.c[i])
      [] n.o = "or"   -> \E i \in 1..Len(n.c) : Tree(n.c[i])
      [] OTHER -> FALSE

-----------------------------------------------------------------------------
(* The laws the property states, over a set U of non-nil values of an       *)
(* ordered class (checked at model level by MC_Filter).                     *)
Trichotomy(cls, U) == \A a, b \in U :
    Cardinality({o \in {"<", "=", ">"} : Leaf(cls, o, a, b)}) = 1
Complement(cls, U) == \A a, b \in U : Leaf(cls, "=", a, b) # Leaf(cls, "!=", a, b)
LeqSplit(cls, U) == \A a, b \in U :
    /\ Leaf(cls, "<=", a, b) = (Leaf(cls, "<", a, b) \/ Leaf(cls, "=", a, b))
    /\ Leaf(cls, ">=", a, b) = (Leaf(cls, ">", a, b) \/ Leaf(cls, "=", a, b))
Transitive(cls, U) == \A a, b, c \in U : Leaf(cls, "<", a, b) /\ Leaf(cls, "<", b, c) => Leaf(cls, "<", a, c)
Antisym(cls, U) == \A a, b \in U : ~(Leaf(cls, "<", a, b) /\ Leaf(cls, "<", b, a))
NilRules(cls, U) == \A a \in U : LET nilv == [nil |-> TRUE, s |-> <<>>, ids |-> <<>>] IN
    /\ Leaf(cls, "=", nilv, nilv) /\ ~Leaf(cls, "=", a, nilv) /\ ~Leaf(cls, "=", nilv, a)
    /\ \A o \in CmpOps : ~Leaf(cls, o, a, nilv) /\ ~Leaf(cls, o, nilv, a) /\ ~Leaf(cls, o, nilv, nilv)

-----------------------------------------------------------------------------
(* Deviations of the pinned code                                           *)
\* checkBytes compares byte by byte without stopping at the first difference
Dev_BytesOrderNotLexicographic(e) ==
    /\ e.ev = "leaf" /\ e.ret = "ok" /\ e.kind \in {"bytes"} /\ e.op \in CmpOps
    /\ ~e.rv.nil /\ ~e.cv.nil
    /\ e.res # Leaf(e.cls, e.op, e.rv, e.cv)
\* a nil value held by a wrapped struct reads as an untyped nil: every operator answers false
Dev_WrappedNilNeverEqual(e) ==
    /\ e.ev = "leaf" /\ e.ret = "ok" /\ e.impl = "wrap" /\ e.rv.nil /\ e.res = FALSE
    /\ Leaf(e.cls, e.op, e.rv, e.cv)
=============================================================================
