------------------------------- MODULE Request -------------------------------
(* Growth family G03 (outside the twenty listed properties): NewRequest        *)
(* (request.go) as the composition of the URL parser (C07/C08) and the         *)
(* document reader (C02/C05): which requests it accepts, and what the request  *)
(* it returns holds.  One call = one event:                                    *)
(*   e = [method, urlc, bodyc, nilschema,                                      *)
(*        urlok  - NewURLFromRaw accepts the same raw URL on its own           *)
(*        bodyok - UnmarshalDocument accepts the same bytes on its own         *)
(*        out    - "ok" | "err" | "both" | "neither" | "panic"                 *)
(*        method_same, url_same, hasdoc, doc_same]  (facts about the result)   *)
EXTENDS Integers, Sequences, FiniteSets, TLC

Methods == {"GET", "HEAD", "POST", "PATCH", "PUT", "DELETE", "OPTIONS", "get", "post", ""}
WithBody == {"POST", "PATCH"}      \* the methods whose body is a document

\* an intended handler, step by step as the code does it (body read; URL; document for POST / PATCH)
Handler(method, urlok, bodyok) ==
    IF ~urlok THEN "err" ELSE IF method \in WithBody /\ ~bodyok THEN "err" ELSE "ok"

ReqOK(e) ==
    /\ e.out \in {"ok", "err"}                       \* a request or an error, never both, never a panic
    /\ e.out = Handler(e.method, e.urlok, e.bodyok)
    /\ e.out = "ok" =>
          /\ e.method_same /\ e.url_same
          /\ e.hasdoc = (e.method \in WithBody)      \* the body of any other method is not read as a document
          /\ (e.hasdoc => e.doc_same)

\* "schema can be nil, in which case no checks will be done": at the very least no panic
NilSchemaOK(e) == e.out # "panic"
Dev_NilSchemaPanics(e) == e.nilschema /\ e.out = "panic"
=============================================================================
