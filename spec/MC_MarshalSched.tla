-------------------------- MODULE MC_MarshalSched --------------------------
(* C11 at model level: MarshalResource and URL.String walk Go maps, whose     *)
(* iteration order the runtime randomises.  Each loop is a process whose next *)
(* element is chosen by \E x \in remaining - the map-iteration scheduler -    *)
(* and TLC explores every order: because every member is collected into a     *)
(* keyed map (serialised with sorted keys) and to-many ids / field names /    *)
(* types are sorted before being emitted, the final output is a function of   *)
(* the content alone.  The model also records what marshaling writes back     *)
(* into its inputs (the in-place sorts), which is all C11 allows.             *)
EXTENDS Integers, Sequences, FiniteSets, TLC

Attrs  == {"a", "n"}                 \* keys of r.Attrs()
Rels   == {"o", "m"}                 \* keys of r.Rels()
Types  == {"t1", "t2"}               \* keys of url.Params.Fields
CONSTANTS Fields,                    \* the selection of the resource's type (a sequence, may repeat)
          RelData,                   \* relationship-data names (a sequence)
          ManyIds                    \* the to-many ids as stored (a sequence)

Rank(x) == CASE x = "a" -> 1 [] x = "b" -> 2 [] x = "c" -> 3 [] x = "m" -> 4 [] x = "n" -> 5 [] x = "o" -> 6
             [] x = "t1" -> 7 [] x = "t2" -> 8 [] x = "u" -> 9 [] x = "v" -> 10 [] x = "w" -> 11 [] OTHER -> 99
RECURSIVE Ins(_, _)
Ins(s, x) == IF s = <<>> THEN <<x>> ELSE IF Rank(x) < Rank(Head(s)) THEN <<x>> \o s ELSE <<Head(s)>> \o Ins(Tail(s), x)
RECURSIVE Sort(_)
Sort(s) == IF s = <<>> THEN <<>> ELSE Ins(Sort(Tail(s)), Head(s))
AsSet(s) == {s[i] : i \in 1..Len(s)}

\* constant instances (cfg files cannot hold sequences)
F1 == <<"a", "m", "o">>      D1 == <<"m">>        M1 == <<"w", "u", "v">>
F2 == <<"m", "n", "a", "m">> D2 == <<"o", "m">>   M2 == <<"v", "u">>
F3 == <<>>                   D3 == <<"m">>        M3 == <<"u">>

VARIABLES pc,            \* "attrs" -> "rels" -> "types" -> "done"
          todo,          \* keys of the map being walked that were not visited yet
          outAttrs,      \* keyed output: attribute name -> emitted?
          outRels,       \* keyed output: relationship name -> [data emitted?, ids]
          stored,        \* the resource's own to-many ids (marshal may sort them in place)
          urlText        \* the fields part of URL.String(), a sequence of type names
vars == <<pc, todo, outAttrs, outRels, stored, urlText>>

Init == /\ pc = "attrs" /\ todo = Attrs
        /\ outAttrs = <<>> /\ outRels = <<>> /\ stored = ManyIds /\ urlText = <<>>

Put(f, k, v) == [x \in DOMAIN f \cup {k} |-> IF x = k THEN v ELSE f[x]]

StepAttr == /\ pc = "attrs" /\ todo # {}
            /\ \E x \in todo :      \* the runtime picks the next map key
                 /\ todo' = todo \ {x}
                 /\ outAttrs' = IF x \in AsSet(Fields) THEN Put(outAttrs, x, TRUE) ELSE outAttrs
            /\ UNCHANGED <<pc, outRels, stored, urlText>>
EndAttrs == pc = "attrs" /\ todo = {} /\ pc' = "rels" /\ todo' = Rels /\ UNCHANGED <<outAttrs, outRels, stored, urlText>>

StepRel == /\ pc = "rels" /\ todo # {}
           /\ \E x \in todo :
                /\ todo' = todo \ {x}
                /\ IF x \in AsSet(Fields)
                   THEN IF x \in AsSet(RelData) /\ x = "m"
                        THEN /\ stored' = Sort(stored)           \* sort.Strings(ids) on the resource's own slice
                             /\ outRels' = Put(outRels, x, [data |-> TRUE, ids |-> Sort(stored)])
                        ELSE /\ outRels' = Put(outRels, x, [data |-> x \in AsSet(RelData), ids |-> <<>>])
                             /\ UNCHANGED stored
                   ELSE UNCHANGED <<outRels, stored>>
           /\ UNCHANGED <<pc, outAttrs, urlText>>
EndRels == pc = "rels" /\ todo = {} /\ pc' = "types" /\ todo' = Types /\ UNCHANGED <<outAttrs, outRels, stored, urlText>>

\* URL.String: collect the keys of Params.Fields in map order, then sort
StepType == /\ pc = "types" /\ todo # {}
            /\ \E x \in todo : todo' = todo \ {x} /\ urlText' = Append(urlText, x)
            /\ UNCHANGED <<pc, outAttrs, outRels, stored>>
EndTypes == pc = "types" /\ todo = {} /\ pc' = "done" /\ urlText' = Sort(urlText) /\ UNCHANGED <<todo, outAttrs, outRels, stored>>

Next == StepAttr \/ EndAttrs \/ StepRel \/ EndRels \/ StepType \/ EndTypes
Spec == Init /\ [][Next]_vars

\* the output as a function of the content alone
CanonAttrs == [x \in Attrs \cap AsSet(Fields) |-> TRUE]
CanonRels  == [x \in Rels \cap AsSet(Fields) |->
                 IF x = "m" /\ x \in AsSet(RelData) THEN [data |-> TRUE, ids |-> Sort(ManyIds)]
                 ELSE [data |-> x \in AsSet(RelData), ids |-> <<>>]]
InvDeterministic == pc = "done" => outAttrs = CanonAttrs /\ outRels = CanonRels /\ urlText = <<"t1", "t2">>
\* frame: marshaling changes nothing but the order of the to-many ids
InvFrame == AsSet(stored) = AsSet(ManyIds) /\ Len(stored) = Len(ManyIds)
=============================================================================
