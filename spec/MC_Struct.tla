------------------------------ MODULE MC_Struct ------------------------------
(* (M) over every shape of the bound: Expected is well defined for sane       *)
(* shapes (unique non-empty names, supported kinds, targets present);         *)
(* (A) every shape is emitted for the driver, which declares the struct type  *)
(* at run time.                                                               *)
EXTENDS Struct, Json, SequencesExt

CONSTANTS MaxFields, Pairs   \* Pairs: emit two-field shapes too

GoTypes == {"string", "*int", "[]uint8", "bool", "float64", "[]string", "*[]string", "time.Time", "*uint64",
            "named-int", "*named-string", "named-strings", "*[]uint8", "*time.Time", "*bool", "*string", "**int", "**string"}   \* user-defined types whose underlying type is supported
JsonTags == {"a", "b", "", "id", "~", "a,omitempty", "-"}   \* "~": json:"" (the key is there, the name is empty); "a,omitempty": the whole tag is the name, option and all; "-": a name like any other for this library
ApiTags == {"", "attr", "rel", "rel,", "rel,tt", "rel,tt,inv", "rel,a,b,c", "other", "rel,,inv", "attr,omitempty", "related", "relation,tt",
            "rel, tt, inv", " rel,tt", "attr "}   \* white space is part of what a tag says: " rel" is not rel, " tt" is a name
IdVariants == {"ok", "noapi", "absent", "int", "jsonother", "nojson", "last", "named",
               "tname-attr", "tname-rel", "tname-rel2", "tname-rel4", "named-attr", "embedded"}
F(g, j, a) == [gotype |-> g, json |-> j, api |-> a]
FieldSpecs == { F(g, j, a) : g \in GoTypes, j \in JsonTags, a \in ApiTags }

VARIABLE sh
Init == \/ \E v \in IdVariants : sh = [id |-> v, fields |-> <<>>]
        \/ \E v \in IdVariants, f \in FieldSpecs : sh = [id |-> v, fields |-> <<f>>]
        \* two relationship fields in both orders (the second one must not inherit anything from the first)
        \/ \E g1 \in {"string", "[]string"}, g2 \in {"string", "[]string"}, a1 \in {"rel,tt", "rel,tt,inv"}, a2 \in {"rel,tt", "attr"} :
              sh = [id |-> "ok", fields |-> <<F(g1, "a", a1), F(g2, "b", a2)>>]
        \* two tagged fields with the same json name, of the same or of different kinds, in both orders
        \/ \E a1 \in {"attr", "rel,tt"}, a2 \in {"attr", "rel,tt"}, g1 \in {"string", "*int"}, g2 \in {"string", "[]string"} :
              sh = [id |-> "ok", fields |-> <<F(g1, "a", a1), F(g2, "a", a2)>>]
        \* a field without api tag that reuses the json name of a tagged one, in both orders
        \/ \E a1 \in {"attr", "rel,tt"}, g1 \in {"string", "*int", "[]string"}, g2 \in {"string", "*int", "[]string", "bool"}, first \in BOOLEAN,
              a2 \in {"", "other", "attr,omitempty", "related", "relation,tt"} :    \* no api tag, or one that is neither attr nor rel
              sh = [id |-> "ok", fields |-> IF first THEN <<F(g1, "a", a1), F(g2, "a", a2)>> ELSE <<F(g2, "a", a2), F(g1, "a", a1)>>]
        \* two tagged fields whose json names differ by their case only ("a" and "A"): two fields, in both orders
        \/ \E a1 \in {"attr", "rel,tt"}, a2 \in {"attr", "rel,tt"}, g1 \in {"string", "*int"}, g2 \in {"string", "[]string", "bool"}, first \in BOOLEAN :
              sh = [id |-> "ok", fields |-> IF first THEN <<F(g1, "a", a1), F(g2, "A", a2)>> ELSE <<F(g2, "A", a2), F(g1, "a", a1)>>]
        \/ (Pairs /\ \E f \in FieldSpecs, g \in FieldSpecs :
              (f.api # "" /\ g.api # "" /\ f.json \in {"a", ""} /\ g.gotype \in {"string", "[]string", "*int"}) /\
              sh = [id |-> "ok", fields |-> <<f, g>>])
Next == UNCHANGED sh
Spec == Init /\ [][Next]_sh

InvExpectedWellDefined ==
    Sane(sh) => LET t == Expected(sh) IN
        /\ "" \notin DOMAIN t.attrs \cup DOMAIN t.rels /\ "id" \notin DOMAIN t.attrs \cup DOMAIN t.rels
        /\ DOMAIN t.attrs \cap DOMAIN t.rels = {}
        /\ \A n \in DOMAIN t.attrs : t.attrs[n].k # "unsupported"
        /\ \A n \in DOMAIN t.rels : t.rels[n].tt # ""
        /\ Cardinality(DOMAIN t.attrs) + Cardinality(DOMAIN t.rels) =
              Cardinality({i \in 1..Len(sh.fields) : Tagged(sh.fields[i])})
EmitState == PrintT(<<"S", ToJson([shape |-> sh])>>)
=============================================================================
