----------------------------- MODULE Trace_Codec -----------------------------
(* (B) monitor for the codec family.  One trace may serve several properties: *)
(* a decode event is judged for fidelity (C06) and for robustness (C05).      *)
EXTENDS Codec, Json, IOUtils

Trace == ndJsonDeserialize(IOEnv.TRACE_FILE)
VARIABLE l

DevDecode(e) == IF Dev_NarrowingWraps(e) THEN "Dev_NarrowingWraps"
                ELSE IF Dev_NullAcceptedAsZero(e) THEN "Dev_NullAcceptedAsZero"
                ELSE IF Dev_UnwritableTimeAccepted(e) THEN "Dev_UnwritableTimeAccepted"
                ELSE IF Dev_NullBytesAccepted(e) THEN "Dev_NullBytesAccepted"
                ELSE IF Dev_BytesDecodeErrorPanics(e) THEN "Dev_BytesDecodeErrorPanics"
                ELSE "NONE"

\* C06 speaks about accepted payloads: a panic is C05's business
\* ... and re-marshaling the accepted resource gives the attribute back as the same JSON value (a
\* byte string accepted in a non-canonical spelling, or given as an array, comes back canonical)
RemarshalOK(e) == (e.r.out = "accept" /\ e.lit.cls \notin {"b64nc", "arr"}) => e.r.remarshal_ok
\* ... and the value is the caller's own: writing over it does not change what the next payload decodes to
OwnValue(e) == e.r.out = "accept" => e.r.again_same
Fidelity(e) == e.r.out = "panic" \/ (DecodeOK(e.kind, e.null, e.lit, e.r) /\ RemarshalOK(e) /\ OwnValue(e))

Init == l = 1
Next == /\ l <= Len(Trace)
        /\ l' = l + 1
        /\ LET e == Trace[l] IN
           CASE e.ev = "decode" ->
                  /\ IF Fidelity(e) THEN TRUE ELSE PrintT(<<"REJ", l, "C06", DevDecode(e)>>)
                  /\ IF DecodeRobust(e.r) THEN TRUE ELSE PrintT(<<"REJ", l, "C05", DevDecode(e)>>)
             [] e.ev = "rt" -> IF RoundTripOK(e) THEN TRUE ELSE PrintT(<<"REJ", l, "C01", "NONE">>)
             [] e.ev = "feed" -> IF FeedOK(e) THEN TRUE
                                 ELSE PrintT(<<"REJ", l, "C05", IF Dev_BytesDecodeErrorPanics(e) THEN "Dev_BytesDecodeErrorPanics"
                                                                ELSE IF Dev_UnknownTypeAccepted(e) THEN "Dev_UnknownTypeAccepted"
                                                                ELSE IF Dev_IdentifiersNullElementPanics(e) THEN "Dev_IdentifiersNullElementPanics" ELSE "NONE">>)
             [] e.ev = "payload" ->
                  /\ IF PartialOK(e) THEN TRUE ELSE PrintT(<<"REJ", l, "C13", "NONE">>)
                  /\ IF PayloadOK(e) THEN TRUE ELSE PrintT(<<"REJ", l, "C06", IF Dev_LinkageTypeIgnored(e) THEN "Dev_LinkageTypeIgnored" ELSE "NONE">>)
             [] e.ev = "selfpair" -> IF SelfPairOK(e) THEN TRUE ELSE PrintT(<<"REJ", l, IF e.out = "panic" \/ e.part = "panic" THEN "C05" ELSE "C13", "NONE">>)
             [] e.ev = "ptype" -> IF PTypeOK(e) THEN TRUE ELSE PrintT(<<"REJ", l, IF e.out = "panic" \/ e.part = "panic" THEN "C05" ELSE "C13", "NONE">>)
             [] e.ev = "colpayload" ->
                  IF ColPayloadOK(e) THEN TRUE ELSE PrintT(<<"REJ", l, IF e.out = "panic" THEN "C05" ELSE "C06", "NONE">>)
             [] OTHER -> PrintT(<<"REJ", l, "C06", "unknown-event">>)
Spec == Init /\ [][Next]_l
AllConsumed == TLCGet("stats").diameter - 1 = Len(Trace)
=============================================================================
