SPECIFICATION Spec
CONSTANTS MaxItems = 2
VIEW View
INVARIANTS EmitState
CHECK_DEADLOCK FALSE
