----------------------------- MODULE Collections -----------------------------
(* Growth family G02 (outside the twenty listed properties): the two plain     *)
(* Collection implementations besides SoftCollection (which is C19's):         *)
(*   Resources          a slice of any resources (collection.go)               *)
(*   WrapperCollection  wrapped structs "of a certain type" (wrapper_collection.go) *)
(* as ordered lists: Add, Len, At(i), GetType, and the wire: MarshalCollection *)
(* followed by UnmarshalCollection keeps the members in order.                 *)
(*                                                                             *)
(* col  = [impl |-> "resources" | "wrapcol", items |-> Seq(item)]              *)
(* item = [kind |-> "soft" | "wrap", tname |-> type name, id |-> id]           *)
(* The sample given to WrapCollection is a wrapped struct of type "ta".        *)
EXTENDS Integers, Sequences, FiniteSets, TLC

SampleType == "ta"

\* what the documentation says Add does
AddDoc(col, it) ==
    IF col.impl = "resources" THEN Append(col.items, it)
    ELSE IF it.kind = "wrap" /\ it.tname = SampleType THEN Append(col.items, it)   \* "Only resources of that type can be added"
    ELSE col.items
\* what the code does: every *Wrapper is appended, whatever struct it wraps
AddCode(col, it) ==
    IF col.impl = "resources" \/ it.kind = "wrap" THEN Append(col.items, it) ELSE col.items

\* At: the member at a valid index, nil otherwise (both implementations document nil for an index that is too large)
AtDoc(col, i) == IF i >= 0 /\ i < Len(col.items) THEN col.items[i + 1].id ELSE "nil"

TypeName(col) == IF col.impl = "resources" THEN "" ELSE SampleType

\* op = [op, it, i]; one call on pre gives post, ret ("ok" | "panic") and, for reads, obs
Allowed(pre, op, post, ret, obs) ==
    CASE op.op = "Add" -> ret = "ok" /\ post.impl = pre.impl /\ post.items = AddDoc(pre, op.it)
      [] op.op = "At"  -> ret = "ok" /\ post = pre /\ obs = AtDoc(pre, op.i)
      [] op.op = "Len" -> ret = "ok" /\ post = pre /\ obs = Len(pre.items)
      [] op.op = "GetType" -> ret = "ok" /\ post = pre /\ obs = TypeName(pre)
      \* over the wire and back: the same members (type and id), in the same order, as a Resources collection
      [] op.op = "Wire" -> ret = "ok" /\ post = pre /\ obs = [j \in 1..Len(pre.items) |-> [tname |-> pre.items[j].tname, id |-> pre.items[j].id]]

\* the named deviations of the code from the documentation
Dev_WrapColAcceptsOtherTypes(pre, op, post, ret) ==
    /\ op.op = "Add" /\ pre.impl = "wrapcol" /\ ret = "ok" /\ op.it.kind = "wrap" /\ op.it.tname # SampleType
    /\ post.items = AddCode(pre, op.it)
Dev_WrapColAtNegativePanics(pre, op, ret) == op.op = "At" /\ pre.impl = "wrapcol" /\ op.i < 0 /\ ret = "panic"
=============================================================================
