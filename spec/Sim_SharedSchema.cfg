SPECIFICATION Spec
CONSTANTS
  NProcs = 4
  NOps = 3
  UseDev = FALSE
INVARIANTS NoRace SchemaUnchanged EmitSched
CHECK_DEADLOCK FALSE
