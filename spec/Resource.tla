------------------------------ MODULE Resource ------------------------------
(* Resources through the Resource interface (soft_resource.go, wrapper.go,  *)
(* type.go Copy): a store of live objects, each a SoftResource, a Wrapper   *)
(* around a struct, or a Type value obtained with Type.Copy.  The model has *)
(* by-value semantics: an action on one handle cannot change another entry; *)
(* sharing of maps / slices in the implementation shows up as a recorded    *)
(* step the model does not allow.  Serves C17 (read back what was written,  *)
(* both implementations alike, equality laws) and C18 (independence of      *)
(* copies and new instances).                                               *)
(*                                                                         *)
(* An entry: [impl |-> "soft" | "wrap" | "type", tname, fields, id, vals]    *)
(* defs and values as in SoftCollection.tla.                                *)
EXTENDS Integers, Sequences, FiniteSets, TLC

Zero(def) == IF def.kind = "attr" THEN [nil |-> def.null, r |-> 0, ids |-> <<>>]
             ELSE [nil |-> FALSE, r |-> 0, ids |-> <<>>]

ZeroVals(fields) == [f \in DOMAIN fields |-> Zero(fields[f])]

Put(f, k, v) == [x \in DOMAIN f \cup {k} |-> IF x = k THEN v ELSE f[x]]
Del(f, k)    == [x \in DOMAIN f \ {k} |-> f[x]]

\* is v a well-typed value for def?
WellTyped(def, v) ==
    IF def.kind = "attr" THEN v.ids = <<>> /\ (v.nil => def.null)
    ELSE ~v.nil /\ v.r = 0 /\ (def.to1 => Len(v.ids) <= 1)

\* ids are tokens "a" < "b" < "c" < "zz"; Sorted(ids) is the ascending arrangement
IdRank(x) == CASE x = "a" -> 1 [] x = "b" -> 2 [] x = "c" -> 3 [] x = "zz" -> 9 [] OTHER -> 5
IdLess(x, y) == IdRank(x) < IdRank(y)
RECURSIVE InsertId(_, _)
InsertId(s, x) ==
    IF s = <<>> THEN <<x>>
    ELSE IF IdLess(x, Head(s)) THEN <<x>> \o s ELSE <<Head(s)>> \o InsertId(Tail(s), x)
RECURSIVE Sorted(_)
Sorted(s) == IF s = <<>> THEN <<>> ELSE InsertId(Sorted(Tail(s)), Head(s))

ToManyFields(e) == {f \in DOMAIN e.fields : e.fields[f].kind = "rel" /\ ~e.fields[f].to1}

\* every way of sorting some of the to-many relationships of an entry (marshal / filter may sort in place)
SortedVariants(e, fs) ==
    { [e EXCEPT !.vals = [f \in DOMAIN e.vals |-> IF f \in S THEN [e.vals[f] EXCEPT !.ids = Sorted(@)] ELSE e.vals[f]]] :
        S \in SUBSET fs }

-----------------------------------------------------------------------------
(* Results: objs is a sequence of entries; every op names the handle h it   *)
(* acts on.  Res gives the SET of allowed [post, ret].                     *)

Live(objs, h) == h \in 1..Len(objs)
IsRes(e) == e.impl \in {"soft", "wrap"}

ResNew(objs, op) == \* a fresh resource of the given abstract type
    {[post |-> Append(objs, [impl |-> op.impl, tname |-> op.tname, fields |-> op.fields, id |-> "",
                             vals |-> ZeroVals(op.fields)]), ret |-> "ok"]}

ResSet(objs, op) ==
    LET e == objs[op.h] IN
    {[post |-> [objs EXCEPT ![op.h].vals[op.f] = op.v], ret |-> "ok"]}

ResSetID(objs, op) == {[post |-> [objs EXCEPT ![op.h].id = op.id], ret |-> "ok"]}

ResCopy(objs, op) == {[post |-> Append(objs, objs[op.h]), ret |-> "ok"]}

ResNewLike(objs, op) ==
    LET e == objs[op.h] IN
    {[post |-> Append(objs, [e EXCEPT !.id = "", !.vals = ZeroVals(e.fields)]), ret |-> "ok"]}

\* write through the slice returned by Get(f) (first id replaced by "zz", or the
\* bytes overwritten with those of rank op.v.r): only the object itself may change
Mutated(def, old, v) == IF def.kind = "rel" THEN [old EXCEPT !.ids = <<"zz">> \o Tail(old.ids)]
                        ELSE [old EXCEPT !.r = v.r]
ResMutSlice(objs, op) ==
    LET e == objs[op.h] IN
    {[post |-> objs, ret |-> "ok"],
     [post |-> [objs EXCEPT ![op.h].vals[op.f] = Mutated(e.fields[op.f], e.vals[op.f], op.v)], ret |-> "ok"]}

\* marshaling / filtering may sort the object's own to-many ids, nothing else
ResMarshal(objs, op) ==
    { [post |-> [objs EXCEPT ![op.h] = e2], ret |-> "ok"] : e2 \in SortedVariants(objs[op.h], ToManyFields(objs[op.h])) }
ResFilter(objs, op) ==
    { [post |-> [objs EXCEPT ![op.h] = e2], ret |-> "ok"] : e2 \in SortedVariants(objs[op.h], {op.f}) }

\* SoftResource.AddAttr / AddRel / RemoveField, and the same edits on a copied Type
ResAddField(objs, op) ==
    LET e == objs[op.h] IN
    IF op.f \in DOMAIN e.fields THEN {[post |-> objs, ret |-> "ok"]}
    ELSE {[post |-> [objs EXCEPT ![op.h].fields = Put(e.fields, op.f, op.def),
                                 ![op.h].vals = IF IsRes(e) THEN Put(e.vals, op.f, Zero(op.def)) ELSE e.vals],
           ret |-> "ok"]}
ResRemoveField(objs, op) ==
    LET e == objs[op.h] IN
    {[post |-> [objs EXCEPT ![op.h].fields = Del(e.fields, op.f),
                            ![op.h].vals = IF IsRes(e) THEN Del(e.vals, op.f) ELSE e.vals],
      ret |-> "ok"]}

\* the type a soft resource stands on (its public Type field) loses a field and gains another one, and
\* nothing of the resource is called in between: "changing the type automatically changes the
\* resource's attributes and relationships; when a field is added, its value is the zero value of the
\* field's type" (one step of the driver, two edits of the type; op.id is the new field's name)
ResTypeRename(objs, op) ==
    LET e == objs[op.h] IN
    {[post |-> [objs EXCEPT ![op.h].fields = Put(Del(e.fields, op.f), op.id, op.def),
                            ![op.h].vals = Put(Del(e.vals, op.f), op.id, Zero(op.def))],
      ret |-> "ok"]}

\* Type.Copy of the object's type: a new entry holding the type alone
ResTypeCopy(objs, op) ==
    LET e == objs[op.h] IN
    {[post |-> Append(objs, [impl |-> "type", tname |-> e.tname, fields |-> e.fields, id |-> "", vals |-> <<>>]),
      ret |-> "ok"]}

\* a type derived from the object's type (a copy given another name) creates a resource after the
\* original type has created one: the new resource is of the derived type, zero-valued
ResDerivedNew(objs, op) ==
    LET e == objs[op.h] IN
    {[post |-> Append(objs, [impl |-> "soft", tname |-> e.tname \o "x", fields |-> e.fields, id |-> "",
                             vals |-> ZeroVals(e.fields)]),
      ret |-> "ok"]}

\* editing the maps of the Type value obtained from GetType() (and undoing it): whatever it does to the
\* object itself, it must not show in any other object (the driver reports "leak" otherwise)
ResTypeEdit(objs, op) == {[post |-> objs, ret |-> "ok"]}

\* the zero value of the soft resource (no type given, no method called yet) asked for a new resource
\* at once: two entries, both without a type name, a field or an id (one step of the code, two of the model)
ZeroEntry == [impl |-> "soft", tname |-> "", fields |-> <<>>, id |-> "", vals |-> <<>>]
ResZeroNew(objs, op) == {[post |-> objs \o <<ZeroEntry, ZeroEntry>>, ret |-> "ok"]}

Res(objs, op) ==
    CASE op.op = "New"         -> ResNew(objs, op)
      [] op.op = "ZeroNew"     -> ResZeroNew(objs, op)
      [] op.op = "TypeEdit"    -> ResTypeEdit(objs, op)
      [] op.op = "Set"         -> ResSet(objs, op)
      [] op.op = "SetID"       -> ResSetID(objs, op)
      [] op.op = "Copy"        -> ResCopy(objs, op)
      [] op.op = "NewLike"     -> ResNewLike(objs, op)
      [] op.op = "MutSlice"    -> ResMutSlice(objs, op)
      [] op.op = "Marshal"     -> ResMarshal(objs, op)
      [] op.op = "Filter"      -> ResFilter(objs, op)
      [] op.op = "AddField"    -> ResAddField(objs, op)
      [] op.op = "RemoveField" -> ResRemoveField(objs, op)
      [] op.op = "TypeRename"  -> ResTypeRename(objs, op)
      [] op.op = "TypeCopy"    -> ResTypeCopy(objs, op)
      [] op.op = "DerivedNew"  -> ResDerivedNew(objs, op)

\* Which ops make sense on which entries (the driver only issues these)
Enabled(objs, op) ==
    CASE op.op \in {"New", "ZeroNew"} -> TRUE
      [] OTHER ->
         /\ Live(objs, op.h)
         /\ LET e == objs[op.h] IN
            CASE op.op \in {"Set", "MutSlice", "Filter"} ->
                    IsRes(e) /\ op.f \in DOMAIN e.fields
                    /\ (op.op = "Set" => WellTyped(e.fields[op.f], op.v))
                    /\ (op.op = "Filter" => op.f \in ToManyFields(e))
                    /\ (op.op = "MutSlice" => ~e.vals[op.f].nil /\
                          IF e.fields[op.f].kind = "rel" THEN ~e.fields[op.f].to1 /\ Len(e.vals[op.f].ids) > 0
                          ELSE e.vals[op.f].r > 0 /\ op.v.r > 0)
              [] op.op \in {"SetID", "Copy", "NewLike", "Marshal", "TypeCopy", "TypeEdit"} -> IsRes(e)
              [] op.op = "DerivedNew" -> IsRes(e) /\ e.impl = "soft"
              [] op.op \in {"AddField", "RemoveField"} -> e.impl \in {"soft", "type"}
              [] op.op = "TypeRename" -> e.impl = "soft" /\ op.f \in DOMAIN e.fields /\ op.id \notin DOMAIN e.fields
              [] OTHER -> FALSE

Allowed(pre, op, post, ret) == [post |-> post, ret |-> ret] \in Res(pre, op)

\* C18, the frame condition: no entry other than the one acted on changes
FrameOK(pre, op, post) ==
    \A g \in 1..Len(pre) : (op.op \in {"New", "ZeroNew"} \/ g # op.h) => (g <= Len(post) /\ post[g] = pre[g])

-----------------------------------------------------------------------------
(* C17: equality helpers, judged on pairs.                                 *)
AsSet(s) == {s[i] : i \in 1..Len(s)}
SameVal(def, v1, v2) ==
    IF def.kind = "rel" /\ ~def.to1 THEN AsSet(v1.ids) = AsSet(v2.ids) ELSE v1 = v2
Differs(a, b) ==
    \/ a.tname # b.tname
    \/ DOMAIN a.fields # DOMAIN b.fields
    \/ \E f \in DOMAIN a.fields \cap DOMAIN b.fields :
          \/ a.fields[f].kind # b.fields[f].kind
          \/ ~SameVal(a.fields[f], a.vals[f], b.vals[f])
          \* one id (or none) is not a list of ids, whatever the list holds
          \/ (a.fields[f].kind = "rel" /\ b.fields[f].kind = "rel" /\ a.fields[f].to1 # b.fields[f].to1)
          \* values of different Go types are different values, however they print
          \* (two nil values of different kinds are left undecided)
          \/ /\ a.fields[f].kind = "attr"
             /\ (a.fields[f].k # b.fields[f].k \/ a.fields[f].null # b.fields[f].null)
             /\ ~(a.vals[f].nil /\ b.vals[f].nil)
\* obs = [eq_ab, eq_ba, st_ab, st_ba, eq_aa, st_aa, eq_bb, st_bb]
EqOK(a, b, o) ==
    /\ o.eq_aa /\ o.st_aa /\ o.eq_bb /\ o.st_bb
    /\ o.eq_ab = o.eq_ba /\ o.st_ab = o.st_ba
    /\ (Differs(a, b) => ~o.eq_ab /\ ~o.st_ab)
    /\ (a.id # b.id => ~o.st_ab)

-----------------------------------------------------------------------------
(* Deviations of the pinned code                                           *)
\* copyData / Wrapper.Copy keep the source's slices: a write through a slice
\* or an in-place sort shows in the other object
Dev_CopySharesSlices(e) ==
    /\ e.ev = "step" /\ e.ret = "ok" /\ e.op.op \in {"MutSlice", "Marshal", "Filter"}
    /\ ~FrameOK(e.pre, e.op, e.post)
    /\ Len(e.post) = Len(e.pre)
    /\ \A g \in 1..Len(e.pre) : e.post[g].fields = e.pre[g].fields /\ e.post[g].id = e.pre[g].id
\* Equal compares attribute values by position after sorting the names, so the
\* attribute NAMES are ignored (pinned by the repository's TestEqual, which expects
\* Equal to hold between a resource with attribute "nil" and one with "nil2").
\* Identified as: same type name, same relationships and relationship values,
\* attribute name sets differ, yet a value-preserving bijection between the two
\* attribute sets exists, and Equal held (symmetrically, reflexivity intact).
AttrsOf(x) == {f \in DOMAIN x.fields : x.fields[f].kind = "attr"}
RelsOf(x)  == {f \in DOMAIN x.fields : x.fields[f].kind = "rel"}
Dev_EqualIgnoresAttrNames(e) ==
    /\ e.ev = "eq" /\ e.ret = "ok"
    /\ e.a.tname = e.b.tname
    /\ AttrsOf(e.a) # AttrsOf(e.b)
    /\ RelsOf(e.a) = RelsOf(e.b)
    /\ \A f \in RelsOf(e.a) : e.a.fields[f].to1 = e.b.fields[f].to1 /\ SameVal(e.a.fields[f], e.a.vals[f], e.b.vals[f])
    /\ Cardinality(AttrsOf(e.a)) = Cardinality(AttrsOf(e.b))
    /\ \E pi \in [AttrsOf(e.a) -> AttrsOf(e.b)] :
          /\ \A x, y \in AttrsOf(e.a) : pi[x] = pi[y] => x = y
          /\ \A x \in AttrsOf(e.a) : e.a.vals[x] = e.b.vals[pi[x]] \/ (e.a.vals[x].nil /\ e.b.vals[pi[x]].nil)
    /\ e.obs.eq_aa /\ e.obs.st_aa /\ e.obs.eq_bb /\ e.obs.st_bb
    /\ e.obs.eq_ab /\ e.obs.eq_ba /\ (e.obs.st_ab = e.obs.st_ba)
    /\ (e.a.id # e.b.id => ~e.obs.st_ab)
\* (fixed) Wrapper.Copy did not copy the ID
Dev_WrapperCopyDropsID(e) ==
    /\ e.ev = "step" /\ e.op.op = "Copy" /\ e.ret = "ok" /\ Len(e.post) = Len(e.pre) + 1
    /\ e.pre[e.op.h].impl = "wrap" /\ e.pre[e.op.h].id # ""
    /\ e.post[Len(e.post)] = [e.pre[e.op.h] EXCEPT !.id = ""]
\* (fixed) Equal panicked when the second resource is a wrapped struct lacking the first one's attribute
Dev_EqualPanics(e) == e.ev = "eq" /\ e.ret = "panic"
\* (fixed) Equal ignored the names of the relationships
Dev_EqualIgnoresRelNames(e) ==
    /\ e.ev = "eq" /\ e.ret = "ok" /\ e.obs.eq_ab
    /\ e.a.tname = e.b.tname /\ AttrsOf(e.a) = AttrsOf(e.b) /\ RelsOf(e.a) # RelsOf(e.b)
=============================================================================
