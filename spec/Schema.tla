------------------------------- MODULE Schema -------------------------------
(***************************************************************************)
(* Schema editing (schema.go, type.go): the state of a jsonapi.Schema is   *)
(* the ordered list of its types; each public edit is one atomic action    *)
(* (the library is sequential: the call is the critical section).          *)
(*                                                                         *)
(* Res(ts, op) is the single source of truth: it is the action relation    *)
(* of one call.  It is used                                                *)
(*   - by MC_Schema  : Next == \E op : Do(op), invariants, action props;   *)
(*   - by Gen_Schema : TLC emits reachable states + histories;             *)
(*   - by Trace_Schema: every recorded real call is judged by Allowed.     *)
(*                                                                         *)
(* Serves C14 (edits), C15 (Offending / Check), C12 (queries read-only).   *)
(***************************************************************************)
EXTENDS Integers, Sequences, FiniteSets, TLC

\* A type:  [name |-> STRING, attrs |-> [key -> Attr], rels |-> [key -> Rel]]
\* An attr: [name |-> STRING, k |-> STRING (kind name, "invalid" if none), null |-> BOOLEAN]
\* A rel:   [ft, fn, to1, tt, tn, fo1]  (FromType FromName ToOne ToType ToName FromOne)

Range(f)      == {f[x] : x \in DOMAIN f}
Names(ts)     == {ts[i].name : i \in 1..Len(ts)}
HasT(ts, n)   == \E i \in 1..Len(ts) : ts[i].name = n
IdxOf(ts, n)  == CHOOSE i \in 1..Len(ts) : ts[i].name = n
EmptyType(n)  == [name |-> n, attrs |-> <<>>, rels |-> <<>>]

ValidKinds == {"string", "int", "int8", "int16", "int32", "int64",
               "uint", "uint8", "uint16", "uint32", "uint64",
               "bool", "time", "bytes"}

\* function update that may extend the domain
Put(f, k, v) == [x \in DOMAIN f \cup {k} |-> IF x = k THEN v ELSE f[x]]
Del(f, k)    == [x \in DOMAIN f \ {k} |-> f[x]]

Invert(r) == [ft |-> r.tt, fn |-> r.tn, to1 |-> r.fo1, tt |-> r.ft, tn |-> r.fn, fo1 |-> r.to1]

AttrNames(t) == {t.attrs[k].name : k \in DOMAIN t.attrs}
RelNames(t)  == {t.rels[k].fn : k \in DOMAIN t.rels}

-----------------------------------------------------------------------------
(* Well-formedness (C14)                                                   *)

TypeWF(t) ==
    /\ t.name # ""
    /\ \A k \in DOMAIN t.attrs :
          /\ k # "" /\ t.attrs[k].name = k /\ t.attrs[k].k \in ValidKinds
    /\ \A k \in DOMAIN t.rels :
          /\ k # "" /\ t.rels[k].fn = k /\ t.rels[k].tt # ""

WellFormed(ts) ==
    /\ \A i, j \in 1..Len(ts) : ts[i].name = ts[j].name => i = j
    /\ \A i \in 1..Len(ts) : TypeWF(ts[i])

-----------------------------------------------------------------------------
(* Intended result of one edit: validate first, then mutate.               *)
(* Returns a SET of allowed [post, ret] (a singleton wherever the API      *)
(* determines the outcome).                                                *)

WithType(ts, i, t) == [ts EXCEPT ![i] = t]

ResAddType(ts, op) ==
    IF op.typ.name = "" \/ HasT(ts, op.typ.name)
    THEN {[post |-> ts, ret |-> "err"]}
    ELSE {[post |-> Append(ts, op.typ), ret |-> "ok"]}

ResRemoveType(ts, op) ==
    {[post |-> SelectSeq(ts, LAMBDA t : t.name # op.t), ret |-> "ok"]}

ResAddAttr(ts, op) ==
    IF ~HasT(ts, op.t) THEN {[post |-> ts, ret |-> "err"]}
    ELSE LET i == IdxOf(ts, op.t)
             t == ts[i]
             a == op.attr
             added == [post |-> WithType(ts, i, [t EXCEPT !.attrs = Put(t.attrs, a.name, a)]),
                       ret |-> "ok"]
             refused == [post |-> ts, ret |-> "err"]
         IN  IF a.name = "" \/ a.k \notin ValidKinds \/ a.name \in AttrNames(t)
             THEN {refused}
             \* the API documents uniqueness per map only: an attribute named
             \* like an existing relationship may be refused or added
             ELSE IF a.name \in RelNames(t) THEN {refused, added}
             ELSE {added}

ResRemoveAttr(ts, op) ==
    IF ~HasT(ts, op.t) THEN {[post |-> ts, ret |-> "ok"]}
    ELSE LET i == IdxOf(ts, op.t)
             t == ts[i]
             keep == {k \in DOMAIN t.attrs : t.attrs[k].name # op.n}
         IN {[post |-> WithType(ts, i, [t EXCEPT !.attrs = [k \in keep |-> t.attrs[k]]]),
              ret |-> "ok"]}

ResAddRel(ts, op) ==
    IF ~HasT(ts, op.t) THEN {[post |-> ts, ret |-> "err"]}
    ELSE LET i == IdxOf(ts, op.t)
             t == ts[i]
             r == op.rel
             added == [post |-> WithType(ts, i, [t EXCEPT !.rels = Put(t.rels, r.fn, r)]),
                       ret |-> "ok"]
             refused == [post |-> ts, ret |-> "err"]
         IN  IF r.fn = "" \/ r.tt = "" \/ r.fn \in RelNames(t)
             THEN {refused}
             ELSE IF r.fn \in AttrNames(t) THEN {refused, added}
             ELSE {added}

ResRemoveRel(ts, op) ==
    IF ~HasT(ts, op.t) THEN {[post |-> ts, ret |-> "ok"]}
    ELSE LET i == IdxOf(ts, op.t)
             t == ts[i]
             keep == {k \in DOMAIN t.rels : t.rels[k].fn # op.n}
         IN {[post |-> WithType(ts, i, [t EXCEPT !.rels = [k \in keep |-> t.rels[k]]]),
              ret |-> "ok"]}

\* C14: "Adding a two-way relationship whose types exist and whose names are
\* free succeeds, whichever direction it is given in and also within a single
\* type, and leaves each side holding the relationship and its inverse."
SelfInverse(r) == r.ft = r.tt /\ r.fn = r.tn
TwoWayOK(ts, r) ==
    /\ HasT(ts, r.ft) /\ HasT(ts, r.tt)
    /\ r.fn # "" /\ r.tn # ""
    /\ r.fn \notin RelNames(ts[IdxOf(ts, r.ft)])
    /\ r.tn \notin RelNames(ts[IdxOf(ts, r.tt)])

AddRelTo(ts, r) ==
    LET i == IdxOf(ts, r.ft) IN
    WithType(ts, i, [ts[i] EXCEPT !.rels = Put(ts[i].rels, r.fn, r)])

ResAddTwoWayRel(ts, op) ==
    LET r == op.rel IN
    IF TwoWayOK(ts, r)
    THEN {[post |-> AddRelTo(AddRelTo(ts, r), Invert(r)), ret |-> "ok"]}
    ELSE {[post |-> ts, ret |-> "err"]}

Res(ts, op) ==
    CASE op.op = "AddType"      -> ResAddType(ts, op)
      [] op.op = "RemoveType"   -> ResRemoveType(ts, op)
      [] op.op = "AddAttr"      -> ResAddAttr(ts, op)
      [] op.op = "RemoveAttr"   -> ResRemoveAttr(ts, op)
      [] op.op = "AddRel"       -> ResAddRel(ts, op)
      [] op.op = "RemoveRel"    -> ResRemoveRel(ts, op)
      [] op.op = "AddTwoWayRel" -> ResAddTwoWayRel(ts, op)

\* In the domain of the property?  (a relationship that is its own inverse is outside)
InDomain(op) == op.op = "AddTwoWayRel" => ~SelfInverse(op.rel)

\* The property speaks of the set of types and of lookups, not of the position of a type in
\* Schema.Types: two schemas are compared as name-indexed families (a change that keeps the types in
\* another order - sorted, say - does not break C14).
ByName(ts) == [n \in Names(ts) |-> ts[IdxOf(ts, n)]]
SameSchema(a, b) == Len(a) = Len(b) /\ ByName(a) = ByName(b)
Allowed(pre, op, post, ret) ==
    ~InDomain(op) \/ \E r \in Res(pre, op) :
        /\ r.ret = ret
        \* an edit that changes nothing (an error, a removal of something absent) leaves the schema EXACTLY as it was
        /\ IF r.post = pre THEN post = pre ELSE SameSchema(r.post, post)

-----------------------------------------------------------------------------
(* Queries (observations after every step; C14 "lookups agree")            *)

\* obs.has[n], obs.get[n] for every probed name n: HasType(n), GetType(n).Name
ObsOK(post, obs) ==
    /\ \A n \in DOMAIN obs.has : obs.has[n] = HasT(post, n)
    /\ \A n \in DOMAIN obs.get : obs.get[n] = IF HasT(post, n) THEN n ELSE ""
    \* the empty name, probed apart (it cannot be a record field across the JSON boundary)
    /\ obs.has_empty = HasT(post, "") /\ (~HasT(post, "") => obs.get_empty = "")

-----------------------------------------------------------------------------
(* C15: Schema.Check                                                       *)

RelsOf(ts) == {<<i, k>> \in (1..Len(ts)) \X UNION {DOMAIN ts[i].rels : i \in 1..Len(ts)} :
                    k \in DOMAIN ts[i].rels}

Reciprocated(ts, i, r) ==
    /\ r.ft = ts[i].name
    /\ HasT(ts, r.tt)
    /\ LET tgt == ts[IdxOf(ts, r.tt)] IN
       \E k2 \in DOMAIN tgt.rels :
          LET r2 == tgt.rels[k2] IN
            r2.fn = r.tn /\ r2.tn = r.fn /\ r2.tt = ts[i].name

OffendingRel(ts, i, k) ==
    LET r == ts[i].rels[k] IN
      \/ ~HasT(ts, r.tt)
      \/ (r.tn # "" /\ ~Reciprocated(ts, i, r))

Offending(ts) == {p \in RelsOf(ts) : OffendingRel(ts, p[1], p[2])}

\* e.obs.nerrs = length of Check()'s result; post must equal pre; never panics
CheckAllowed(pre, post, ret, nerrs) ==
    /\ ret = "ok"
    /\ post = pre
    /\ (nerrs = 0) <=> (Offending(pre) = {})
    /\ nerrs >= Cardinality(Offending(pre))

\* "at least one error FOR EACH offending relationship": blamed = the (type, relationship) pairs that the
\* texts of the errors name (every text of schema.go says: relationship "name" ... "owning type").  A text
\* the harness cannot read (unparsed > 0: the wording changed) leaves the count as the only witness.
BlameOK(pre, blamed, unparsed) ==
    \/ unparsed > 0
    \/ \A p \in Offending(pre) :
          \E j \in 1..Len(blamed) : blamed[j][1] = pre[p[1]].name /\ blamed[j][2] = pre[p[1]].rels[p[2]].fn

-----------------------------------------------------------------------------
(* The pinned code's deviations, as named predicates over one event.       *)
(* They identify entries of known_findings.jsonl; they are never used to   *)
(* weaken Allowed.                                                         *)

\* RemoveType of a type that is not the last one: the splice shortens the
\* slice while the range loop still runs to the old length -> index panic
Dev_RemoveTypeNonLastPanics(e) ==
    /\ e.op.op = "RemoveType" /\ e.ret = "panic"
    /\ \E i \in 1..(Len(e.pre) - 1) : e.pre[i].name = e.op.t

\* AddTwoWayRel: an error is returned after one side has been added
Dev_TwoWayHalfAdded(e) ==
    /\ e.op.op = "AddTwoWayRel" /\ e.ret = "err" /\ e.post # e.pre

\* (fixed) an invalid attribute kind marked nullable was accepted ("*" is not the empty name)
Dev_InvalidNullableKindAccepted(e) ==
    /\ e.op.op = "AddAttr" /\ e.ret = "ok" /\ e.op.attr.k \notin ValidKinds /\ e.op.attr.null

\* (fixed) RemoveAttr / RemoveRel found the field by its name and then deleted the map entry of that
\* KEY: a field kept under another key (a type declared by hand and given to AddType) stayed
Dev_RemoveKeepsHandKeyedField(e) ==
    /\ e.op.op \in {"RemoveAttr", "RemoveRel"} /\ e.ret = "ok" /\ e.post = e.pre
    /\ \E i \in 1..Len(e.pre) : /\ e.pre[i].name = e.op.t
                                 /\ e.op.n \in DOMAIN (IF e.op.op = "RemoveAttr" THEN e.pre[i].attrs ELSE e.pre[i].rels)

\* Check misses an inverse that points to another type
Dev_CheckIgnoresInverseTarget(e) ==
    /\ e.op.op = "Check" /\ e.ret = "ok" /\ e.post = e.pre
    /\ e.obs.nerrs < Cardinality(Offending(e.pre))
    /\ LET lax(i, r) == /\ r.ft = e.pre[i].name /\ HasT(e.pre, r.tt)
                        /\ \E k2 \in DOMAIN e.pre[IdxOf(e.pre, r.tt)].rels :
                              LET r2 == e.pre[IdxOf(e.pre, r.tt)].rels[k2] IN
                                 r2.fn = r.tn /\ r2.tn = r.fn
           laxOff == {p \in RelsOf(e.pre) :
                        LET r == e.pre[p[1]].rels[p[2]] IN
                          ~HasT(e.pre, r.tt) \/ (r.tn # "" /\ ~lax(p[1], r))}
       IN  (e.obs.nerrs = 0) <=> (laxOff = {})
=============================================================================
