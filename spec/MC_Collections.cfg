SPECIFICATION Spec
CONSTANT MaxItems = 3
VIEW ViewCol
INVARIANTS InvAt InvWrapColHomogeneous
PROPERTIES AppendOnly
CHECK_DEADLOCK FALSE
