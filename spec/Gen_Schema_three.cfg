SPECIFICATION GenSpec
CONSTANTS
  TN = {"a", "b", "c"}
  AN = {"x"}
  RN = {}
  MaxTypes = 3
  Rich = TRUE
VIEW View
INVARIANTS EmitState
CHECK_DEADLOCK FALSE
