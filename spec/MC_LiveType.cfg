SPECIFICATION Spec
CONSTANTS
  N = 2
  Depth = 7
VIEW ViewSt
INVARIANTS InvShowsTheFields InvFreshUnlessReAdded
PROPERTIES ReadIsStable
CHECK_DEADLOCK FALSE
